open Sx
open Model
open Conv

let to_keyspec = function
  | L [I 0] -> KNone
  | L [I 1] -> KOriginal
  | L [I 2] -> KAlnum
  | L [I 3] -> KCanonical
  | L [I 4; s] -> KStream (to_list to_n s)
  | L [I 5; t] -> KTable (to_list (to_pair to_str to_n) t)
  | _ -> bad "keyspec"

let handler = function
  | L [I 1; m; t] -> of_bool (wf_layout_tree (to_model m) (to_tree t))
  | L [I 2; m; t] -> of_outcome of_tree (configure_interpret (to_model m) (to_tree t))
  | L [I 3; t] -> of_tree (drop_empty_concepts (to_tree t))
  | L [I 4; k; af; m; t] -> of_tree (rearrange_spec (to_model m) (to_keyspec k) (to_bool af) (to_tree t))
  | L [I 5; k; m; g; top] ->
      of_outcome of_tree (reconfigure_spec (to_model m) (to_keyspec k) (to_graph g) (to_opt to_atom top))
  | L [I 6; m; t] -> of_outcome of_graph (interpret (to_model m) (to_tree t))
  | L [I 7; k; m; g] -> of_graph (reconfigure_graph_spec (to_model m) (to_keyspec k) (to_graph g))
  | L [I 8; m; t] -> of_list of_triple (denoted (to_model m) (to_tree t))
  | L [I 9; r] -> let (s, n) = alnum_key (to_str r) in L [of_str s; of_n n]
  | L [I 10; m; g; top] -> of_outcome of_tree (configure (to_model m) (to_graph g) (to_opt to_atom top))
  | L [I 11; m; t] ->
      let mm = to_model m in let tt = to_tree t in
      L [of_bool (wf_layout_tree mm tt); of_outcome of_tree (configure_interpret mm tt)]
  | _ -> failwith "unknown command"

let () = serve handler
