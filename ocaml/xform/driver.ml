open Sx
open Model
open Conv

(* one transform: 1 reify_edges, 2 dereify_edges, 3 reify_attributes, 4 indicate_branches *)
let apply m code g =
  match code with
  | 1 -> reify_edges m g
  | 2 -> dereify_edges m g
  | 3 -> reify_attributes g
  | 4 -> indicate_branches m g
  | _ -> bad "transform code"

(* a program: list of transform codes applied left to right; stops at the first non-Ok *)
let rec run m codes g =
  match codes with
  | [] -> Ok g
  | c :: cs -> (match apply m c g with Ok g' -> run m cs g' | e -> e)

let of_entry (v, ((first, dereified), epis)) =
  L [of_atom v; of_triple first; of_triple dereified; of_list of_epi epis]

let handler = function
  | L [I 1; m; g] -> of_outcome of_graph (reify_edges (to_model m) (to_graph g))
  | L [I 2; m; g] -> of_outcome of_graph (dereify_edges (to_model m) (to_graph g))
  | L [I 3; g] -> of_outcome of_graph (reify_attributes (to_graph g))
  | L [I 4; m; g] -> of_outcome of_graph (indicate_branches (to_model m) (to_graph g))
  | L [I 5; m; codes; g] ->
      of_outcome of_graph (run (to_model m) (to_list to_int codes) (to_graph g))
  | L [I 6; m; g] -> of_outcome (of_list of_entry) (dereify_agenda (to_model m) (to_graph g))
  | _ -> failwith "unknown command"

let () = serve handler
