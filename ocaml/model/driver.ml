open Sx
open Model
open Conv

let handler = function
  | L [I 1; t; r] -> of_opt of_str (canonicalize_role (to_model t) (to_str r))
  | L [I 2; t; r] ->
      let m = to_model t and r = to_str r in
      L [of_bool (has_role m r); of_bool (is_role_inverted m r); of_str (invert_role m r)]
  | L [I 3; t; tr] ->
      let m = to_model t and tr = to_triple tr in
      L [of_triple (invert m tr); of_triple (deinvert m tr)]
  | L [I 4; t; n] -> of_opt of_node (canon_node (to_model t) (to_node n))
  | L [I 5; r] -> let (s, n) = alnum_key (to_str r) in L [of_str s; of_n n]
  | L [I 6; t; r] ->
      let m = to_model t in
      let ((inv, (s, n))) = canonical_key m (to_str r) in L [of_bool inv; of_str s; of_n n]
  | _ -> failwith "unknown command"

let () = serve handler
