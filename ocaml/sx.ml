(* Minimal S-expression-of-integers wire format shared by every driver.
   value := INT | '(' value* ')'   tokens separated by blanks; one value per line. *)
type sx = I of int | L of sx list

let parse (s : string) : sx =
  let n = String.length s in
  let pos = ref 0 in
  let rec skip () = if !pos < n && (s.[!pos] = ' ' || s.[!pos] = '\t') then (incr pos; skip ()) in
  let rec value () =
    skip ();
    if !pos >= n then failwith "sx: unexpected end"
    else if s.[!pos] = '(' then begin
      incr pos;
      let items = ref [] in
      let rec loop () =
        skip ();
        if !pos >= n then failwith "sx: unclosed"
        else if s.[!pos] = ')' then incr pos
        else (items := value () :: !items; loop ()) in
      loop (); L (List.rev !items)
    end else begin
      let st = !pos in
      while !pos < n && s.[!pos] <> ' ' && s.[!pos] <> '(' && s.[!pos] <> ')' do incr pos done;
      I (int_of_string (String.sub s st (!pos - st)))
    end in
  value ()

let rec print (b : Buffer.t) (v : sx) : unit =
  match v with
  | I i -> Buffer.add_string b (string_of_int i)
  | L l ->
      Buffer.add_char b '(';
      List.iteri (fun i x -> if i > 0 then Buffer.add_char b ' '; print b x) l;
      Buffer.add_char b ')'

let to_string v = let b = Buffer.create 256 in print b v; Buffer.contents b

(* main loop: each input line is "(cmd arg...)"; handler returns an sx *)
let serve (handler : sx -> sx) : unit =
  try
    while true do
      let line = input_line stdin in
      if String.length line > 0 then begin
        let out = try handler (parse line) with
          | Stack_overflow -> L [I (-2)]
          | Failure m -> prerr_endline ("driver failure: " ^ m); L [I (-1)]
          | Not_found -> L [I (-1)]
          | Match_failure _ -> prerr_endline "driver: bad shape"; L [I (-1)] in
        print_endline (to_string out)
      end
    done
  with End_of_file -> ()
