open Sx
open Model
open Conv

let alts = function I 0 -> pENMAN_ALTS | _ -> tRIPLE_ALTS

(* result: (0) None | (1) int | (2) float | (3 str) str | (4) ConstantError | (5) out of fuel *)
let of_result = function
  | RNull -> L [I 0]
  | RInt -> L [I 1]
  | RFloat -> L [I 2]
  | RStr s -> L [I 3; of_str s]
  | RConstErr -> L [I 4]
  | RFuel -> L [I 5]

(* 0 Symbol 1 String 2 Integer 3 Float 4 Null 5 ConstantError 6 out of fuel *)
let of_ty = function
  | TySymbol -> I 0 | TyString -> I 1 | TyInteger -> I 2 | TyFloat -> I 3 | TyNull -> I 4
  | TyConstErr -> I 5 | TyFuel -> I 6

let handler = function
  | L [I 1; a] -> of_str (quote (to_atom a))
  | L [I 2; o] -> of_result (evaluate (to_opt to_str o))
  | L [I 3; o] -> of_ty (ctype (to_opt to_str o))
  | L [I 4; a; s] -> of_list of_token (lex_str (alts a) (to_str s))
  | L [I 5; o] -> let o = to_opt to_str o in L [of_result (evaluate o); of_ty (ctype o)]
  | L [I 6; a] ->
      let q = quote (to_atom a) in
      L [of_str q; of_list of_token (lex_str pENMAN_ALTS q); of_list of_token (lex_str tRIPLE_ALTS q);
         of_result (evaluate (Some q)); of_ty (ctype (Some q))]
  | _ -> failwith "unknown command"

let () = serve handler
