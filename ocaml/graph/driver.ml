open Sx
open Model
open Conv

let oa = to_opt to_atom
let os = to_opt to_str
let of_triples = of_list of_triple
let apply code a b = match code with
  | 0 -> g_or a b | 1 -> g_ior a b | 2 -> g_sub a b | _ -> g_isub a b
let raw_graph = function
  | L [ts; top; ed; m] ->
      mk_graph (to_list to_triple ts) (to_opt to_atom top)
        (to_list (to_pair to_triple (to_list to_epi)) ed) (to_meta m)
  | _ -> bad "raw graph"

let handler = function
  (* all unfiltered queries of one graph *)
  | L [I 1; g] ->
      let g = to_graph g in
      L [of_atom (top_value g); of_list of_atom (variables g); of_triples (instances g);
         of_triples (edges g None None None); of_triples (attributes g None None None);
         of_list (of_pair of_atom of_n) (reentrancies g)]
  (* filtered queries *)
  | L [I 2; g; s; r; t] ->
      let g = to_graph g in
      L [of_triples (edges g (oa s) (os r) (oa t)); of_triples (attributes g (oa s) (os r) (oa t));
         of_triples (filter_triples g (oa s) (os r) (oa t))]
  | L [I 3; g; v] -> of_outcome of_graph (set_top (to_graph g) (to_atom v))
  | L [I 4; I code; a; b] -> of_graph (apply code (to_graph a) (to_graph b))
  | L [I 5; a; b] -> of_bool (graph_eq_py (to_graph a) (to_graph b))
  (* the constructor, from raw (un-normalised) roles *)
  | L [I 6; raw] -> of_graph (raw_graph raw)
  (* a sequence of operations folded over a start graph: all intermediate states *)
  | L [I 7; g; L ops] ->
      let step (cur, acc) = function
        | L [I code; b] -> let n = apply code cur (to_graph b) in (n, n :: acc)
        | _ -> bad "op" in
      let (_, acc) = List.fold_left step (to_graph g, []) ops in
      of_list of_graph (List.rev acc)
  | _ -> failwith "unknown command"

let () = serve handler
