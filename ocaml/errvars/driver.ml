open Sx
open Model
open Conv

let of_emsg = function
  | Empty -> I 0 | NoTop -> I 1 | TopNotVar -> I 2 | InvalidRole -> I 3 | Unreachable -> I 4
let of_errdict e = of_list (of_pair (of_opt of_triple) (of_list of_emsg)) e

let of_piece = function
  | Lit s -> L [I 0; of_str s] | Prefix -> L [I 1] | Idx -> L [I 2] | Jdx -> L [I 3]
let to_override = function
  | L [c; a; l] -> (to_n c, (to_bool a, to_str l))
  | _ -> bad "override"

let handler = function
  (* 1: Model.errors(graph) -> option errdict *)
  | L [I 1; m; g] -> of_opt of_errdict (errors_opt (to_model m) (to_graph g))
  (* 2: _check(g, model) -> (status, metadata) *)
  | L [I 2; m; g] ->
      let (b, md) = check_graph (to_model m) (to_graph g) in L [of_bool b; of_meta md]
  (* 3: exit status over FILE arguments ; 4: over stdin *)
  | L [I 3; m; files] -> of_bool (cli_exit_code (to_model m) (to_list (to_list to_graph) files))
  | L [I 4; m; gs] -> of_bool (cli_exit_code_stdin (to_model m) (to_list to_graph gs))
  (* 5: errors of the interpretation of a tree *)
  | L [I 5; m; t] ->
      let md = to_model m in
      of_outcome (fun g -> of_opt of_errdict (errors_opt md g)) (interpret md (to_tree t))
  (* 6 / 7: batched forms of 1 / 5 (one model table, many inputs) *)
  | L [I 6; m; gs] ->
      let md = to_model m in
      of_list (fun g -> of_opt of_errdict (errors_opt md g)) (to_list to_graph gs)
  | L [I 7; m; ts] ->
      let md = to_model m in
      of_list (fun t -> of_outcome (fun g -> of_opt of_errdict (errors_opt md g)) (interpret md t))
        (to_list to_tree ts)
  (* 10: parse_fmt ; 11: Tree.reset_variables(fmt) with CPython-supplied overrides for non-Latin-1 characters ;
     12: the Latin-1 table itself for code points 0..n-1 ; 13: _default_variable_prefix *)
  | L [I 10; s] -> of_opt (of_list of_piece) (parse_fmt (to_str s))
  | L [I 11; ov; fmt; t] ->
      (match parse_fmt (to_str fmt) with
       | None -> L [I (-3)]
       | Some ps -> of_outcome of_tree (reset_variables_ov (to_list to_override ov) ps (to_tree t)))
  | L [I 12; n] ->
      L (List.init (to_int n) (fun i ->
           let c = n_of_int i in
           L [of_bool (latin1_applies c); of_bool (latin1_is_alpha c); of_str (latin1_lower c)]))
  | L [I 13; ov; c] -> of_str (prefix_ov (to_list to_override ov) (to_opt to_target c))
  | _ -> failwith "unknown command"

let () = serve handler
