open Sx
open Model
open Conv

let of_emsg = function
  | Empty -> I 0 | NoTop -> I 1 | TopNotVar -> I 2 | InvalidRole -> I 3 | Unreachable -> I 4
let of_errdict e = of_list (of_pair (of_opt of_triple) (of_list of_emsg)) e

let handler = function
  (* 1: Model.errors(graph) -> option errdict *)
  | L [I 1; m; g] -> of_opt of_errdict (errors_opt (to_model m) (to_graph g))
  (* 2: _check(g, model) -> (status, metadata) *)
  | L [I 2; m; g] ->
      let (b, md) = check_graph (to_model m) (to_graph g) in L [of_bool b; of_meta md]
  (* 3: exit status over FILE arguments ; 4: over stdin *)
  | L [I 3; m; files] -> of_bool (cli_exit_code (to_model m) (to_list (to_list to_graph) files))
  | L [I 4; m; gs] -> of_bool (cli_exit_code_stdin (to_model m) (to_list to_graph gs))
  | _ -> failwith "unknown command"

let () = serve handler
