(* Conversions between the wire format and the extracted Coq datatypes.
   Compiled once per driver group against that group's extracted [Model]. *)
open Sx
open Model

let rec pos_of_int n =
  if n <= 1 then XH else if n land 1 = 0 then XO (pos_of_int (n lsr 1)) else XI (pos_of_int (n lsr 1))
let n_of_int n = if n <= 0 then N0 else Npos (pos_of_int n)
let rec int_of_pos = function XH -> 1 | XO p -> 2 * int_of_pos p | XI p -> 2 * int_of_pos p + 1
let int_of_n = function N0 -> 0 | Npos p -> int_of_pos p
let z_of_int n = if n = 0 then Z0 else if n > 0 then Zpos (pos_of_int n) else Zneg (pos_of_int (-n))
let int_of_z = function Z0 -> 0 | Zpos p -> int_of_pos p | Zneg p -> - (int_of_pos p)
let rec nat_of_int n = if n <= 0 then O else S (nat_of_int (n - 1))
let rec int_of_nat = function O -> 0 | S n -> 1 + int_of_nat n

let bad s = failwith ("conv: " ^ s)
let to_int = function I i -> i | _ -> bad "int"
let to_list f = function L l -> List.map f l | _ -> bad "list"
let to_n v = n_of_int (to_int v)
let to_str v = to_list to_n v
let to_bool v = to_int v <> 0
let to_opt f = function L [] -> None | L [x] -> Some (f x) | _ -> bad "opt"
let to_pair f g = function L [a; b] -> (f a, g b) | _ -> bad "pair"

let of_n n = I (int_of_n n)
let of_str s = L (List.map of_n s)
let of_bool b = I (if b then 1 else 0)
let of_list f l = L (List.map f l)
let of_opt f = function None -> L [] | Some x -> L [f x]
let of_pair f g (a, b) = L [f a; g b]

(* ---- penman datatypes (Base/Types.v, Impl/Model.v) ---- *)
let to_atom = function
  | L [] -> ANone
  | L [I 0; s] -> AStr (to_str s)
  | L [I 1; s; z] -> ANum (to_str s, to_bool z)
  | _ -> bad "atom"
let of_atom = function
  | ANone -> L []
  | AStr s -> L [I 0; of_str s]
  | ANum (s, z) -> L [I 1; of_str s; of_bool z]

let rec to_target = function
  | L [I 0; a] -> TAtom (to_atom a)
  | L [I 1; n] -> TNode (to_node n)
  | _ -> bad "target"
and to_node = function
  | L [v; L bs] -> Node (to_atom v, List.map (to_pair to_str to_target) bs)
  | _ -> bad "node"
let rec of_target = function
  | TAtom a -> L [I 0; of_atom a]
  | TNode n -> L [I 1; of_node n]
and of_node = function
  | Node (v, bs) -> L [of_atom v; L (List.map (of_pair of_str of_target) bs)]

let to_meta v = to_list (to_pair to_str to_str) v
let of_meta m = of_list (of_pair of_str of_str) m
let to_tree = function L [n; m] -> { troot = to_node n; tmeta = to_meta m } | _ -> bad "tree"
let of_tree t = L [of_node t.troot; of_meta t.tmeta]

let to_epi = function
  | L [I 0; a] -> Push (to_atom a)
  | L [I 1] -> Pop
  | L [I 2; idx; pre] -> Aln (to_list to_n idx, to_opt to_str pre)
  | L [I 3; idx; pre] -> RAln (to_list to_n idx, to_opt to_str pre)
  | _ -> bad "epi"
let of_epi = function
  | Push a -> L [I 0; of_atom a]
  | Pop -> L [I 1]
  | Aln (idx, pre) -> L [I 2; of_list of_n idx; of_opt of_str pre]
  | RAln (idx, pre) -> L [I 3; of_list of_n idx; of_opt of_str pre]

let to_triple = function L [s; r; t] -> ((to_atom s, to_str r), to_atom t) | _ -> bad "triple"
let of_triple ((s, r), t) = L [of_atom s; of_str r; of_atom t]

let to_graph = function
  | L [ts; top; ed; m] ->
      { triples = to_list to_triple ts; gtop = to_opt to_atom top;
        epidata = to_list (to_pair to_triple (to_list to_epi)) ed; gmeta = to_meta m }
  | _ -> bad "graph"
let of_graph g =
  L [of_list of_triple g.triples; of_opt of_atom g.gtop;
     of_list (of_pair of_triple (of_list of_epi)) g.epidata; of_meta g.gmeta]

let tokty_of_int = function
  | 0 -> COMMENT | 1 -> STRING | 2 -> LPAREN | 3 -> RPAREN | 4 -> SLASH
  | 5 -> ROLE | 6 -> SYMBOL | 7 -> ALIGNMENT | _ -> UNEXPECTED
let int_of_tokty = function
  | COMMENT -> 0 | STRING -> 1 | LPAREN -> 2 | RPAREN -> 3 | SLASH -> 4
  | ROLE -> 5 | SYMBOL -> 6 | ALIGNMENT -> 7 | UNEXPECTED -> 8
let of_token t = L [I (int_of_tokty t.tty); of_str t.ttext; of_n t.tline; of_n t.toff]

let to_pitem = function
  | L [I 0; c] -> PChar (to_n c)
  | L [I 1; lo; hi] -> PRange (to_n lo, to_n hi)
  | L [I 2; lo; hi] -> PRangePlus (to_n lo, to_n hi)
  | _ -> bad "pitem"
let to_reif = function
  | L [r; c; s; t] -> (((to_str r, to_str c), to_str s), to_str t)
  | _ -> bad "reif"
let to_table = function
  | L [roles; dv; norms; reifs; tr; tv] ->
      { t_roles = to_list (to_list to_pitem) roles; t_deinverts = to_bool dv;
        t_norms = to_list (to_pair to_str to_str) norms; t_reifs = to_list to_reif reifs;
        t_top_role = to_str tr; t_top_var = to_str tv }
  | _ -> bad "table"
let to_model v = model_of_table (to_table v)

let of_outcome f = function
  | Ok a -> L [I 0; f a]
  | DecodeErr (l, o) -> L [I 1; of_n l; of_n o]
  | LayoutErr k -> L [I 2; of_n k]
  | ConstErr -> L [I 3]
  | ModelErr -> L [I 4]
  | SurfaceErr -> L [I 5]
  | GraphErr -> L [I 6]
  | Other t -> L [I 7; of_n t]
  | OutOfFuel -> L [I 8]
