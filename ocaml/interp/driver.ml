open Sx
open Model
open Conv

let of_nat n = I (int_of_nat n)
let of_marker (idx, pre) = L [of_list of_n idx; of_opt of_str pre]
let of_src (role, a) = L [of_str role; of_opt of_atom a]
let of_item it =
  L [of_triple it.i_triple; of_opt of_marker it.i_ralign; of_opt of_marker it.i_talign;
     of_atom it.i_ctx; of_opt of_atom it.i_opened; of_bool it.i_winv; of_nat it.i_closes;
     of_opt of_src it.i_src]
let of_reading r =
  L [of_atom r.r_top; of_list of_triple r.r_triples;
     of_list (of_pair of_triple of_marker) r.r_aligns;
     of_list (of_pair of_triple of_marker) r.r_raligns;
     of_list of_atom r.r_vars; of_list of_item r.r_items]

let handler = function
  | L [I 1; m; t] -> of_outcome of_reading (reading (to_model m) (to_tree t))
  | L [I 2; m; t] -> of_outcome of_graph (interpret (to_model m) (to_tree t))
  | L [I 3; g] -> of_list (of_opt of_atom) (node_contexts (to_graph g))
  | L [I 4; g; tr] -> of_bool (appears_inverted (to_graph g) (to_triple tr))
  | L [I 5; g; tr] -> of_opt of_atom (get_pushed_variable (to_graph g) (to_triple tr))
  | L [I 6; g] -> of_list (of_pair of_triple of_epi) (alignments (to_graph g))
  | L [I 7; g] -> of_list (of_pair of_triple of_epi) (role_alignments (to_graph g))
  | L [I 8; m; t] -> of_bool (wf_layout_tree (to_model m) (to_tree t))
  | L [I 9; m; t] -> of_outcome of_graph (reading_as_graph (to_model m) (to_tree t))
  | L [I 10; g; trs] ->
      let g = to_graph g in
      let trs = to_list to_triple trs in
      L [of_list (of_opt of_atom) (node_contexts g);
         of_list (fun t -> of_opt of_atom (get_pushed_variable g t)) trs;
         of_list (fun t -> of_bool (appears_inverted g t)) trs]
  | _ -> failwith "unknown command"

let () = serve handler
