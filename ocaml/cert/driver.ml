open Sx
open Model
open Conv

let to_ukey v = match to_int v with
  | 0 -> UCanonical | 1 -> UAlphanumeric | 2 -> UInvertedLast | 3 -> UAttributesFirst | 4 -> UOriginal
  | _ -> bad "ukey"
let to_override = function
  | L [c; a; l] -> (to_n c, (to_bool a, to_str l))
  | _ -> bad "override"
let to_z v = z_of_int (to_int v)

(* options: (model flags reconfigure rearrange make_variables indent compact triples check ov);
   make_variables arrives as the format STRING and is parsed by parse_fmt: None = outside the model *)
let to_opts = function
  | L [m; L [cr; re; de; ra; ib]; reconf; rearr; fmt; indent; compact; triples; check; ov] ->
      let mv = match to_opt to_str fmt with
        | None -> Some None
        | Some s -> (match parse_fmt s with None -> None | Some ps -> Some (Some ps)) in
      (match mv with
       | None -> None
       | Some mv ->
         Some { o_model = to_model m; o_canonicalize_roles = to_bool cr; o_reify_edges = to_bool re;
                o_dereify_edges = to_bool de; o_reify_attributes = to_bool ra; o_indicate_branches = to_bool ib;
                o_reconfigure = to_opt (to_list to_ukey) reconf; o_rearrange = to_opt (to_list to_ukey) rearr;
                o_make_variables = mv; o_indent = to_opt to_z indent; o_compact = to_bool compact;
                o_triples = to_bool triples; o_check = to_bool check; o_ov = to_list to_override ov })
  | _ -> bad "opts"

let handler = function
  (* 2: the certificates of Properties/C20c.v for (options, stdin text) -> (first, general) *)
  | L [I 2; o; stdin] ->
      (match to_opts o with
       | None -> L [I (-3)]
       | Some o -> let s = to_str stdin in
                   L [of_bool (idempotence_certificate o s); of_bool (general_certificate o s)])
  | _ -> failwith "unknown command"

let () = serve handler
