open Sx
open Model
open Conv

(* alternation order: 0 = PENMAN_ALTS, 1 = TRIPLE_ALTS, or an explicit list of class codes *)
let alts = function
  | I 0 -> pENMAN_ALTS
  | I 1 -> tRIPLE_ALTS
  | L l -> List.map (function I i -> tokty_of_int i | _ -> failwith "alts") l
  | _ -> failwith "alts"

let handler = function
  | L [I 1; a; s] -> of_list of_token (lex_str (alts a) (to_str s))
  | L [I 2; a; lines] -> of_list of_token (lex_lines (alts a) (to_list to_str lines))
  | L [I 3; s] -> of_list of_str (split_lines (to_str s))
  | _ -> failwith "unknown command"

let () = serve handler
