open Sx
open Model
open Conv

let alts = function I 0 -> pENMAN_ALTS | _ -> tRIPLE_ALTS
let to_indent = function L [] -> None | L [I z] -> Some (z_of_int z) | _ -> bad "indent"
let of_unit () = L []
let of_ptriple ((s, r), t) = L [of_str s; of_str r; of_opt of_str t]

let handler = function
  | L [I 1; a; s] -> of_list of_token (lex_str (alts a) (to_str s))
  | L [I 2; s] -> of_outcome of_tree (parse (to_str s))
  | L [I 3; ind; c; t] -> of_str (format (to_indent ind) (to_bool c) (to_tree t))
  | L [I 4; m; t] -> of_outcome of_graph (interpret (to_model m) (to_tree t))
  | L [I 5; m; g; top] -> of_outcome of_tree (configure (to_model m) (to_graph g) (to_opt to_atom top))
  | L [I 6; s] -> of_outcome (of_list of_ptriple) (parse_triples (to_str s))
  | L [I 7; lines] ->
      let (ts, o) = iterparse_lines (to_list to_str lines) in L [of_list of_tree ts; of_outcome of_unit o]
  | L [I 8; ts; ind] -> of_str (format_triples (to_list to_triple ts) (to_bool ind))
  | L [I 9; a; lines] -> of_list of_token (lex_lines (alts a) (to_list to_str lines))
  | L [I 10; s] ->
      let (ts, o) = iterparse_str (to_str s) in L [of_list of_tree ts; of_outcome of_unit o]
  | _ -> failwith "unknown command"

let () = serve handler
