open Sx
open Model
open Conv

(* driver group 'codec' (C01 / C09) *)
let to_indent = function L [] -> None | L [I z] -> Some (z_of_int z) | _ -> bad "indent"
let of_unit () = L []
let of_tk (k, w) = L [I (int_of_tokty k); of_str w]
let of_gen f (xs, o) = L [of_list f xs; of_outcome of_unit o]

let handler = function
  (* C01 *)
  | L [I 1; s] -> of_list of_token (lex_str pENMAN_ALTS (to_str s))
  | L [I 2; s] -> of_outcome of_tree (parse (to_str s))
  | L [I 3; ind; c; t] -> of_str (format (to_indent ind) (to_bool c) (to_tree t))
  | L [I 4; t] -> of_bool (wf_tree (to_tree t))
  | L [I 5; t] -> of_list of_tk (tokens_of (to_tree t))
  (* all-in-one for a tree and one option setting:
     (wf, tokens_of, format, lex(format) as (ty,text), parse(format)) *)
  | L [I 6; ind; c; t] ->
      let t = to_tree t in
      let s = format (to_indent ind) (to_bool c) t in
      L [of_bool (wf_tree t); of_list of_tk (tokens_of t); of_str s;
         of_list (fun k -> of_tk (k.tty, k.ttext)) (lex_str pENMAN_ALTS s);
         of_outcome of_tree (parse s)]
  (* C09 *)
  | L [I 10; lines] -> of_gen of_tree (iterparse_lines (to_list to_str lines))
  | L [I 11; s] -> of_gen of_tree (iterparse_str (to_str s))
  | L [I 12; m; lines] -> of_gen of_graph (iterdecode_lines (to_model m) (to_list to_str lines))
  | L [I 13; m; s] -> of_gen of_graph (iterdecode_str (to_model m) (to_str s))
  | L [I 14; m; s] -> of_outcome (of_list of_graph) (loads (to_model m) (to_str s))
  | L [I 15; m; ind; c; gs] ->
      of_outcome of_str (dumps (to_model m) (to_indent ind) (to_bool c) (to_list to_graph gs))
  | L [I 16; m; ind; c; gs] ->
      let (w, o) = dump_text (to_model m) (to_indent ind) (to_bool c) (to_list to_graph gs) in
      L [of_str w; of_outcome of_unit o]
  | L [I 17; s] -> of_list of_str (lines_keepends (to_str s))
  | L [I 18; s] -> of_str (universal_newlines (to_str s))
  | L [I 19; s] -> of_list of_str (split_lines (to_str s))
  | L [I 20; lines] -> of_list of_token (lex_lines pENMAN_ALTS (to_list to_str lines))
  | L [I 21; m; s] -> of_outcome of_graph (decode (to_model m) (to_str s))
  | L [I 22; m; ind; c; g] ->
      of_outcome of_str (encode (to_model m) (to_indent ind) (to_bool c) (to_graph g))
  | _ -> failwith "unknown command"

let () = serve handler
