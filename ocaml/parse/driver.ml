(* Driver for C07 / C19: the extracted recogniser of Spec.Grammar run on a token stream
   supplied by the caller (the implementation's own tokens), plus the string-level model
   entry points. *)
open Sx
open Model
open Conv

let to_token = function
  | L [I k; s; l; o] -> { tty = tokty_of_int k; ttext = to_str s; tline = to_n l; toff = to_n o }
  | _ -> bad "token"
let of_unit () = L []
let of_ptriple ((s, r), t) = L [of_str s; of_str r; of_opt of_str t]
let of_pos = function None -> L [] | Some (l, o) -> L [of_n l; of_n o]

let of_rres ntoks r =
  match r with
  | RAccept (n, rest, _) -> L [I 0; of_node n; I (List.length rest)]
  | RFail rest -> L [I 1; of_pos (rres_pos r); I (ntoks - List.length rest)]
  | REnd _ -> L [I 2; of_pos (rres_pos r)]

let handler = function
  | L [I 1; toks] ->
      let ts = to_list to_token toks in of_rres (List.length ts) (recognise_tree ts)
  | L [I 2; toks] ->
      let (ns, e) = recognise_all (to_list to_token toks) in L [of_list of_node ns; of_pos e]
  | L [I 3; toks] ->
      let ts = to_list to_token toks in of_rres (List.length ts) (recognise_full ts)
  | L [I 6; s] -> of_outcome of_tree (parse (to_str s))
  | L [I 7; s] ->
      let (ts, o) = iterparse_str (to_str s) in L [of_list of_tree ts; of_outcome of_unit o]
  | L [I 8; s] -> of_outcome (of_list of_ptriple) (parse_triples (to_str s))
  | L [I 9; ts; ind] -> of_str (format_triples (to_list to_triple ts) (to_bool ind))
  | L [I 10; a; s] ->
      of_list of_token (lex_str (match a with I 0 -> pENMAN_ALTS | _ -> tRIPLE_ALTS) (to_str s))
  | _ -> failwith "unknown command"

let () = serve handler
