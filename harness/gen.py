"""Shared generators (all randomness comes from the rng passed in).

G-str    strings over the delimiter alphabet (bounded-exhaustive + random)
G-tree   trees with every robustness shape; wf_tree / wf_layout_tree variants
G-graph  graphs grown connected, then optionally corrupted; marker corruptions
"""
import itertools

ALPHABET = ['(', ')', '/', ':', '~', '"', '\\', '#', ',', '^', '.', '-', '_', 'a', 'e', 'E', '0', '1',
            ' ', '\t', '\n', '\r', '\v', '\f', '\xa0', '　', ' ', '\x85']


def strings_upto(alphabet, n):
    for k in range(n + 1):
        for tup in itertools.product(alphabet, repeat=k):
            yield ''.join(tup)


def random_string(rng, maxlen=40, alphabet=ALPHABET):
    return ''.join(rng.choice(alphabet) for _ in range(rng.randint(0, maxlen)))


# ---- token-level generation: grammar-directed strings with noise -----------------

SYMS = ['a', 'b', 'c', 'x', 'y-1', 'dog', 'bark-01', '-', '+', '1', '0.5', 'a,b', '^x', '#h', 'é', 'a\xa0b', '_', 'x.y',
        '\u201cKim\u201d', '8,400', 'x^2']
STRS = ['"s"', '""', '"a b"', '"(x)"', '"a\\"b"', '"~1"', '"a/b:c"', '"#"', '"\\\\"', '"x y"',
        '"a \u201cb, c\u201d d"', '"t\tu"', '"x\\by\\fz"']
ROLES = [':ARG0', ':ARG1', ':ARG0-of', ':op1', ':op2', ':op10', ':mod', ':', ':polarity', ':x-of-of', ':TOP', ':domain-of', ':quant',
         ':instance', ':ARG0-OF', ':PART-Of', ':op01', ':op003']
ALNS = ['~1', '~e.2', '~e.2,3', '~E.1', '~x7', '~0,0', '~1,23', '~e.9,10,11', '~12,3,45', '~\xe9.1', '~\xdf2']
SPACERS = [' ', '  ', '\n', '\t', ' \n  ', '\r\n', '\v', '\f', '']


def random_penman_text(rng, depth=0, maxdepth=4, p_bad=0.08):
    """Mostly grammatical PENMAN text with occasional mutations."""
    def sp():
        return rng.choice(SPACERS[:3]) if rng.random() < .9 else rng.choice(SPACERS)

    def atom():
        a = rng.choice(SYMS) if rng.random() < .7 else rng.choice(STRS)
        if rng.random() < .2:
            a += rng.choice(ALNS)
        return a

    def node(d):
        if rng.random() < .04:
            return '(' + sp() + ')'
        s = '(' + (sp() if rng.random() < .2 else '') + rng.choice(['a', 'b', 'c', 'd', 'x1', 'a']) + str(rng.randint(0, 3) if d else '')
        r = rng.random()
        if r < .7:
            s += ' /' + sp() + atom()
        elif r < .8:
            s += ' /'
        for _ in range(rng.choice([0, 1, 1, 2, 3]) if d < maxdepth else rng.choice([0, 1])):
            role = rng.choice(ROLES)
            if rng.random() < .1:
                role += rng.choice(ALNS)
            s += (sp() or ' ') + role
            q = rng.random()
            if q < .4 and d < maxdepth:
                s += sp() + node(d + 1)
            elif q < .93:
                s += ' ' + atom()
            # else: missing target
        return s + (sp() if rng.random() < .2 else '') + ')'

    text = node(depth)
    if rng.random() < .3:
        meta = ''.join('# ::%s %s\n' % (rng.choice(['id', 'snt', 'k']), rng.choice(['1', 'foo bar', '', 'a ; (b) "c" #d', 'x y', 'v  ']))
                       for _ in range(rng.randint(1, 2)))
        text = meta + text
    if rng.random() < p_bad:
        i = rng.randint(0, len(text))
        text = text[:i] + rng.choice(ALPHABET) + text[i + rng.choice([0, 1]):]
    return text


# ---- trees ---------------------------------------------------------------------------

def random_tree_node(rng, vars_pool, depth=0, maxdepth=4, wf=True, defined=None, roles=None, atoms=None):
    """A tree node (var, branches). With wf=True every nested node gets a fresh variable."""
    roles = roles or [':ARG0', ':ARG1', ':ARG0-of', ':op1', ':op2', ':mod', ':polarity', ':quant', ':domain-of', ':ARG1-of',
                      ':ARG2-OF', ':op02']
    atoms = atoms or ['x', 'y', '-', '"s t"', '"(~)"', '1', '2.5', 'dog']
    if defined is None:
        defined = []
    var = vars_pool.pop(0) if (wf and vars_pool) else rng.choice(['a', 'b', 'c'])
    defined.append(var)
    bs = []
    r = rng.random()
    if r < .75:
        c = rng.choice(atoms + defined[:1])
        if rng.random() < .15:
            c += rng.choice(['~1', '~e.2', '~7,2'])
        bs.append(('/', c))
    elif r < .8 and not wf:
        bs.append(('/', None))
    for _ in range(rng.choice([0, 1, 2, 3]) if depth < maxdepth else rng.choice([0, 1])):
        role = rng.choice(roles)
        if rng.random() < .12:
            role += rng.choice(['~1', '~e.2,3', '~e.12,10,11'])
        q = rng.random()
        if q < .4 and depth < maxdepth and (vars_pool or not wf):
            tgt = random_tree_node(rng, vars_pool, depth + 1, maxdepth, wf, defined, roles, atoms)
        elif q < .6 and defined:
            tgt = rng.choice(defined)           # re-entrancy / cycle to an enclosing node
            if rng.random() < .15:
                tgt += rng.choice(['~3', '~9,4'])
        elif q < .95:
            tgt = rng.choice(atoms)
            if rng.random() < .12:
                tgt += '~2'
        else:
            tgt = None
        bs.append((role, tgt))
    return (var, bs)


def forward_references(rng, node):
    """Re-target some atomic branches at ANY variable of the tree, so that a reference (possibly through an inverted
    role) can precede the definition of its node (random_tree_node alone only refers backwards)."""
    allvars = []

    def collect(n):
        allvars.append(n[0])
        for _, t in n[1]:
            if isinstance(t, tuple):
                collect(t)
    collect(node)

    def rebuild(n):
        bs = []
        for r, t in n[1]:
            if isinstance(t, tuple):
                t = rebuild(t)
            elif r != '/' and rng.random() < .3:
                t = rng.choice(allvars)
            bs.append((r, t))
        return (n[0], bs)
    return rebuild(node)


def fresh_vars(n=40):
    return ['a', 'b', 'c', 'd', 'e', 'f', 'g', 'h'] + ['v%d' % i for i in range(n)]


# ---- graphs ----------------------------------------------------------------------------

CONSTS = ['x', '"s"', 7, 0, 0.0, -1.5, None, 'k', '"u\u2028v"', '"w\x0bx \x85y"']


def random_connected_graph(rng, nvars=None, nextra=None, roles=None, consts=None, with_numbers=True, numeric_concepts=False):
    """Triples of a well-formed, weakly connected graph (each var one instance), shuffled by caller."""
    roles = roles or [':ARG0', ':ARG1', ':op1', ':op2', ':op10', ':mod', ':quant', ':ARG0-of']
    consts = consts or (CONSTS if with_numbers else ['x', '"s"', 'k', None])
    nvars = nvars or rng.randint(1, 5)
    V = fresh_vars()[:nvars]
    triples = []
    for i, v in enumerate(V):
        concept = rng.choice(['x', 'y', None, V[0], '"c"']) if rng.random() < .9 else rng.choice(V)
        if numeric_concepts and rng.random() < .12:
            concept = rng.choice([0, 0.0, 7, -1.5])       # a hand-built graph may carry a number as a concept
        triples.append((v, ':instance', concept))
        if i:
            u = rng.choice(V[:i])
            t = (u, rng.choice(roles), v) if rng.random() < .6 else (v, rng.choice(roles), u)
            triples.append(t)
    for _ in range(nextra if nextra is not None else rng.randint(0, 4)):
        if rng.random() < .5:
            t = (rng.choice(V), rng.choice(roles), rng.choice(V))
        else:
            t = (rng.choice(V), rng.choice(roles), rng.choice(consts))
        triples.append(t)
    # distinct triples (0 == 0.0 in python: keep by canonical text)
    seen, out = set(), []
    nums = {}
    for t in triples:
        k = (t[0], t[1], repr(t[2]))
        if isinstance(t[2], (int, float)):
            # avoid 0 vs 0.0 for the same (source, role)
            nk = (t[0], t[1], t[2])
            if nk in nums:
                continue
            nums[nk] = 1
        if k in seen:
            continue
        seen.add(k)
        out.append(t)
    return V, out
