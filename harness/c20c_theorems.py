"""Theorems of coq/Properties/C20c.v (vocabulary: coq/Spec/Idle.v, proofs: coq/Proofs/NormIdem_lemmas.v):
byte idempotence of the penman command for --reify-edges / --reify-attributes (with or without
--canonicalize-roles, any formatting) under the decidable idempotence certificate, the graph-level
idempotence of both reifications, and machine-checked witnesses that the certificate fails on F30 / F32.

Register with  chk.require_theorems('Properties.C20c', THEOREMS)  in the C20 check.
"""
THEOREMS = [
    'C20c_reify_edges_fixed_point',
    'C20c_reify_attributes_fixed_point',
    'C20c_dereify_edges_fixed_point',
    'C20c_closed_graphs',
    'C20c_reify_edges_idempotent',
    'C20c_reify_attributes_idempotent',
    'C20c_idle_reify_options_can_be_struck',
    'C20c_tree_fixed',
    'C20c_stream_idempotent',
    'C20c_certificate_sound',
    'C20c_certificate_without_canonicalize',
    'C20c_no_empty_concept_slot',
    'C20c_written_tree',
    'C20c_general_tree_fixed',
    'C20c_general_idempotent',
    'C20c_any_certificate_sound',
    'C20c_certificate_nonvacuous',
    'C20c_general_certificate_nonvacuous',
    'C20c_dereify_certified',
    'C20c_F30_refuted',
    'C20c_F32_refuted',
    'C20c_F33_refuted',
]
