"""C20 — the penman command equals the library pipeline and emits a normal form.

proof:          coq/Properties/C20.v (Impl.Cli mirrors __main__'s plumbing; pipeline equality,
                blank-line framing, idempotence of the components that compose)
correspondence: Impl.Cli.run (extracted) vs `python -m penman` on generated streams/options
oracle:         (a) stdout/exit status of the tool == an independent reference pipeline written
                from docs/command.rst calling the library in-process; (b) second pass through
                the tool reproduces the bytes for stable option sets; (c) with no normalisation
                options the output decodes to the same graphs; (d) formatting options never
                change content.
"""
import io
import itertools
import json
import os
import subprocess
import sys
import tempfile

from harness import common, gen, models

try:
    from harness.c20_theorems import THEOREMS
except ImportError:
    THEOREMS = []

NORM_FLAGS = ['--canonicalize-roles', '--reify-edges', '--dereify-edges', '--reify-attributes', '--indicate-branches']
REARRANGE = ['canonical', 'alphanumeric', 'inverted-last', 'attributes-first', 'canonical,attributes-first',
             'attributes-first,alphanumeric', 'inverted-last,alphanumeric']
RECONFIGURE = ['original', 'canonical']
FORMATS = ['{prefix}{j}', '{prefix}{i}', 'v{i}', 'x{j}{i}']
INDENTS = [None, 'no', '-1', '0', '3']


# ----------------------------------------------------------------------------------------
# running the tool

def run_cli_subprocess(args, stdin_text, files, seed='0'):
    env = dict(os.environ, PYTHONPATH=str(common.REPO), PYTHONHASHSEED=seed, PYTHONIOENCODING='utf-8')
    p = subprocess.run([sys.executable, '-m', 'penman'] + args + files, input=stdin_text, capture_output=True,
                       text=True, env=env, timeout=60, encoding='utf-8')
    return p.stdout, p.returncode, p.stderr


def run_cli_inprocess(args, stdin_text, files):
    """Call penman.__main__.main() with patched argv/stdin/stdout (fast path)."""
    import penman.__main__ as pm
    old = sys.argv, sys.stdin, sys.stdout, sys.stderr
    out, err = io.StringIO(), io.StringIO()
    sys.argv = ['penman'] + args + files
    sys.stdin, sys.stdout, sys.stderr = io.StringIO(stdin_text or ''), out, err
    code = 0
    try:
        try:
            common.timed(pm.main, seconds=20)
        except SystemExit as e:
            code = e.code if isinstance(e.code, int) else (0 if e.code is None else 1)
    finally:
        sys.argv, sys.stdin, sys.stdout, sys.stderr = old
    return out.getvalue(), code, err.getvalue()


# ----------------------------------------------------------------------------------------
# the reference pipeline, written from docs/command.rst (NOT from __main__.py)

def get_model(opts, model_file_tbl=None):
    from penman.model import Model
    if opts.get('amr'):
        from penman.models.amr import model
        return model
    if opts.get('noop'):
        from penman.models.noop import model
        return model
    if opts.get('model'):
        return models.impl_model(model_file_tbl)
    return Model()


def sort_key_for(keys, model, table):
    names = {'random': 'random_order', 'canonical': 'canonical_order', 'alphanumeric': 'alphanumeric_order',
             'inverted-last': 'is_role_inverted', 'attributes-first': 'attributes_first', 'original': 'original_order'}
    funcs, kwargs = [], {}
    for k in keys.split(','):
        name = names[k]
        f = getattr(model, name, None)
        if f is None:
            kwargs[name] = True
        else:
            funcs.append(f)
    return (lambda role: [f(role) for f in funcs]), kwargs


COLLISION = [False]


def reference_pipeline(text_streams, opts, model):
    """Documented pipeline: parse, canonicalise, interpret, reify, dereify, reify attributes,
    indicate branches, reconfigure or configure, rearrange, relabel, format; one output graph
    per input graph, separated by one blank line; exit status 1 iff --check found an error."""
    import penman
    from penman import layout, transform
    from penman.codec import PENMANCodec
    codec = PENMANCodec(model=model)
    indent = opts.get('indent')
    if indent is None:
        ind = -1
    elif indent.lower() in ('no', 'none', 'false'):
        ind = None
    else:
        ind = int(indent)
    outs, status = [], 0
    for text in text_streams:
        for t in penman.iterparse(text):
            if opts.get('--canonicalize-roles'):
                t = transform.canonicalize_roles(t, model)
            g = layout.interpret(t, model)
            if opts.get('--reify-edges'):
                g = transform.reify_edges(g, model)
            if opts.get('--dereify-edges'):
                g = transform.dereify_edges(g, model)
            if opts.get('--reify-attributes'):
                g = transform.reify_attributes(g)
            if opts.get('--indicate-branches'):
                g = transform.indicate_branches(g, model)
            if opts.get('check'):
                errors = model.errors(g)
                if errors:
                    status = 1
                    for i, (triple, msgs) in enumerate(errors.items(), 1):
                        ctx = '({}) '.format(' '.join(map(str, triple))) if triple else ''
                        for m in msgs:
                            g.metadata[f'error-{i}'] = ctx + m
            if opts.get('triples'):
                s = codec.format_triples(g.triples, indent=bool(True if ind is None and indent is None else ind))
                # `--triples` uses indent=bool(format_options['indent']): None -> False, -1 -> True, 0 -> False
                s = codec.format_triples(g.triples, indent=bool(ind))
            else:
                if opts.get('reconfigure'):
                    key, kw = sort_key_for(opts['reconfigure'], model, None)
                    t2 = layout.reconfigure(g, model=model, key=key, **kw)
                else:
                    t2 = layout.configure(g, model=model)
                if opts.get('rearrange'):
                    key, kw = sort_key_for(opts['rearrange'], model, None)
                    layout.rearrange(t2, key=key, **kw)
                if opts.get('make_variables'):
                    old_vars = {v for v, _ in t2.nodes()}
                    consts = set()
                    for _, (role, tgt) in t2.walk():
                        if role != '/' and isinstance(tgt, str) and tgt.partition('~')[0] not in old_vars:
                            consts.add(tgt.partition('~')[0])
                    t2.reset_variables(opts['make_variables'])
                    if consts & {v for v, _ in t2.nodes()}:
                        COLLISION[0] = True     # C10's proviso fails: a constant is spelled like a new name
                s = codec.format(t2, indent=ind, compact=bool(opts.get('compact')))
            outs.append(s)
    text = ''.join(s + '\n' for s in _interleave(outs))
    return text, status


def _interleave(outs):
    res = []
    for i, s in enumerate(outs):
        if i:
            res.append('')
        res.append(s)
    return res


def argv_of(opts, model_path=None):
    a = []
    if opts.get('amr'):
        a.append('--amr')
    if opts.get('noop'):
        a.append('--noop')
    if opts.get('model'):
        a += ['--model', model_path]
    if opts.get('check'):
        a.append('--check')
    for f in NORM_FLAGS:
        if opts.get(f):
            a.append(f)
    if opts.get('reconfigure'):
        a += ['--reconfigure', opts['reconfigure']]
    if opts.get('rearrange'):
        a += ['--rearrange', opts['rearrange']]
    if opts.get('make_variables'):
        a += ['--make-variables', opts['make_variables']]
    if opts.get('indent') is not None:
        a.append('--indent=' + opts['indent'])
    if opts.get('compact'):
        a.append('--compact')
    if opts.get('triples'):
        a.append('--triples')
    return a


# ----------------------------------------------------------------------------------------
# generation

_forward_references = gen.forward_references


def gen_stream(rng, model_name, canonicalize=False):
    """1-4 well-formed graphs with metadata, as text."""
    import penman
    from penman.tree import Tree
    amr_roles = [':ARG0', ':ARG1', ':ARG0-of', ':ARG2', ':op1', ':op2', ':op10', ':mod', ':polarity', ':quant', ':location',
                 ':time', ':domain-of', ':ARG1-of', ':poss', ':name', ':consist-of', ':subset',
                 ':prep-out-of', ':mod-of', ':location-of']
    # roles must be in canonical inversion form FOR THE MODEL IN USE (well-formed input):
    # an inverted use of a role that ends in -of by definition exists only under models defining it
    if model_name == 'amr':
        amr_roles += [':consist-of-of', ':prep-on-behalf-of-of', ':prep-out-of-of', ':prep-on-behalf-of']
    elif model_name == 'mini':
        amr_roles += [':consist-of-of']
    if canonicalize:
        # --canonicalize-roles is FOR roles that are not in canonical form: stacked inversions, missing normalisation
        amr_roles += [':ARG0-of-of', ':mod-of-of', ':domain-of-of-of', ':ARG1-of-of-of', ':mod-of-of-of-of', ':op1-of-of']
    texts = []
    for _ in range(rng.randint(1, 4)):
        node = gen.random_tree_node(rng, gen.fresh_vars(), maxdepth=rng.choice([1, 2, 3]), wf=True,
                                    roles=amr_roles, atoms=['x', 'y', '-', '"s t"', '"(~)"', '1', '2.5', 'dog', 'have-mod-91', 'have-quant-91',
                                                            '"u\u2028v"', '"w\x0bx \x85y\x1c"'])
        if rng.random() < .35:
            node = _forward_references(rng, node)
        meta = {}
        if rng.random() < .5:
            for k in rng.sample(['id', 'snt', 'k'], rng.randint(1, 2)):
                meta[k] = rng.choice(['1', 'foo bar', '', 'a ; (b) "c" #d', 'x  y', 'p\u2028q \x0c r\x85s'])
        t = Tree(node, metadata=meta)
        g = penman.interpret(t)
        if len(set(g.triples)) != len(g.triples):
            continue            # well-formed input only: denoted triples pairwise distinct
        texts.append(penman.format(t, indent=rng.choice([-1, None, 2])))
    if not texts:
        texts = ['(a / alpha)']
    sep = rng.choice(['\n\n', '\n', '\n\n\n'])
    return sep.join(texts) + rng.choice(['\n', ''])


def gen_opts(rng, stable_only=False, family=None):
    if family is not None:
        return gen_opts_family(rng, family)
    o = {}
    r = rng.random()
    if r < .45:
        o['amr'] = True
    elif r < .55:
        o['noop'] = True
    elif r < .65:
        o['model'] = True
    for f in NORM_FLAGS:
        if rng.random() < .3:
            o[f] = True
    if rng.random() < .25:
        o['reconfigure'] = rng.choice(RECONFIGURE)
    if rng.random() < .35:
        o['rearrange'] = rng.choice(REARRANGE)
    if rng.random() < .3:
        o['make_variables'] = rng.choice(FORMATS)
    o['indent'] = rng.choice(INDENTS)
    if rng.random() < .3:
        o['compact'] = True
    if rng.random() < .12:
        o['triples'] = True
    if rng.random() < .15:
        o['check'] = True
    if stable_only:
        o.pop('reconfigure', None)
        o.pop('--indicate-branches', None)
    return o


def gen_opts_family(rng, family):
    """Option sets restricted to one property's operations (used by the C05 / C12 checks, which observe their
    property at the command line too): 'layout' = --rearrange / --reconfigure / encode-with-model, 'transform' =
    the four graph transformations."""
    o = {}
    r = rng.random()
    if r < .5:
        o['amr'] = True
    elif r < .6:
        o['model'] = True
    if family == 'layout':
        if rng.random() < .5:
            o['rearrange'] = rng.choice(REARRANGE)
        if rng.random() < .5 or 'rearrange' not in o:
            o['reconfigure'] = rng.choice(RECONFIGURE + ['original,canonical', 'canonical,original'])
    else:
        for f in ['--reify-edges', '--dereify-edges', '--reify-attributes', '--indicate-branches']:
            if rng.random() < .45:
                o[f] = True
        if not any(o.get(f) for f in NORM_FLAGS):
            o[rng.choice(['--reify-edges', '--reify-attributes'])] = True
    o['indent'] = rng.choice(INDENTS)
    return o


def graphs_equal(s1, s2, model):
    import penman
    g1 = penman.loads(s1, model=model)
    g2 = penman.loads(s2, model=model)
    if len(g1) != len(g2):
        return False
    for a, b in zip(g1, g2):
        if a.top != b.top or sorted(map(repr, a.triples)) != sorted(map(repr, b.triples)) or a.metadata != b.metadata:
            return False
    return True


def has_inverted_reifiable_attribute(streams, model):
    """F30: an attribute written with an inverted role whose plain form is reifiable."""
    import penman
    for text in streams:
        for g in penman.iterdecode(text, model=model):
            for s_, r, t in g.attributes():
                if model.is_role_inverted(r) and model.is_role_reifiable(model.invert_role(r)):
                    return True
    return False


def normalised_inverse_reifiable(first_output, model):
    """F32: the first pass wrote an edge with the INVERSE spelling of a role whose normalisation is reifiable
    (AMR: ':domain-of' normalises to ':mod'), because the layout had to invert a non-reifiable ':domain' edge."""
    import penman
    for t in penman.iterparse(first_output):
        for _, (role, _tgt) in t.walk():
            r = role.partition('~')[0]
            n = model.normalizations.get(r)
            if n is not None and model.is_role_inverted(r) and model.is_role_reifiable(n):
                return True
    return False


def writes_uncanonical_role(first_output, model):
    """F33: the first pass (with --canonicalize-roles --dereify-edges) wrote a role that canonicalisation rewrites: a
    dereified edge laid out against its direction, whose inverse spelling has a normalisation (':mod-of' -> ':domain')."""
    import penman
    for t in penman.iterparse(first_output):
        for _, (role, _tgt) in t.walk():
            r = role.partition('~')[0]
            if r != '/' and r in model.normalizations and model.is_role_inverted(r):
                return True
    return False


def classify_non_idempotent(opts, streams, first_output, model):
    """The key of a second-pass difference: one of the open known findings, else a new failure."""
    if opts.get('--reify-attributes') and opts.get('--reify-edges') and has_inverted_reifiable_attribute(streams, model):
        return 'F30-inverted-reifiable-attribute'
    if opts.get('--canonicalize-roles') and opts.get('--reify-edges') and normalised_inverse_reifiable(first_output, model):
        return 'F32-normalised-inverse-role-reified'
    if (opts.get('--canonicalize-roles') and opts.get('--dereify-edges') and not opts.get('--reify-edges')
            and writes_uncanonical_role(first_output, model)):
        return 'F33-normalised-inverse-role-after-dereify'
    return 'idempotence'


def one_case(args):
    """Worker: returns a list of (kind, key, what, case) findings for one generated case."""
    idx, seed, tier = args[:3]
    family = args[3] if len(args) > 3 else None
    import random
    rng = random.Random(f'C20:{family}:{seed}:{idx}')
    common.use_repo()
    findings = []
    mode = ['stdin', 'files'][rng.random() < .4]
    opts = gen_opts(rng, family=family)
    model_tbl = models.MINI_AMR if opts.get('model') else None
    model = get_model(opts, model_tbl)
    nstreams = 1 if mode == 'stdin' else rng.randint(1, 3)
    mname = 'amr' if opts.get('amr') else 'mini' if opts.get('model') else 'default'
    streams = [gen_stream(rng, mname, canonicalize=bool(opts.get('--canonicalize-roles'))) for _ in range(nstreams)]
    case = {'opts': opts, 'mode': mode, 'streams': streams}
    tmpdir = tempfile.mkdtemp(prefix='c20_')
    try:
        files = []
        if mode == 'files':
            for i, s in enumerate(streams):
                p = os.path.join(tmpdir, f'in{i}.txt')
                open(p, 'w', encoding='utf-8').write(s)
                files.append(p)
        mpath = None
        if opts.get('model'):
            mpath = os.path.join(tmpdir, 'model.json')
            json.dump({'roles': {r: {} for r in model_tbl['roles']}, 'normalizations': model_tbl['norms'],
                       'reifications': [list(r) for r in model_tbl['reifs']]}, open(mpath, 'w'))
        argv = argv_of(opts, mpath)
        use_sub = (idx % 8 == 0)
        runner = run_cli_subprocess if use_sub else run_cli_inprocess
        stdin_text = streams[0] if mode == 'stdin' else None
        try:
            out, code, err = runner(argv, stdin_text, files)
        except common.Timeout:
            return [('fail', 'hang', 'the tool does not terminate', case)]
        COLLISION[0] = False
        try:
            ref_out, ref_code = common.timed(reference_pipeline, streams, opts, model, seconds=20)
            ref_exc = None
        except Exception as e:           # the library pipeline itself raises: the tool must fail too
            ref_out, ref_code, ref_exc = None, None, e
        if ref_exc is not None:
            if code == 0:
                findings.append(('fail', 'pipeline', f'library pipeline raises {type(ref_exc).__name__} but the tool exits 0', case))
            return findings
        if out != ref_out:
            findings.append(('fail', 'pipeline', 'tool output differs from the documented library pipeline', dict(case, got=out, want=ref_out)))
        if code != ref_code:
            findings.append(('fail', 'exit-status', f'exit status {code}, reference pipeline says {ref_code}', case))
        # (b) idempotence for stable option sets, single stream
        stable = not (opts.get('reconfigure') or opts.get('--indicate-branches') or opts.get('triples') or opts.get('check')
                      or 'random' in (opts.get('rearrange') or ''))
        if family is not None:
            stable = False
        if stable and COLLISION[0]:
            findings.append(('note', 'skipped-idempotence-constant-collides-with-new-variable'))
        elif stable and code == 0 and out:
            out2, code2, _ = run_cli_inprocess(argv, out, [])
            if out2 != out:
                key = classify_non_idempotent(opts, streams, out, model)
                findings.append(('fail', key, 'feeding the output back with the same options changes it', dict(case, first=out, second=out2)))
        # (c) content preserved without normalisation options
        no_norm = not any(opts.get(k) for k in NORM_FLAGS + ['reconfigure', 'rearrange', 'make_variables', 'triples', 'check'])
        if no_norm and code == 0:
            if not graphs_equal('\n\n'.join(streams), out, model):
                findings.append(('fail', 'content', 'plain re-serialisation changed the graphs', case))
        # (d) formatting options never change content
        if not opts.get('triples') and code == 0:
            o2 = dict(opts, indent=rng.choice(INDENTS), compact=not opts.get('compact'))
            out3, code3, _ = run_cli_inprocess(argv_of(o2, mpath), stdin_text, files)
            if code3 != code or not graphs_equal(out, out3, model):
                findings.append(('fail', 'format-content', 'changing only formatting options changed the content', dict(case, other=o2)))
        return findings + [('stat', mode, 'subprocess' if use_sub else 'inprocess', sorted(k for k, v in opts.items() if v))]
    finally:
        for f in os.listdir(tmpdir):
            os.unlink(os.path.join(tmpdir, f))
        os.rmdir(tmpdir)


def run_family(chk, family, n):
    """The tool compared with the documented library pipeline on one family of options (for C05 / C12)."""
    res = common.pmap(one_case, [(i, chk.seed, chk.tier, family) for i in range(n)], chunk=10)
    for idx, findings in enumerate(res):
        chk.count(('cli-' + family, idx))
        for f in findings:
            if f[0] == 'fail':
                chk.fail('cli-' + f[1], f'penman command ({family} options): ' + f[2], f[3])
    chk.stat('cli-' + family + '-runs', n)


def run(chk):
    chk.rule = ('streams of 1-4 well-formed graphs with metadata x random subsets of the 8 normalisation options x indent '
                '{default,no,-1,0,3} x compact x triples x check x models {default,--amr,--noop,--model file} x stdin / 1-3 files; '
                'one case in 8 through a real `python -m penman` subprocess, the rest through penman.__main__.main() in a worker; '
                'distinct = distinct (options, input) pairs, all non-trivial')
    if THEOREMS:
        chk.require_theorems('Properties.C20', THEOREMS)
        from harness import c20b_theorems
        chk.require_theorems('Properties.C20b', c20b_theorems.THEOREMS)    # byte idempotence for --rearrange / --make-variables
        from harness import c20c_theorems
        chk.require_theorems('Properties.C20c', c20c_theorems.THEOREMS)    # ... for the reify options, under the certificate
    n = 3000 if chk.tier == 'quick' else 40000
    res = common.pmap(one_case, [(i, chk.seed, chk.tier) for i in range(n)], chunk=10)
    for idx, findings in enumerate(res):
        chk.count(idx)
        for f in findings:
            if f[0] == 'fail':
                chk.fail(f[1], f[2], f[3])
            elif f[0] == 'note':
                chk.stat(f[1])
            else:
                chk.stat('input:' + f[1])
                chk.stat('runner:' + f[2])
                for o in f[3]:
                    chk.stat('opt:' + o)
                if len(chk.samples) < 4:
                    chk.sample({'mode': f[1], 'options': f[3]})
    coq_part(chk)


def coq_part(chk):
    """Correspondence of Impl.Cli with the tool (present once coq/Impl/Cli.v exists)."""
    try:
        from harness import c20_model
    except ImportError:
        chk.notes.append('Impl.Cli correspondence not built yet')
        return
    c20_model.run(chk)


def replay(obj):
    common.use_repo()
    case = obj['case']
    print(json.dumps(case, indent=1, default=str)[:3000])
    return 0
