"""C07 — the parser accepts exactly the documented language and fails cleanly.

proof:          coq/Properties/C07.v  (token level: parser <-> Spec.Grammar, fuel sufficiency,
                only Ok/DecodeErr for ALL token lists and ALL strings, error position = first
                non-viable token / end of last token; parser == independent pushdown recogniser)
correspondence: extracted Impl.Parse (parse, iterparse_str, parse_triples on the STRING) vs
                penman.parse / list(penman.iterparse) / penman.parse_triples: tree, metadata,
                DecodeError line and column
oracle:         (a) every call ends in a result or penman.DecodeError within the time limit;
                (b) the extracted recogniser of Spec.Grammar (proved equivalent to the grammar and to
                the parser model) run on the implementation's OWN token stream (penman._lexer.lex):
                accept/reject, tree, error position, for parse and for iterparse;
                (c) for parse_triples an independent table-driven automaton over token classes
                (written here, different in style from _parse_triples): accept/reject, triples,
                error position;
                (d) nesting depths 1..200 parse without RecursionError (CPython's stack is not
                in the Coq model).
"""
import itertools

from harness import common, gen
from harness.common import e_str, d_str, d_opt, timed, Timeout

THEOREMS = [
    'C07_parse_sound', 'C07_parse_complete', 'C07_grammar_deterministic', 'C07_example_derivable',
    'C07_clean_tokens', 'C07_clean', 'C07_clean_iterparse', 'C07_clean_iterparse_lines', 'C07_clean_triples',
    'C07_error_position', 'C07_tree_error_position', 'C07_viable_prefix_closed', 'C07_example_error_position',
    'C07_recognise_agrees', 'C07_recognise_agrees_accept', 'C07_recognise_tree_agrees',
    'C07_recognise_iterparse_agrees', 'C07_recognise_correct', 'C07_recognise_fail_viable',
    'C07_triples_missing_comma_rejected',
]

ALPHABET = ['(', ')', '/', ':', '~', '"', '\\', '#', ',', '^', 'a', '1', ' ', '\n', '-', '.']
TY = {'COMMENT': 0, 'STRING': 1, 'LPAREN': 2, 'RPAREN': 3, 'SLASH': 4, 'ROLE': 5, 'SYMBOL': 6,
      'ALIGNMENT': 7, 'UNEXPECTED': 8}
# fixed lexemes for token-TYPE sequences (rendered with single spaces; a comment ends its line)
LEXEME = {'COMMENT': '# ::k v\n', 'STRING': '"s t"', 'LPAREN': '(', 'RPAREN': ')', 'SLASH': '/',
          'ROLE': ':r', 'SYMBOL': 'a', 'ALIGNMENT': '~e.1', 'UNEXPECTED': '\\'}
GRAMMAR_TYPES = ['STRING', 'LPAREN', 'RPAREN', 'SLASH', 'ROLE', 'SYMBOL', 'ALIGNMENT']
ALL_TYPES = ['COMMENT'] + GRAMMAR_TYPES + ['UNEXPECTED']
# token classes of the triple conjunction, by lexeme
TRIPLE_LEXEMES = ['r', 'a,', 'a,b', ',', ',b', '^', '^r', '"s, t"', '(', ')', '#c\n', '~']


# --------------------------------------------------------------------------
# implementation side (runs in worker processes)

def canon_node(n):
    var, bs = n
    return [var, [[r, canon_node(t) if isinstance(t, tuple) else t] for r, t in bs]]


_HANGS = [0]     # per worker process: once a few inputs hang, later ones get a short budget


def _budget(seconds):
    return seconds if _HANGS[0] < 3 else 0.3


def _call(fn, *args, seconds=5):
    import penman
    seconds = _budget(seconds)
    try:
        return ('ok', timed(fn, *args, seconds=seconds))
    except penman.DecodeError as e:
        return ('err', e.lineno, e.offset)
    except Timeout:           # common.timed budgets CPU time, so machine load cannot fake a hang
        _HANGS[0] += 1
        return ('exc', 'Timeout')
    except RecursionError:
        return ('exc', 'RecursionError')
    except BaseException as e:           # noqa: any other exception is what the property forbids
        return ('exc', type(e).__name__)


def _iterparse(s):
    import penman
    out = []
    try:
        for t in penman.iterparse(s):
            out.append([canon_node(t.node), dict(t.metadata)])
        return ('ok', out)
    except penman.DecodeError as e:
        return ('err', out, e.lineno, e.offset)


def _tokens(s, pattern):
    from penman._lexer import lex
    it = lex(s, pattern=pattern)
    out = []
    while it:
        t = it.next()
        out.append((t.type, t.text, t.lineno, t.offset))
    return out


def observe(s):
    """Everything the check needs about one input, from the implementation only."""
    import penman
    from penman._lexer import PENMAN_RE, TRIPLE_RE
    p = _call(penman.parse, s)
    if p[0] == 'ok':
        p = ('ok', canon_node(p[1].node), dict(p[1].metadata))
    try:
        ip = timed(_iterparse, s, seconds=_budget(5))
    except Timeout:
        _HANGS[0] += 1
        ip = ('exc', 'Timeout')
    except RecursionError:
        ip = ('exc', 'RecursionError')
    except BaseException as e:           # noqa
        ip = ('exc', type(e).__name__)
    tr = _call(penman.parse_triples, s)
    if tr[0] == 'ok':
        tr = ('ok', [list(t) for t in tr[1]])
    try:
        toks = timed(_tokens, s, PENMAN_RE, seconds=_budget(5))
        ttoks = timed(_tokens, s, TRIPLE_RE, seconds=_budget(5))
    except BaseException as e:           # noqa  (the lexer is C08's business; report, do not crash)
        toks, ttoks = None, None
    return (s, p, ip, tr, toks, ttoks, triple_automaton(ttoks) if ttoks is not None else None)


# --------------------------------------------------------------------------
# independent oracle for the triple conjunction: an explicit automaton over token classes
#
#   conj   := triple ( CARET triple | <caret glued to the next role> triple )*   then anything not starting with '^'
#   triple := SYMBOL '(' first ')'
#   first  := SYM with text after its first comma            -> target glued          "a,b"  ",b"
#           | SYM ending in its first comma  (SYM|STRING)?   -> target follows        "a," b
#           | SYM without comma ( ',' (SYM|STRING)? | SYM starting with ',' )?        a , b   a ,b   a
#
# States: 0 role, 1 '(', 2 first, 3 optional target then ')', 4 after a comma-less first,
#         5 ')', 6 after ')'.

def triple_automaton(toks):
    """-> ('ok', triples) | ('err', lineno, offset); toks = [(type, text, lineno, offset)]."""
    state, i, triples = 0, 0, []
    strip = False
    role = src = tgt = None
    n = len(toks)
    while True:
        if i >= n:
            if state == 6:
                return ('ok', triples)
            if n == 0:
                return ('err', 0, 0)
            ty, text, ln, off = toks[-1]
            return ('err', ln, off + len(text))
        ty, text, ln, off = toks[i]
        sym = ty == 'SYMBOL'
        bad = ('err', ln, off)
        if state == 0:
            if not sym:
                return bad
            role = text[1:] if (strip and text.startswith('^')) else text
            if not role.startswith(':'):
                role = ':' + role
            state = 1
        elif state == 1:
            if ty != 'LPAREN':
                return bad
            state = 2
        elif state == 2:
            if not sym:
                return bad
            k = text.find(',')
            tgt = None
            if k < 0:
                src, state = text, 4
            elif k == len(text) - 1:
                src, state = text[:k], 3
            else:
                src, tgt, state = text[:k], text[k + 1:], 5
        elif state == 3:
            if sym or ty == 'STRING':
                tgt, state = text, 5
            else:
                state = 5
                continue
        elif state == 4:
            if sym and text == ',':
                state = 3
            elif sym and text.startswith(','):
                tgt, state = text[1:], 5
            elif sym:
                return bad            # role(a b): the comma is missing
            else:
                state = 5
                continue
        elif state == 5:
            if ty != 'RPAREN':
                return bad
            triples.append([src, role, tgt])
            state = 6
        elif state == 6:
            if sym and text == '^':
                strip, state = False, 0
            elif sym and text.startswith('^'):
                strip, state = True, 0
                continue
            else:
                return ('ok', triples)
        i += 1


# --------------------------------------------------------------------------
# generators

def strings_upto(n):
    for k in range(n + 1):
        for tup in itertools.product(ALPHABET, repeat=k):
            yield ''.join(tup)


def render(types):
    return ' '.join(LEXEME[t] for t in types)


def type_sequences(tier):
    """All token-type sequences up to total length 6 (quick) / 8 (thorough); sequences longer than 3
    start with LPAREN (anything else fails at the first token, covered by the short ones)."""
    for k in range(0, 4):
        for tup in itertools.product(ALL_TYPES, repeat=k):
            yield tup
    full = 5 if tier == 'quick' else 6            # tail over all nine types
    for k in range(3, full + 1):
        for tup in itertools.product(ALL_TYPES, repeat=k):
            yield ('LPAREN',) + tup
    if tier != 'quick':                            # total length 8 over the seven grammar types
        for tup in itertools.product(GRAMMAR_TYPES, repeat=7):
            yield ('LPAREN',) + tup
    # two graphs / comment placement
    for tup in itertools.product(['COMMENT', 'LPAREN', 'RPAREN', 'SYMBOL'], repeat=6):
        yield tup


def triple_sequences(tier):
    n = 4 if tier == 'quick' else 5
    for k in range(n + 1):
        for tup in itertools.product(TRIPLE_LEXEMES, repeat=k):
            yield ' '.join(tup)
    # well-formed heads followed by every short tail
    heads = ['r ( a , b )', 'r ( a, b )', 'r ( a ,b )', 'r ( a,b )', 'r ( a )', 'r ( a , )', 'r ( a, "s, t" )']
    for h in heads:
        for k in range(1, 4 if tier == 'quick' else 5):
            for tup in itertools.product(TRIPLE_LEXEMES, repeat=k):
                yield h + ' ' + ' '.join(tup)


def nested(depth, kind=0):
    if kind == 0:      # the shape pinned by the test-suite
        return (''.join(f'(a{i} / A :ARG0 ' for i in range(depth - 1)) + f'(a{depth} / A)' + ')' * (depth - 1))
    if kind == 1:      # bare nodes
        return '(a :r ' * (depth - 1) + '(b)' + ')' * (depth - 1)
    if kind == 2:      # unclosed
        return '(a :r ' * depth
    return '(a :r ' * (depth - 1) + '(b' + ')' * depth + ' )'     # one paren too many: second graph fails


def random_triples_text(rng):
    syms = ['a', 'b', 'x1', 'bark-01', '-', '1', '0.5', 'é', 'a~1', '^x', 'a:b']
    strs = ['"s"', '"a b"', '"(x)"', '"a, b"', '"^"', '"a\\"b"', '""']
    parts = []
    for _ in range(rng.randint(1, 6)):
        role = rng.choice(['instance', 'ARG0', ':ARG1', 'op1', 'mod', ':', 'r,s', '^r', '^e', 'r', 'r'])
        src = rng.choice(syms)
        tgt = rng.choice(syms + strs + [''])
        comma = rng.choice([',', ', ', ' ,', ' , ', ' ', ',', ', '])
        parts.append(f'{role}({src}{comma}{tgt})')
    seps = [' ^ ', ' ^\n', '^', ' ^', '^ ', ' ', '\n^\n']
    text = parts[0]
    for p in parts[1:]:
        text += rng.choice(seps) + p
    if rng.random() < .3:
        i = rng.randint(0, len(text))
        text = text[:i] + rng.choice(ALPHABET) + text[i + rng.choice([0, 1]):]
    return text


def random_inputs(rng, n):
    for _ in range(n):
        r = rng.random()
        if r < .55:
            yield 'random-penman', gen.random_penman_text(rng, p_bad=0.35)
        elif r < .65:     # several graphs for iterparse
            yield 'random-multi', rng.choice(['\n', ' ', '\n\n', '']).join(
                gen.random_penman_text(rng, maxdepth=2, p_bad=0.15) for _ in range(rng.randint(2, 4)))
        elif r < .85:
            yield 'random-triples', random_triples_text(rng)
        else:
            yield 'random-string', gen.random_string(rng, maxlen=30)


def special_inputs():
    yield 'wide', '(a / b' + ''.join(f' :op{i} x{i}' for i in range(3000)) + ')'
    yield 'wide-missing-targets', '(a' + ' :r' * 3000 + ')'
    yield 'many-graphs', '\n'.join(f'# ::id {i}\n(a{i} / b :r (c / d))' for i in range(800))
    yield 'many-graphs-then-error', '\n'.join(f'(a{i} / b)' for i in range(500)) + '\n(a / / )'
    yield 'unicode', '(é / ü~1 :rôle "日本語 ☃" :r2 \U0001f600 :r3 x\xa0y :r4 　z)'
    yield 'unicode-unexpected', '(a / b   :r c)'
    yield 'nbsp-symbol', '(a\xa0/ b)'
    yield 'crlf', '# ::id 1\r\n(a / b\r\n :r c)\r(d / e)'
    yield 'long-triples', ' ^\n'.join(f'r{i}(a{i}, "s {i}, (x)")' for i in range(2000))
    yield 'long-triples-error', ' ^ '.join(f'r{i}(a{i}, b)' for i in range(1000)) + ' ^ r(a b)'
    yield 'long-string-token', '(a / "' + 'x y ' * 5000 + '")'
    yield 'unterminated-string', '(a :op "' + 'x' * 1000
    yield 'issue-143-a', '(a :op ")'
    yield 'issue-143-b', '(a :op1 " :op2 "foo")'
    yield 'issue-143-c', '(a :" foo)'


# --------------------------------------------------------------------------

def wire_tokens(toks):
    return [[TY[ty], e_str(text), ln, off] for ty, text, ln, off in toks]


def d_tree(v):
    node, meta = common.d_tree(v)
    return canon_node(node), meta


def d_outcome(v, f):
    if v[0] == 0:
        return ('ok', f(v[1]))
    if v[0] == 1:
        return ('err', v[1], v[2])
    return ('exc', 'model-outcome-%d' % v[0])


class Collector:
    """What a worker reports back (same interface as common.Check for the calls used here)."""
    def __init__(self):
        self.keys, self.trivial, self.stats, self.failures, self.mismatches, self.samples = [], 0, {}, [], [], []
        self.corr_cases = 0

    def count(self, key, nontrivial=True):
        if nontrivial:
            self.keys.append(key)
        else:
            self.trivial += 1

    def stat(self, k, n=1):
        self.stats[k] = self.stats.get(k, 0) + n

    def fail(self, key, what, case):
        if len(self.failures) < 50:
            self.failures.append((key, what, case))
        self.stat('FAIL:' + key)

    def mismatch(self, what, case, impl, model):
        if len(self.mismatches) < 50:
            self.mismatches.append((what, case, impl, model))
        self.stat('MISMATCH')

    def sample(self, case):
        self.samples.append(case)


_EXE = None


def drive(requests):
    """Run the extracted driver from inside a worker process (one subprocess, no nested pool)."""
    lines = [common.sx_dumps(r) for r in requests]
    if not lines:
        return []
    return [common.sx_loads(o) for o in common._drv_worker((_EXE, lines))]


def check_batch(chk, items, size=4000):
    """Fan a batch out to the worker pool and merge what comes back."""
    global _EXE
    _EXE = str(common.build_driver('parse'))
    chunks = [items[i:i + size] for i in range(0, len(items), size)]
    for c in common.pmap(process_chunk, chunks, chunk=1):
        chk.evaluations += len(c.keys) + c.trivial
        chk.distinct.update(c.keys)
        chk.corr_cases += c.corr_cases
        for k, v in c.stats.items():
            chk.stat(k, v)
        for f in c.failures:
            chk.fail(*f)
        for m in c.mismatches:
            chk.mismatch(*m)
        for x in c.samples:
            chk.sample(x)


def process_chunk(items):
    """Worker: observe, run the extracted model/recogniser, compare.  items: list of (kind, text)."""
    chk = Collector()
    obs = [observe(s) for _, s in items]
    requests = []
    for (kind, s), o in zip(items, obs):
        _, p, ip, tr, toks, ttoks, auto = o
        es = e_str(s)
        requests += [[6, es], [7, es], [8, es]]
        if toks is not None:
            wt = wire_tokens(toks)
            requests += [[1, wt], [2, wt]]
    results = drive(requests)
    chk.corr_cases += 3 * len(items)
    k = 0
    for (kind, s), o in zip(items, obs):
        _, p, ip, tr, toks, ttoks, auto = o
        case = {'text': s, 'kind': kind}
        nontrivial = bool(s.strip())
        chk.count(s, nontrivial=nontrivial)
        chk.stat(kind)
        # ---- (a) clean failure --------------------------------------------------------
        for name, r in (('parse', p), ('iterparse', ip), ('parse_triples', tr)):
            if r[0] == 'exc':
                chk.fail('unclean', f'penman.{name}({s[:60]!r}) ended with {r[1]} instead of a result or DecodeError',
                         dict(case, call=name))
        chk.stat('parse:' + p[0])
        chk.stat('triples:' + tr[0])
        # ---- correspondence with the extracted parser model ----------------------------
        m_parse = d_outcome(results[k], d_tree)
        m_iter_trees = [list(d_tree(t)) for t in results[k + 1][0]]
        m_iter_end = d_outcome(results[k + 1][1], lambda v: None)
        m_tr = d_outcome(results[k + 2], lambda v: [[d_str(a), d_str(b), d_opt(d_str, c)] for a, b, c in v])
        k += 3
        ip_exc = ip[0] == 'exc'
        if p[0] == 'ok':
            if m_parse != ('ok', (p[1], p[2])):
                chk.mismatch('parse result differs', case, p, m_parse)
        elif p[0] == 'err' and m_parse != p:
            chk.mismatch('parse error differs', case, p, m_parse)
        if not ip_exc:
            if ip[1] != m_iter_trees:
                chk.mismatch('iterparse trees differ', case, ip[1], m_iter_trees)
            want_end = ('ok', None) if ip[0] == 'ok' else ('err', ip[2], ip[3])
            if m_iter_end != want_end:
                chk.mismatch('iterparse end differs', case, want_end, m_iter_end)
        if tr[0] != 'exc' and m_tr != tr:
            chk.mismatch('parse_triples differs', case, tr, m_tr)
        # ---- (b) oracle: the independent recogniser on the implementation's tokens -------
        if toks is None:
            chk.fail('unclean', f'penman._lexer.lex({s[:60]!r}) raised', dict(case, call='lex'))
            continue
        r1, r2 = results[k], results[k + 1]
        k += 2
        if r1[0] == 0:      # accepted
            want = ('ok', canon_node(common.d_node(r1[1])))
        else:
            want = ('err', r1[1][0], r1[1][1])
        if p[0] != 'exc':
            if p[0] != want[0]:
                chk.fail('accept', f'penman.parse({s[:60]!r}) {"accepts" if p[0] == "ok" else "rejects"} but the '
                         f'documented grammar {"accepts" if want[0] == "ok" else "rejects"} its token sequence', case)
            elif p[0] == 'ok' and p[1] != want[1]:
                chk.fail('tree', f'penman.parse({s[:60]!r}) returns a tree different from the grammar\'s', case)
            elif p[0] == 'err' and p[1:] != want[1:]:
                chk.fail('position', f'penman.parse({s[:60]!r}) reports line {p[1]} column {p[2]}; the first token at which '
                         f'the grammar fails (or the end of input) is line {want[1]} column {want[2]}', case)
        if not ip_exc:
            nodes = [canon_node(common.d_node(n)) for n in r2[0]]
            got_nodes = [t[0] for t in ip[1]]
            if (ip[0] == 'ok') != (r2[1] == []):
                chk.fail('accept', f'iterparse({s[:60]!r}) {"succeeds" if ip[0] == "ok" else "raises"} but the grammar '
                         f'recogniser {"fails" if r2[1] else "succeeds"} on the token sequence', dict(case, call='iterparse'))
            elif got_nodes != nodes:
                chk.fail('tree', f'iterparse({s[:60]!r}) yields trees different from the grammar\'s', dict(case, call='iterparse'))
            elif ip[0] == 'err' and [ip[2], ip[3]] != r2[1]:
                chk.fail('position', f'iterparse({s[:60]!r}) reports line {ip[2]} column {ip[3]}, expected {r2[1]}',
                         dict(case, call='iterparse'))
        # ---- (c) oracle for the triple conjunction ----------------------------------------
        if tr[0] != 'exc':
            if tr[0] != auto[0]:
                chk.fail('accept', f'penman.parse_triples({s[:60]!r}) {"accepts" if tr[0] == "ok" else "rejects"} but the '
                         f'conjunction grammar {"accepts" if auto[0] == "ok" else "rejects"}', dict(case, call='parse_triples'))
            elif tr[0] == 'ok' and tr[1] != auto[1]:
                chk.fail('tree', f'penman.parse_triples({s[:60]!r}) returns {tr[1]!r}, the conjunction grammar gives {auto[1]!r}',
                         dict(case, call='parse_triples'))
            elif tr[0] == 'err' and tuple(tr[1:]) != tuple(auto[1:]):
                chk.fail('position', f'penman.parse_triples({s[:60]!r}) reports {tr[1:]}, expected {auto[1:]}',
                         dict(case, call='parse_triples'))
        if len(chk.samples) < 2 and kind.startswith('random') and p[0] == 'ok' and len(s) > 40:
            chk.sample({'text': s, 'parse': p[0], 'parse_triples': tr[0]})
    return chk


def batched(it, n):
    buf = []
    for x in it:
        buf.append(x)
        if len(buf) >= n:
            yield buf
            buf = []
    if buf:
        yield buf


def run(chk):
    quick = chk.tier == 'quick'
    nmax = 4 if quick else 5
    chk.rule = (f'(i) ALL strings of length <= {nmax} over the {len(ALPHABET)}-symbol alphabet {"".join(ALPHABET)!r}; '
                '(ii) all token-type sequences (nine types, fixed lexemes, single spaces) up to length '
                f'{6 if quick else 8} (longer than 3: starting with LPAREN; length 8: the seven grammar types) and all '
                f'sequences of the twelve triple-conjunction lexemes up to length {4 if quick else 5} (and every tail of length <= {3 if quick else 4} after seven well-formed triples); (iii) random '
                'grammar-directed PENMAN and triple texts with one-character noise, multi-graph texts, random strings, '
                'long / Unicode inputs and nesting depths 1..200.  A case is one distinct input string; it is '
                'non-trivial when it contains a non-blank character.  Each case runs parse, iterparse and parse_triples.')
    chk.require_theorems('Properties.C07', THEOREMS)
    from harness import extra_theorems
    chk.require_theorems('Properties.C07b', extra_theorems.THEOREMS_C07)
    common.use_repo()
    chk.exhaustive = True
    chk.assumptions += [
        'token level: the theorems quantify over token lists; that the lexer produces the documented tokens is C08',
        'the 200-level nesting bound is a property of CPython\'s stack, not of the model: exercised (depths 1..200), not proved',
        'error position of parse_triples: compared with the extracted model and with the automaton in harness/c07.py, not a Coq theorem',
    ]
    # (i) exhaustive strings
    for batch in batched((('exhaustive-string', s) for s in strings_upto(nmax)), 128000):
        check_batch(chk, batch)
    # (ii) token-type sequences, triple lexeme sequences
    for batch in batched((('token-sequence', render(t)) for t in type_sequences(chk.tier)), 128000):
        check_batch(chk, batch)
    for batch in batched((('triple-sequence', s) for s in triple_sequences(chk.tier)), 128000):
        check_batch(chk, batch)
    # (iii) random + special + nesting
    n = 30000 if quick else 400000
    for batch in batched(random_inputs(chk.rng, n), 128000):
        check_batch(chk, batch)
    special = list(special_inputs())
    for d in range(1, 201):
        for kind in range(4):
            special.append((f'nested-{kind}', nested(d, kind)))
    check_batch(chk, special, size=60)
    # (d) the recursion bound, said explicitly
    import penman
    for d in range(1, 201):
        try:
            t = timed(penman.parse, nested(d, 0), seconds=10)
            depth = 0
            node = t.node
            while True:
                depth += 1
                nxt = [tg for _, tg in node[1] if isinstance(tg, tuple)]
                if not nxt:
                    break
                node = nxt[0]
            if depth != d:
                chk.fail('tree', f'nesting depth {d} parsed to depth {depth}', {'text': nested(d, 0), 'kind': 'nested-0'})
        except RecursionError:
            chk.fail('unclean', f'RecursionError at nesting depth {d} (<= 200)', {'text': nested(d, 0), 'kind': 'nested-0'})
    chk.notes.append('nesting depths 1..200 parsed on the implementation without RecursionError (4 shapes each, '
                     'incl. unclosed and over-closed); the Coq model has no stack bound')
    entrypoint_stream(chk)


def entrypoint_stream(chk):
    """All entry points of one operation (module functions, PENMANCodec methods, stream variants) must accept the same
    language and report the same positions; and line ends: LF, CRLF and a LONE CR, also in the stream variants."""
    from harness import entrypoints
    rng = chk.rng
    n = 3000 if chk.tier == 'quick' else 30000
    texts = []
    for i in range(n):
        s = gen.random_penman_text(rng, p_bad=0.4) if i % 3 else random_triples_text(rng)
        r = rng.random()
        if r < .25:
            s = s.replace('\n', '\r')              # lone CR line ends
        elif r < .4:
            s = s.replace('\n', '\r\n')
        if rng.random() < .3:                      # leading blanks / blank lines / a non-ASCII blank in front
            s = rng.choice(['\n\n  ', ' ', '\t\n', '\xa0', '\r', '\n']) + s
        if rng.random() < .15:
            s = s + rng.choice([' ', '\n', '\r\n', ' \xa0'])
        texts.append(s)
    for s in texts:
        chk.count(('entry', s))
        bad = entrypoints.disagreement(entrypoints.parse_variants(s)) or entrypoints.disagreement(entrypoints.triples_variants(s))
        if bad:
            chk.fail('entry-point', 'entry points disagree: ' + bad, {'kind': 'entry-points', 'text': s})
    # the same texts through the model-vs-implementation comparison (they contain CR / CRLF / leading blanks)
    check_batch(chk, [('entry-points', s) for s in texts], size=400)


def replay(obj):
    """Re-run the failing case of a replay file on the implementation and show the behaviour."""
    common.use_repo()
    case = obj.get('case') or {}
    s = case.get('text', '')
    print('replay input:', repr(s[:300]), '(%d chars)' % len(s))
    _, p, ip, tr, toks, ttoks, auto = observe(s)
    print('penman.parse         ->', str(p)[:400])
    print('list(iterparse)      ->', str(ip)[:400])
    print('penman.parse_triples ->', str(tr)[:400])
    print('tokens (PENMAN_RE)   ->', str(toks)[:400])
    if toks is not None:
        wt = wire_tokens(toks)
        r1, r2 = common.run_driver('parse', [[1, wt], [2, wt]])
        print('grammar recogniser (Spec.Grammar, extracted) on these tokens ->',
              'accept' if r1[0] == 0 else f'reject at line/col {r1[1]}')
        print('recogniser, iterated ->', len(r2[0]), 'trees, error', r2[1] or None)
    print('triple automaton     ->', str(auto)[:400])
    return 0
