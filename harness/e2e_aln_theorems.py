"""Theorems stated in coq/Properties/E2E_aln.v (module 'Properties.E2E_aln'):
C03 / C05 / C06 for graphs whose epidata also holds alignment markers.
Use:  chk.require_theorems('Properties.E2E_aln', THEOREMS_Cxx)
"""
MODULE = 'Properties.E2E_aln'

THEOREMS_C03 = [
    'E2E_C03x_alignment_print_parse',
    'E2E_C03x_roundtrip',
    'E2E_C03x_decode_encode',
    'E2E_C03x_no_loss_off_edges',
    'E2E_C03x_alignments_read',
]

THEOREMS_C06 = [
    'C06x_placement_with_markers',
    'C06x_epigraph_text',
    'C06x_strip_is_the_reader_cut',
    'C06x_places_each_triple_once',
    'C06x_content_independent_of_markers',
    'C06x_markers_never_change_content',
    'C06x_layout_only_is_strippable',
    'C06x_lexable_is_strippable',
]

THEOREMS_C05 = [
    'C05x_connected_from_any_variable',
    'C05x_reconfigure_content',
    'C05x_retop_content',
]
