"""MANIFEST.setup_cmd: build the Coq development and every extracted driver."""
import sys
from harness import common

def main():
    st = common.build_coq()
    bad = [f for f, ok in st.items() if not f.startswith('_') and not ok]
    print(f'coq build: {len(st) - 2 - len(bad)} files ok, {len(bad)} failed, {st["_wall"]:.0f}s')
    if bad:
        print('FAILED:', bad)
        print(st['_log'][-3000:])
    # a proof file that does not compile is reported by the check of the property it serves
    # (broken obligation); setup itself fails only when the executable model cannot be built
    rc = 1 if any(f.split('/')[0] in ('Base', 'Impl', 'Extract') for f in bad) else 0
    for d in sorted(p.name for p in common.OCAML.iterdir() if p.is_dir()):
        try:
            print('driver', d, common.build_driver(d))
        except common.BuildError as e:
            print('driver', d, 'FAILED', str(e)[-1500:])
            if d != 'cert':        # the certificate evaluator depends on proof files (ExtractCert/): reported by C20 itself
                rc = 1
    hits = common.scan_forbidden()
    if hits:
        print('forbidden constructs:', hits)
        rc = 1
    return rc

if __name__ == '__main__':
    sys.exit(main())
