"""C20 -- correspondence of the Coq model Impl.Cli.run (extracted, group `cli`) with the real tool.

The same generated streams / option sets as the oracle in harness/c20.py, restricted to what the model
covers: no `random` sort key, models default / --amr (live table) / --noop / --model file (mini AMR),
variable formats made of literal text and {prefix} {i} {j}.  Input through stdin or 1-3 files.  The tool
runs in-process (penman.__main__.main with patched argv / stdin / stdout), one case in 16 through a real
`python -m penman` subprocess.  Compared exactly: the stdout text and the exit status; when the model
says the run raises, the tool must end with a non-zero status (which exception is not compared).
"""
import json
import os
import random
import tempfile

from harness import common, models
from harness import c20 as oracle

UKEY = {'canonical': 0, 'alphanumeric': 1, 'inverted-last': 2, 'attributes-first': 3, 'original': 4}
RECONFIGURE = ['original', 'canonical', 'canonical,original', 'original,canonical']
REARRANGE = oracle.REARRANGE + ['alphanumeric,inverted-last', 'attributes-first,attributes-first,canonical',
                                'inverted-last,attributes-first', 'alphanumeric,canonical']


def table_of(opts):
    if opts.get('amr'):
        return models.amr_table()
    if opts.get('noop'):
        return models.NOOP
    if opts.get('model'):
        return models.MINI_AMR
    return models.DEFAULT


def e_indent(ind):
    """_indent(): absent -> -1; no/none/false -> None; else int"""
    if ind is None:
        return [-1]
    if ind.lower() in ('no', 'none', 'false'):
        return []
    return [int(ind)]


def overrides(texts):
    chars = sorted({c for t in texts for c in t if ord(c) > 0xFF})
    return [[ord(c), 1 if c.isalpha() else 0, common.e_str(c.lower())] for c in chars]


def wire_opts(opts, wire_model, texts):
    keys = lambda v: common.e_opt(lambda s: [UKEY[k] for k in s.split(',')], v)
    return [wire_model,
            [1 if opts.get(f) else 0 for f in oracle.NORM_FLAGS],
            keys(opts.get('reconfigure')), keys(opts.get('rearrange')),
            common.e_opt(common.e_str, opts.get('make_variables')),
            e_indent(opts.get('indent')),
            1 if opts.get('compact') else 0, 1 if opts.get('triples') else 0, 1 if opts.get('check') else 0,
            overrides(texts)]


def gen_case(rng):
    opts = oracle.gen_opts(rng)
    if 'reconfigure' in opts:
        opts['reconfigure'] = rng.choice(RECONFIGURE)
    if 'rearrange' in opts:
        opts['rearrange'] = rng.choice(REARRANGE)
    if rng.random() < .25:
        opts['check'] = True             # more weight on the exit status than the oracle's 15 %
    if rng.random() < .15:
        opts['triples'] = True
    mode = 'files' if rng.random() < .5 else 'stdin'
    mname = 'amr' if opts.get('amr') else 'mini' if opts.get('model') else 'default'
    n = 1 if mode == 'stdin' else rng.randint(1, 3)
    streams = [oracle.gen_stream(rng, mname) for _ in range(n)]
    kind = 'wf'
    r = rng.random()
    if r < .03:                          # failure path: a truncated stream (DecodeError at the end)
        i = rng.randrange(n)
        cut = streams[i].rstrip()
        streams[i] = cut[:max(1, len(cut) - rng.randint(1, 3))]
        kind = 'truncated'
    elif r < .06:                        # an input without any graph
        streams[rng.randrange(n)] = rng.choice(['', '\n', '# ::id 1\n', 'junk'])
        kind = 'empty-stream'
    return opts, mode, streams, kind


def one_case(args):
    idx, seed = args
    rng = random.Random(f'C20M:{seed}:{idx}')
    common.use_repo()
    opts, mode, streams, kind = gen_case(rng)
    tmpdir = tempfile.mkdtemp(prefix='c20m_')
    try:
        files = []
        if mode == 'files':
            for i, s in enumerate(streams):
                p = os.path.join(tmpdir, f'in{i}.txt')
                with open(p, 'w', encoding='utf-8', newline='') as f:
                    f.write(s)
                files.append(p)
        mpath = None
        if opts.get('model'):
            tbl = models.MINI_AMR
            mpath = os.path.join(tmpdir, 'model.json')
            with open(mpath, 'w') as f:
                json.dump({'roles': {r: {} for r in tbl['roles']}, 'normalizations': tbl['norms'],
                           'reifications': [list(r) for r in tbl['reifs']]}, f)
        argv = oracle.argv_of(opts, mpath)
        stdin_text = streams[0] if mode == 'stdin' else None
        use_sub = idx % 16 == 0
        try:
            if use_sub:
                out, code, _ = oracle.run_cli_subprocess(argv, stdin_text, files)
            else:
                out, code, _ = oracle.run_cli_inprocess(argv, stdin_text, files)
            impl = ('exit', out, code)
        except common.Timeout:
            impl = ('hang', '', None)
        except Exception as e:           # an uncaught exception ends the interpreter with status 1
            impl = ('raised', type(e).__name__, 1)
    finally:
        for f in os.listdir(tmpdir):
            os.unlink(os.path.join(tmpdir, f))
        os.rmdir(tmpdir)
    return {'opts': opts, 'mode': mode, 'streams': streams, 'kind': kind, 'impl': impl, 'sub': use_sub}


def cert_case(args):
    """One case of the reify option family: the tool twice (second pass on the output of the first)."""
    idx, seed = args
    rng = random.Random(f'C20C:{seed}:{idx}')
    common.use_repo()
    opts = {}
    r = rng.random()
    if r < .55:
        opts['amr'] = True
    elif r < .7:
        opts['model'] = True
    elif r < .75:
        opts['noop'] = True
    pick = rng.choice([('--reify-edges',), ('--reify-attributes',), ('--reify-edges', '--reify-attributes'), ('--dereify-edges',),
                       ('--dereify-edges', '--reify-attributes'), ('--reify-edges', '--dereify-edges')])
    for f in pick:
        opts[f] = True
    if rng.random() < .4:
        opts['--canonicalize-roles'] = True
    elif rng.random() < .6:
        # the general certificate: the same with --rearrange and / or --make-variables (no --canonicalize-roles)
        if rng.random() < .7:
            opts['rearrange'] = rng.choice(REARRANGE)
        if rng.random() < .6:
            opts['make_variables'] = rng.choice(oracle.FORMATS)
    opts['indent'] = rng.choice(oracle.INDENTS)
    if rng.random() < .3:
        opts['compact'] = True
    mname = 'amr' if opts.get('amr') else 'mini' if opts.get('model') else 'default'
    stream = oracle.gen_stream(rng, mname, canonicalize=bool(opts.get('--canonicalize-roles')))
    if opts.get('--dereify-edges') and not opts.get('--reify-edges') and rng.random() < .7:
        # give --dereify-edges something to collapse: the input is the reified form of a generated stream
        # (reified under the AMR table, whose rows the mini table shares; under the default model nothing collapses)
        try:
            r0, c0, _ = oracle.run_cli_inprocess(['--amr', '--reify-edges'], stream, [])
            if c0 == 0 and r0.strip():
                stream = r0
        except Exception:      # noqa: keep the generated stream
            pass
    tmpdir = tempfile.mkdtemp(prefix='c20c_')
    try:
        mpath = None
        if opts.get('model'):
            tbl = models.MINI_AMR
            mpath = os.path.join(tmpdir, 'model.json')
            with open(mpath, 'w') as f:
                json.dump({'roles': {r: {} for r in tbl['roles']}, 'normalizations': tbl['norms'],
                           'reifications': [list(r) for r in tbl['reifs']]}, f)
        argv = oracle.argv_of(opts, mpath)
        try:
            out1, code1, _ = oracle.run_cli_inprocess(argv, stream, [])
            out2, code2, _ = oracle.run_cli_inprocess(argv, out1, []) if code1 == 0 else (None, None, None)
            impl = ('exit', out1, code1, out2, code2)
            key = None
            if code1 == 0 and (out1, code1) != (out2, code2):
                # the same classification as the oracle in harness/c20.py: the two known findings, else a new failure
                model = oracle.get_model(opts, models.MINI_AMR if opts.get('model') else None)
                key = oracle.classify_non_idempotent(opts, [stream], out1, model)
                if key == 'idempotence' and opts.get('make_variables'):
                    # N11 / C10's proviso: a constant spelled like a new variable name (detected by the reference pipeline)
                    oracle.COLLISION[0] = False
                    try:
                        common.timed(oracle.reference_pipeline, [stream], opts, model, seconds=20)
                    except Exception:      # noqa
                        pass
                    if oracle.COLLISION[0]:
                        key = 'proviso:constant-spelled-like-a-new-variable'
            impl = impl + (key,)
        except common.Timeout:
            impl = ('hang',)
        except Exception as e:           # noqa
            impl = ('raised', type(e).__name__)
    finally:
        for f in os.listdir(tmpdir):
            os.unlink(os.path.join(tmpdir, f))
        os.rmdir(tmpdir)
    return {'opts': opts, 'stream': stream, 'impl': impl}


def certificate_stream(chk):
    """Properties/C20c.v: for --reify-edges / --reify-attributes (+ --canonicalize-roles, formatting) the extracted
    model evaluates the idempotence certificate on the input; where it holds the theorem C20c_certificate_sound
    says the model's second pass reproduces the first, so the TOOL's second pass must too (Impl.Cli = the tool)."""
    n = 500 if chk.tier == 'quick' else 5000
    res = common.pmap(cert_case, [(i, chk.seed) for i in range(n)], chunk=25)
    wires, requests = {}, []
    for r in res:
        o = r['opts']
        mkey = 'amr' if o.get('amr') else 'noop' if o.get('noop') else 'mini' if o.get('model') else 'default'
        if mkey not in wires:
            wires[mkey] = models.wire_model(table_of(o))
        requests.append([2, wire_opts(o, wires[mkey], [r['stream']]), common.e_str(r['stream'])])
    answers = common.run_driver('cert', requests, shard=100)
    for r, a in zip(res, answers):
        chk.corr_cases += 1
        case = {'opts': r['opts'], 'mode': 'stdin', 'streams': [r['stream']]}
        if a != [-3]:
            chk.stat('cert:by-first-certificate' if a[0] else 'cert:by-general-certificate' if a[1] else 'cert:by-none')
            r['both'] = a
            a = 1 if (a[0] or a[1]) else 0
        impl = r['impl']
        if impl[0] != 'exit' or impl[2] != 0:
            chk.stat('cert:first-pass-fails')
            if a == 1:
                chk.mismatch('the certificate holds in the model but the first pass of the tool fails', case, list(impl)[:2], a)
            continue
        same = (impl[1], impl[2]) == (impl[3], impl[4])
        if a == 1:
            chk.stat('cert:certified')
            if not same:
                chk.mismatch('the idempotence certificate (C20c) holds in the model but the second pass of the tool differs',
                             dict(case, first=impl[1], second=impl[3]), [impl[3], impl[4]], [impl[1], impl[2]])
        elif a == 0:
            chk.stat('cert:not-certified-' + ('but-idempotent' if same else 'and-not-idempotent'))
            if not same and impl[5].startswith('proviso:'):
                chk.stat('cert:skipped-' + impl[5])
            elif not same:
                chk.fail(impl[5], 'feeding the output back with the same options changes it (reify option family, not certified)',
                         dict(case, first=impl[1], second=impl[3]))
        else:
            chk.stat('cert:format-outside-model')
    # in-kernel cross-check of the extracted certificate (vm_compute on the same term) on a small sample
    sample = [(r, r['both']) for r in res
              if not r['opts'].get('model') and not r['opts'].get('noop') and 'both' in r and len(r['stream']) < 400
              and not r['opts'].get('rearrange') and not r['opts'].get('make_variables')
              and all(ord(c) < 0x100 for c in r['stream'])][:10]

    def coq_bool(x):
        return 'true' if x else 'false'

    def coq_opts(o):
        ind = e_indent(o.get('indent'))
        return ('(mkOpts %s %s %s %s %s false None None None %s %s false false [])' % (
            'amr_model' if o.get('amr') else 'default_model', coq_bool(o.get('--canonicalize-roles')), coq_bool(o.get('--reify-edges')),
            coq_bool(o.get('--dereify-edges')), coq_bool(o.get('--reify-attributes')),
            '(Some (%d)%%Z)' % ind[0] if ind else 'None', coq_bool(o.get('compact'))))
    if sample:
        exprs = ['(fun s => (idempotence_certificate %s s, general_certificate %s s)) [%s]%%N' % (
            coq_opts(r['opts']), coq_opts(r['opts']), ';'.join(str(ord(c)) for c in r['stream'])) for r, _ in sample]
        outs = common.run_in_kernel('C20c', 'From PM Require Import Spec.Idle Proofs.IdleGen Gen.AmrTable.', exprs)
        for (r, a), k in zip(sample, outs):
            chk.corr_cases += 1
            if k.replace(' ', '') != '(%s,%s)' % ('true' if a[0] else 'false', 'true' if a[1] else 'false'):
                chk.mismatch('the extracted idempotence_certificate differs from its evaluation in the kernel',
                             {'opts': r['opts'], 'streams': [r['stream']]}, a, k)
        chk.stat('cert:in-kernel-cross-checks', len(sample))
    chk.notes.append('idempotence certificate (Properties/C20c.v) evaluated through the extracted model on '
                     f'{len(res)} runs of the reify option family; certified runs must be (and are) byte-idempotent on the tool')


def run(chk):
    certificate_stream(chk)
    n = 1500 if chk.tier == 'quick' else 15000
    res = common.pmap(one_case, [(i, chk.seed) for i in range(n)], chunk=25)
    wires = {}
    requests = []
    for r in res:
        o = r['opts']
        mkey = 'amr' if o.get('amr') else 'noop' if o.get('noop') else 'mini' if o.get('model') else 'default'
        if mkey not in wires:
            wires[mkey] = models.wire_model(table_of(o))
        texts = [common.e_str(s) for s in r['streams']]
        files, stdin = (texts, []) if r['mode'] == 'files' else ([], texts[0])
        requests.append([1, wire_opts(o, wires[mkey], r['streams']), files, stdin])
    answers = common.run_driver('cli', requests, shard=100)
    model_fail = 0
    for r, a in zip(res, answers):
        chk.corr_cases += 1
        case = {'opts': r['opts'], 'mode': r['mode'], 'streams': r['streams']}
        kind, out, code = r['impl']
        chk.stat('corr:' + r['kind'])
        if a == [-3]:
            chk.stat('corr:format-outside-model')
            continue
        if kind == 'hang':
            chk.mismatch('the tool does not terminate', case, 'hang', str(a)[:200])
            continue
        if a[0] == 0:
            m_out, m_code = common.d_str(a[1][0]), a[1][1]
            if kind != 'exit':
                chk.mismatch('the tool raises, Impl.Cli.run returns', case, [kind, out], [m_out, m_code])
            elif out != m_out or code != m_code:
                chk.mismatch('stdout / exit status of the tool differ from Impl.Cli.run', case, [out, code], [m_out, m_code])
        else:
            model_fail += 1
            if a[0] == 8 or (a[0] == 7 and a[1] == 0):
                chk.mismatch('Impl.Cli.run ran out of fuel / left the model', case, [kind, out, code], a)
            elif kind == 'exit' and code == 0:
                chk.mismatch('Impl.Cli.run raises but the tool exits 0', case, [out, code], a)
    chk.stat('corr:model-side-exception', model_fail)
    chk.assumptions.append('Impl.Cli models main() after argparse: options arrive decoded (indent None/int, model as a table, key lists '
                           'without `random`, the variable format parsed by parse_fmt); -q/-v, encodings and file I/O are outside the model; '
                           'on a failing run only "fails" is compared, not which exception')
    chk.notes.append(f'Impl.Cli correspondence: {len(res)} runs of the tool vs the extracted model '
                     f'({sum(1 for r in res if r["sub"])} through a subprocess), {model_fail} ending in an exception on both sides')
