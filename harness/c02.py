"""C02 — decode then encode reproduces the layout that was written.

proof:          coq/Properties/C02.v  (configure (interpret t) = drop_empty_concepts t for
                every wf_layout_tree, every model)
correspondence: extracted configure∘interpret and wf_layout_tree (group 'layout') vs
                penman.layout.configure(layout.interpret(t, m), model=m) and the Python twin of
                wf_layout_tree below, on the same generated trees
oracle:         configure(interpret(t)) == drop_empty_concepts(t) (tree and metadata) and
                encode(decode(s)) == format(drop_empty_concepts(parse(s))) for indent in {-1, None, 2}
"""
import itertools
import re

from harness import common, models, gen
from harness.common import timed, Timeout

THEOREMS = ['C02_configure_interpret', 'C02_wf_interpret_ok', 'C02_interpret_is_entries', 'C02_single_pass',
            'C02_build_reads_back', 'C02_nonvacuous']

ALN_NF = re.compile(r'~([A-Za-z]\.?)?(0|[1-9][0-9]*)(,(0|[1-9][0-9]*))*\Z')
ASCII = re.compile(r'[\x00-\x7f]*\Z')

def sx_dumps_iter(v):
    """Iterative twin of common.sx_dumps: trees 200 levels deep nest ~800 lists, beyond what the
    recursive version (a generator inside str.join per level) survives under CPython 3.12's C-stack guard."""
    out = []
    stack = [v]
    while stack:
        x = stack.pop()
        if isinstance(x, str):
            out.append(x)
        elif isinstance(x, bool):
            out.append('1' if x else '0')
        elif isinstance(x, int):
            out.append(str(x))
        else:
            stack.append(')')
            for y in reversed(list(x)):
                stack.append(y)
            stack.append('(')
    res = ' '.join(out)
    return res.replace('( ', '(').replace(' )', ')')


def deep_safe():
    """Make the shared wire encoder usable for very deep trees (runtime substitution, common.py untouched)."""
    import sys
    sys.setrecursionlimit(max(sys.getrecursionlimit(), 50000))
    if common.sx_dumps is not sx_dumps_iter:
        for probe in ([1, [2, [], [3, 0]], []], [[[[]]]], 5, [True, False]):
            assert sx_dumps_iter(probe) == common.sx_dumps(probe), probe
        common.sx_dumps = sx_dumps_iter


# ------------------------------------------------------------------------------------
# Python twin of Spec/WfLayout.v (cross-checked against the extracted Coq on every case)


def split_role(role):
    if role == '/':
        return ':instance', None
    if '~' in role:
        r, _, a = role.partition('~')
        return r, '~' + a
    return role, None


def split_atom(t):
    if isinstance(t, str) and t and '~' in t:
        if t.startswith('"'):
            p = t.rindex('"') + 1
            if p < len(t):
                return t[:p], t[p:]
            return t, None
        a, _, b = t.partition('~')
        return a, '~' + b
    return t, None


def aln_ok(s):
    return s is None or ALN_NF.match(s) is not None


def wf_layout(root, m, noop, why=None, ignore_aln=False):
    """m: live penman Model (only is_role_inverted is used); noop: the model never de-inverts."""
    def no(msg):
        if why is not None:
            why.append(msg)
        return False
    nodes = []
    stack = [root]
    while stack:                       # iterative: trees can be 200 deep
        n = stack.pop()
        nodes.append(n)
        for _, t in reversed(n[1]):
            if isinstance(t, tuple):
                stack.append(t)
    vs = [n[0] for n in nodes]
    if not all(isinstance(v, str) and v for v in vs):
        return no('var')
    if len(set(vs)) != len(vs):
        return no('dupvar')
    vset = set(vs)
    seen = set()
    for var, bs in nodes:
        mine = []
        hc = False
        for i, (role, tgt) in enumerate(bs):
            if not isinstance(role, str):
                return no('role')
            if role == '/':
                if i != 0:
                    return no('slash-pos')
                if isinstance(tgt, tuple):
                    return no('slash-node')
                if not (tgt is None or isinstance(tgt, str) or (isinstance(tgt, (int, float)) and not tgt)):
                    return no('num')
                a, aln = split_atom(tgt)
                if not ignore_aln and not aln_ok(aln):
                    return no('aln')
                if not (tgt is None or tgt == '') and (a is None or a == ''):
                    return no('empty-concept-with-alignment')
                hc = True
                mine.append((var, ':instance', a))
                continue
            r, raln = split_role(role)
            if not r.startswith(':'):
                return no('colon')
            if r == ':instance':
                return no('instance-role')
            if not ignore_aln and not aln_ok(raln):
                return no('raln')
            inv = m.is_role_inverted(r)
            if isinstance(tgt, tuple):
                tv = tgt[0]
                deinv = inv and not noop
            else:
                if not (tgt is None or isinstance(tgt, str) or (isinstance(tgt, (int, float)) and not tgt)):
                    return no('num')
                a, aln = split_atom(tgt)
                if not ignore_aln and not aln_ok(aln):
                    return no('aln')
                tv = a
                deinv = inv and not noop and (a in vset)
            if deinv:
                r0 = r[:-3]
                if m.is_role_inverted(r0):
                    return no('double-inversion')
                if r0 == ':instance':
                    return no('instance-of')
                if not isinstance(tgt, tuple) and tv == var:
                    return no('inverted-self-loop')
                mine.append((tv, r0, var))
            elif inv and (isinstance(tgt, tuple) or tv in vset):
                mine.append((var, r, tv))          # no-op model: kept as written
            elif inv:
                mine.append((var, r, tv))          # inverted attribute: kept as written
            else:
                mine.append((var, r, tv))
        if not hc:
            mine.insert(0, (var, ':instance', None))
        for t in mine:
            k = (t[0], t[1], common.atom_key(t[2]))
            if k in seen:
                return no('duplicate-triple')
            seen.add(k)
    return True


def drop_empty(n):
    """(a /) -> (a): the only normalisation the property allows (iterative)."""
    root = (n[0], [])
    stack = [(n, root)]
    while stack:
        src, dst = stack.pop()
        for i, (r, t) in enumerate(src[1]):
            if i == 0 and r == '/' and (t is None or t == ''):
                continue
            if isinstance(t, tuple):
                sub = (t[0], [])
                dst[1].append((r, sub))
                stack.append((t, sub))
            else:
                dst[1].append((r, t))
    return root


def norm_aln_text(s):
    """print(parse(suffix)) as the implementation does it (used only to classify ~e.01 cases)."""
    from penman.surface import Alignment
    return str(Alignment.from_string(s))


def normalise_alns(n):
    def fix_role(r):
        if r != '/' and '~' in r:
            a, aln = split_role(r)
            return a + norm_aln_text(aln)
        return r

    def fix_atom(t):
        a, aln = split_atom(t)
        return t if aln is None else a + norm_aln_text(aln)
    return (n[0], [(fix_role(r), normalise_alns(t) if isinstance(t, tuple) else fix_atom(t)) for r, t in n[1]])


def norm_node(n):
    """Canonical comparable form of a tree node (numbers by text)."""
    root = (common.atom_key(n[0]), [])
    stack = [(n, root)]
    while stack:
        src, dst = stack.pop()
        for r, t in src[1]:
            if isinstance(t, tuple):
                sub = (common.atom_key(t[0]), [])
                dst[1].append((r, sub))
                stack.append((t, sub))
            else:
                dst[1].append((r, common.atom_key(t)))
    return root


def tree_depth(n):
    best, stack = 0, [(n, 1)]
    while stack:
        x, d = stack.pop()
        best = max(best, d)
        for _, t in x[1]:
            if isinstance(t, tuple):
                stack.append((t, d + 1))
    return best


def count_nodes(n):
    c, stack = 0, [n]
    while stack:
        x = stack.pop()
        c += 1
        for _, t in x[1]:
            if isinstance(t, tuple):
                stack.append(t)
    return c


# ------------------------------------------------------------------------------------
# generators

def small_wf_trees(roles, maxnodes, maxbranches, maxtotal, concepts=(False, True)):
    """All trees with <= maxnodes nodes (fresh variables a, b, c in depth-first order),
    <= maxbranches non-concept branches per node, <= maxtotal non-concept branches overall,
    atoms {x, any variable of the tree, None}."""
    names = ['a', 'b', 'c', 'd']

    def shapes(nnodes_left, total_left, next_var):
        # yields (node_template, nodes_used, total_used); template uses placeholders for atoms
        var = names[next_var]
        for hc in concepts:
            for nb in range(0, min(maxbranches, total_left) + 1):
                for res in fill(var, nb, nnodes_left - 1, total_left - nb, next_var + 1, []):
                    bs, nleft, tleft, nv = res
                    yield ((var, ([('/', 'x')] if hc else []) + bs), nleft, tleft, nv)

    def fill(var, nb, nleft, tleft, nv, acc):
        if nb == 0:
            yield (list(acc), nleft, tleft, nv)
            return
        for role in roles:
            for atom in ('x', None, '@a', '@b', '@c'):
                yield from fill(var, nb - 1, nleft, tleft, nv, acc + [(role, atom)])
            if nleft > 0:
                for sub, nl2, tl2, nv2 in shapes(nleft, tleft, nv):
                    yield from fill(var, nb - 1, nl2, tl2, nv2, acc + [(role, sub)])

    def resolve(n, nvars):
        out = []
        for r, t in n[1]:
            if isinstance(t, tuple):
                s = resolve(t, nvars)
                if s is None:
                    return None
                out.append((r, s))
            elif isinstance(t, str) and t.startswith('@'):
                i = 'abc'.index(t[1])
                if i >= nvars:
                    return None
                out.append((r, names[i]))
            else:
                out.append((r, t))
        return (n[0], out)

    for tmpl, nleft, tleft, nv in shapes(maxnodes, maxtotal, 0):
        t = resolve(tmpl, nv)
        if t is not None:
            yield t


ROLES = [':ARG0', ':ARG1', ':ARG0-of', ':ARG1-of', ':op1', ':op2', ':op10', ':mod', ':mod-of', ':domain',
         ':polarity', ':quant', ':consist-of', ':consist-of-of', ':prep-on-behalf-of', ':a', ':a-of', ':b-of',
         ':x-y', ':', ':-of', ':ARG0-OF', ':PART-Of', ':MOD-OF', ':op01', ':op003', ':op02']
ATOMS = ['x', 'y', '-', '"s t"', '"(~)"', '1', '2.5', 'dog', '"a~b"', '7', '+']
ALNS = ['~1', '~e.2', '~e.2,3', '~E.1', '~x7', '~0,10', '~7,2', '~e.12,10,11', '~9,4,4']
BAD_ALNS = ['~e.01', '~01', '~e.1,02', '~~1']


def random_wf_node(rng, pool, defined, depth, maxdepth, width, p_nest, shapes):
    var = pool.pop(0)
    defined.append(var)
    bs = []
    r = rng.random()
    if r < .62:
        c = rng.choice(ATOMS + defined[:2] + [var])        # concepts equal to variable names too
        if rng.random() < .12:
            c += rng.choice(ALNS)
            shapes.add('concept-alignment')
        bs.append(('/', c))
    elif r < .70:
        bs.append(('/', None))                              # (a /): the permitted normalisation
        shapes.add('empty-concept-slot')
    nb = rng.randint(0, width)
    for _ in range(nb):
        role = rng.choice(ROLES)
        if rng.random() < .10:
            role += rng.choice(ALNS)
            shapes.add('role-alignment')
        q = rng.random()
        if q < p_nest and depth < maxdepth and pool:
            tgt = random_wf_node(rng, pool, defined, depth + 1, maxdepth, width, p_nest, shapes)
        elif q < p_nest + .22:
            tgt = rng.choice(defined)                       # re-entrancy or cycle to an enclosing node
            shapes.add('reentrancy-or-cycle')
            if rng.random() < .15:
                tgt += rng.choice(ALNS)
                shapes.add('target-alignment')
        elif q < .96:
            tgt = rng.choice(ATOMS)
            if rng.random() < .12:
                tgt += rng.choice(ALNS)
                shapes.add('target-alignment')
            if role.endswith('-of'):
                shapes.add('inverted-attribute')
        else:
            tgt = None
        bs.append((role, tgt))
    if not any(r == '/' for r, _ in bs) and bs:
        shapes.add('conceptless-node-with-edges')
    return (var, bs)


def deep_chain(rng, depth, pool):
    """A path of nested nodes, depth levels deep, each with a couple of attributes."""
    root = cur = (pool.pop(0), [])
    for _ in range(depth - 1):
        if rng.random() < .7:
            cur[1].append(('/', rng.choice(ATOMS)))
        for _ in range(rng.randint(0, 2)):
            cur[1].append((rng.choice(ROLES[:8]), rng.choice(ATOMS + [root[0]])))
        nxt = (pool.pop(0), [])
        cur[1].append((rng.choice(ROLES[:8]), nxt))
        if rng.random() < .3:
            cur[1].append((rng.choice(ROLES[:8]), rng.choice(ATOMS)))
        cur = nxt
    return root


HAND = [
    ('F1-witness', ('a', [(':ROLE', ('b', [(':ROLE', 'a')]))])),
    ('conceptless-cycle', ('a', [(':ARG0', ('b', [(':ARG0-of', 'a'), (':mod', ('c', [(':ARG1', 'b'), (':ARG1-of', 'a')]))]))])),
    ('concept-is-variable', ('a', [('/', 'b'), (':ARG0', ('b', [('/', 'a')]))])),
    ('empty-slot', ('a', [('/', None), (':ARG0', ('b', [('/', None)]))])),
    ('inverted-attribute', ('a', [('/', 'x'), (':mod-of', '7'), (':ARG0-of', 'y')])),
    ('alignments', ('a', [('/', 'x~1'), (':ARG0~e.2', ('b', [('/', 'y~e.3,4')])), (':ARG1~7', 'b~8'), (':mod', '"s~t"~9')])),
    ('aln-non-normal', ('a', [('/', 'x~e.01')])),
    ('aln-non-normal-role', ('a', [('/', 'x'), (':ARG0~01', 'y')])),
    ('reentrancy-before-definition', ('a', [(':ARG0', 'b'), (':ARG1', ('b', [('/', 'x'), (':ARG0-of', 'a')]))])),
    ('double-pop', ('a', [(':ARG0', ('b', [(':ARG0', ('c', [(':ARG0', ('d', []))]))])), (':ARG1', 'x')])),
    ('consist-of-of', ('a', [(':consist-of-of', ('b', [('/', 'x')])), (':consist-of', ('c', []))])),
    ('inverted-self-loop', ('a', [(':ARG0-of', 'a')])),                  # not wf
    ('double-inversion', ('a', [(':ARG0-of-of', ('b', []))])),           # not wf under default
]


# ------------------------------------------------------------------------------------
# implementation side (runs in worker processes)

_MODEL_CACHE = {}


def _model_for(name, tbl, live):
    key = name
    if key not in _MODEL_CACHE:
        _MODEL_CACHE[key] = models.impl_model(tbl, live_amr=live)
    return _MODEL_CACHE[key]


def _impl_roundtrip(node, meta, m):
    from penman import layout
    from penman.tree import Tree
    g = layout.interpret(Tree(node, metadata=dict(meta)), m)
    t2 = layout.configure(g, model=m)
    return t2.node, dict(t2.metadata), list(t2.metadata.items())


def _impl_text(node, meta, m):
    """encode(decode(s)) vs format(drop_empty_concepts(parse(s))) for the three indents."""
    from penman.codec import PENMANCodec
    from penman.tree import Tree
    c = PENMANCodec(model=m)
    out = []
    for indent in (-1, None, 2):
        s = c.format(Tree(node, metadata=dict(meta)), indent=indent)
        t = c.parse(s)
        reparsed_same = (t.node == node)
        got = c.encode(c.decode(s), indent=indent)
        # the normal form is computed from the GENERATED tree and metadata (not from what parse returned), so a
        # key/value lost or altered by the parser shows as a difference
        want = c.format(Tree(drop_empty(node if reparsed_same else t.node), metadata=dict(meta)), indent=indent)
        out.append((indent, s, reparsed_same, t.node, got, want))
    return out


def eval_case(case):
    """Returns a dict of observations for one (model, tree)."""
    common.use_repo()
    name, tbl, live, node, meta, do_text = case
    m = _model_for(name, tbl, live)
    noop = bool(tbl['noop'])
    why = []
    res = {'wf': wf_layout(node, m, noop, why), 'why': why[:1]}
    res['wf_mod_aln'] = res['wf'] or wf_layout(node, m, noop, None, ignore_aln=True)
    try:
        res['rt'] = timed(_impl_roundtrip, node, meta, m, seconds=20)
    except Timeout:
        res['rt_exc'] = 'Timeout'
    except RecursionError:
        res['rt_exc'] = 'RecursionError'
    except Exception as e:     # noqa
        res['rt_exc'] = type(e).__name__
    if do_text and res['wf']:
        try:
            res['text'] = timed(_impl_text, node, meta, m, seconds=20)
        except Timeout:
            res['text_exc'] = 'Timeout'
        except RecursionError:
            res['text_exc'] = 'RecursionError'
        except Exception as e:     # noqa
            res['text_exc'] = type(e).__name__ + ': ' + str(e)[:100]
    return res


EXC_CODE = {5: 'SurfaceError', 2: 'LayoutError'}


def run(chk):
    chk.rule = ('trees built with fresh variables per node: (1) every tree with <=3 nodes, <=3 non-concept branches per node '
                '(all with <=3 in total; thorough adds a 7% sample of those with 4), roles {:ARG0,:ARG0-of,:mod}, atoms {x, any variable of the tree, None}, with '
                'and without concepts; (2) random deep/wide trees (depth<=60 quick, <=200 thorough; width<=30) over 21 roles '
                '(inverted, doubly inverted, model-defined -of roles), alignments on role/concept/target, empty concept slots, '
                'concept-less nodes with edges, re-entrancies, cycles, concepts equal to variables, metadata; (3) hand-written '
                'shapes; x models {default, AMR(live), no-op, mini-AMR, random tables}. A case is (model, tree); it is in the '
                'domain when the Python twin of wf_layout_tree accepts it (the twin is compared with the extracted Coq predicate '
                'on every case) and non-trivial when the tree has at least two nodes or an alignment.')
    chk.require_theorems('Properties.C02', THEOREMS)
    from harness import e2e_theorems
    chk.require_theorems('Properties.E2E', e2e_theorems.THEOREMS_C02)   # end-to-end composition (string level)
    common.use_repo()
    deep_safe()
    quick = chk.tier == 'quick'
    rng = chk.rng

    tables = [('default', models.DEFAULT, False), ('amr', models.amr_table(), True),
              ('noop', models.NOOP, False), ('mini', models.MINI_AMR, False)]
    for i in range(6 if quick else 30):
        tbl = models.random_table(rng)
        try:
            models.impl_model(tbl)
            models.wire_model(tbl)
        except ValueError:
            continue
        tables.append((f'random{i}', tbl, False))
    wires = {name: models.wire_model(tbl) for name, tbl, _ in tables}

    trees = []          # (kind, node, meta)
    for label, node in HAND:
        trees.append(('hand:' + label, node, {}))
    small = list(small_wf_trees([':ARG0', ':ARG0-of', ':mod'], 3, 3, 3))
    chk.stat('small_trees_enumerated(all, <=3 branches)', len(small))
    if not quick:
        # four branches in total: 513k trees; a seeded 7% sample of them
        have = set(map(repr, small))
        extra = [n for n in small_wf_trees([':ARG0', ':ARG0-of', ':mod'], 3, 3, 4) if rng.random() < .07 and repr(n) not in have]
        chk.stat('small_trees_sampled(4 branches)', len(extra))
        small += extra
    for node in small:
        trees.append(('small', node, {}))
    shapes_seen = {}
    nrandom = 2500 if quick else 25000
    for i in range(nrandom):
        shapes = set()
        pool = gen.fresh_vars(400)
        rng.shuffle(pool)
        mode = rng.random()
        if mode < .55:
            node = random_wf_node(rng, pool, [], 0, rng.choice([2, 3, 4, 6]), rng.choice([2, 3, 4]), .38, shapes)
        elif mode < .8:
            node = random_wf_node(rng, pool, [], 0, 2, rng.choice([8, 16, 30]), .15, shapes)      # wide
        elif mode < .93:
            node = random_wf_node(rng, pool, [], 0, rng.choice([10, 20, 40]), 2, .6, shapes)       # deep-ish
        else:
            node = deep_chain(rng, rng.choice([30, 60]) if quick else rng.choice([60, 120, 200]), pool)
            shapes.add('deep-chain')
        if rng.random() < .04:
            # inject one non-normal alignment: expected to be normalised, counted separately
            var, bs = node
            bs.append((':ARG0' + rng.choice(BAD_ALNS), 'z'))
            shapes.add('non-normal-alignment')
        meta = {}
        if rng.random() < .3:
            for k in rng.sample(['id', 'snt', 'k'], rng.randint(1, 2)):
                meta[k] = rng.choice(['1', 'foo bar', '', 'a ; (b) "c" #d', 'x y'])
        for s in shapes:
            shapes_seen[s] = shapes_seen.get(s, 0) + 1
        trees.append(('random', node, meta))
    for s, c in shapes_seen.items():
        chk.stat('shape:' + s, c)

    cases = []
    for kind, node, meta in trees:
        if kind == 'random':
            # under the four named models, plus one random table
            use = tables[:4] + [rng.choice(tables[4:])] if len(tables) > 4 else tables
        elif kind == 'small':
            # default, no-op, one of {AMR, mini-AMR}, one random table
            use = [tables[0], tables[2], rng.choice([tables[1], tables[3]])] + ([rng.choice(tables[4:])] if len(tables) > 4 else [])
        else:
            use = tables
        for name, tbl, live in use:
            do_text = ASCII.match(repr(node)) is not None
            cases.append((kind, (name, tbl, live, node, meta, do_text)))

    import time
    t0 = time.time()
    results = common.pmap(eval_case, [c for _, c in cases], chunk=100)
    chk.notes.append('implementation side: %d cases in %.1fs' % (len(cases), time.time() - t0))

    requests = []
    for _, (name, tbl, live, node, meta, _) in cases:
        from penman.tree import Tree
        wt = common.e_tree(Tree(node, metadata=meta))
        requests.append([11, wires[name], wt])
    t0 = time.time()
    model_out = common.run_driver('layout', requests)
    chk.corr_cases = len(requests)
    chk.notes.append('model side: %d requests in %.1fs' % (len(requests), time.time() - t0))

    for i, ((kind, (name, tbl, live, node, meta, do_text)), res) in enumerate(zip(cases, results)):
        case = {'model': name, 'table': tbl if not live else 'penman.models.amr', 'tree': node, 'metadata': meta, 'kind': kind}
        coq_wf = bool(model_out[i][0])
        coq_rt = model_out[i][1]
        chk.stat('models:' + (name if not name.startswith('random') else 'random-table'))
        # ---- twin vs Coq predicate ---------------------------------------------------
        if coq_wf != res['wf']:
            chk.mismatch('wf_layout_tree: python twin and extracted Coq predicate disagree', case, res['wf'], coq_wf)
            continue
        if not res['wf']:
            chk.stat('not-wf:' + (res['why'][0] if res['why'] else '?'))
            if res['wf_mod_aln'] and 'rt' in res:
                # the tree is wf except for a non-normal alignment suffix: the suffix is normalised
                try:
                    want = drop_empty(normalise_alns(node))
                except Exception:      # noqa
                    want = None
                if want is not None and norm_node(res['rt'][0]) == norm_node(want):
                    chk.stat('non-normal-alignment-normalised(outside the property: counted, not flagged)')
                else:
                    chk.stat('non-normal-alignment-other-outcome(outside the property)')
            continue
        nn = count_nodes(node)
        chk.count((name if not name.startswith('random') else repr(sorted(tbl.items(), key=str)), repr(node), repr(sorted(meta.items()))),
                  nontrivial=(nn >= 2 or '~' in repr(node)))
        chk.stat('wf-cases')
        chk.stat('depth>=30' if tree_depth(node) >= 30 else 'depth<30')
        if len(chk.samples) < 6 and nn >= 3 and kind != 'small' and nn <= 6:
            chk.sample(case)
        # ---- oracle: layout + metadata ---------------------------------------------------
        want = drop_empty(node)
        if 'rt_exc' in res:
            chk.fail('layout', f'configure(interpret(t)) raised {res["rt_exc"]} on a well-formed tree', case)
            impl_tree = None
        else:
            impl_node, impl_meta, impl_meta_items = res['rt']
            impl_tree = impl_node
            if norm_node(impl_node) != norm_node(want):
                chk.fail('layout', 'configure(interpret(t)) differs from t (only (a /) -> (a) allowed): got %r' % (impl_node,), case)
            if impl_meta_items != list(meta.items()):
                chk.fail('metadata', 'metadata changed by interpret/configure: %r' % (impl_meta_items,), case)
        # ---- oracle: text ----------------------------------------------------------------
        if 'text_exc' in res:
            # a tree the formatter/parser cannot round-trip is outside "text" (hand-built atoms); count it
            chk.stat('text-skipped:' + res['text_exc'].split(':')[0])
        for indent, s, same, tnode, got, wanttext in res.get('text', []):
            if not same:
                chk.stat('text-reparse-differs(skipped)')
                continue
            chk.count(None)
            chk.stat('text-cases')
            if got != wanttext:
                chk.fail('text', f'encode(decode(s)) differs from the normal-form text of s (indent={indent}): '
                                 f'{got!r} vs {wanttext!r}', dict(case, text=s, indent=indent))
        # ---- correspondence: model configure∘interpret vs implementation ------------------
        if coq_rt[0] == 0:
            mnode, mmeta = common.d_tree(coq_rt[1])
            if impl_tree is None or norm_node(mnode) != norm_node(impl_tree) or mmeta != res['rt'][1]:
                chk.mismatch('configure(interpret(t)) differs', case, res.get('rt', res.get('rt_exc')), [mnode, mmeta])
        else:
            if 'rt' in res:
                chk.mismatch('model raises, implementation returns', case, res['rt'], coq_rt)
    chk.notes.append('non-normal alignment suffixes such as ~e.01 are re-printed as ~e.1: such trees are outside wf_layout_tree; '
                     'they are generated on purpose and counted under input_distribution, not flagged')
    chk.assumptions.append('str.isalpha / int() in AlignmentMarker.from_string are modelled on ASCII letters and ASCII digit strings')


def replay(obj):
    """Re-run the failing case of a replay file on the implementation and show the behaviour."""
    common.use_repo()
    from penman import layout
    from penman.tree import Tree
    from penman.codec import PENMANCodec
    case = obj.get('case') or {}
    print('replay case:', case)
    tbl = case.get('table')
    m = models.impl_model(models.amr_table(), live_amr=True) if tbl == 'penman.models.amr' else models.impl_model(tbl)

    def tup(n):
        return (n[0], [(r, tup(t) if isinstance(t, (list, tuple)) else t) for r, t in n[1]])
    node = tup(case['tree'])
    t = Tree(node, metadata=case.get('metadata') or {})
    g = layout.interpret(t, m)
    for tr in g.triples:
        print('  ', tr, g.epidata.get(tr))
    t2 = layout.configure(g, model=m)
    print('tree in :', node)
    print('tree out:', t2.node)
    print('expected:', drop_empty(node))
    c = PENMANCodec(model=m)
    if 'text' in case:
        s = case['text']
        print('text in :', repr(s))
        print('text out:', repr(c.encode(c.decode(s), indent=case.get('indent', -1))))
    return 0 if t2.node == drop_empty(node) else 1
