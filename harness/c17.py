"""C17 — calls are pure and deterministic.

proof (partial): coq/Properties/C17.v — hash-seed independence stated as theorems: every place
                 where the Python iterates a set (or a dict built from a set) is modelled with an
                 arbitrary ordering of that set and the result is proved independent of it.
exploration:     argument snapshots before/after every call documented as returning a new object,
                 repeated / interleaved calls on shared arguments, deep-copied and pickled
                 arguments (fresh POP instances), results recomputed under PYTHONHASHSEED 0..3 in
                 separate processes and in a multiprocessing worker, CLI bytes across hash seeds.
"""
import copy
import hashlib
import json
import os
import pickle
import subprocess
import sys

from harness import common, gen, models

THEOREMS = []   # set below once coq/Properties/C17.v exists
try:
    from harness.c17_theorems import THEOREMS   # noqa
except ImportError:
    pass


# ----------------------------------------------------------------------------------------
# structural dumps (order-sensitive where Python's result is ordered)

def dump(x):
    from penman.graph import Graph
    from penman.tree import Tree
    from penman.epigraph import Epidatum
    if isinstance(x, Graph):
        return ('Graph', [dump(t) for t in x.triples], dump(x._top),
                [(dump(k), [dump(e) for e in v]) for k, v in x.epidata.items()],
                list(x.metadata.items()))
    if isinstance(x, Tree):
        return ('Tree', dump(x.node), list(x.metadata.items()))
    if isinstance(x, Epidatum):
        return ('Epi', type(x).__name__, repr(x))
    if isinstance(x, (set, frozenset)):
        return ('set', sorted((dump(e) for e in x), key=repr))
    if isinstance(x, dict):
        return ('dict', [(dump(k), dump(v)) for k, v in x.items()])
    if isinstance(x, tuple):
        return ('tuple', [dump(e) for e in x])
    if isinstance(x, list):
        return ('list', [dump(e) for e in x])
    if isinstance(x, float):
        return ('float', repr(x))
    if isinstance(x, Exception):
        return ('exc', type(x).__name__, str(x))
    if hasattr(x, 'value') and hasattr(x, 'name') and type(x).__name__ == 'Type':
        return ('enum', x.name)
    return x


def _try(f):
    try:
        return f()
    except Exception as e:       # noqa
        return ('exc', type(e).__name__)


def digest(obj):
    return hashlib.sha1(json.dumps(obj, sort_keys=False, default=str).encode()).hexdigest()[:16]


# ----------------------------------------------------------------------------------------
# the catalogue of calls documented as returning a new object

def catalogue():
    import penman
    from penman import layout, transform, surface, constant
    m_key = {}

    def C(name, fn, inplace=False):
        m_key[name] = (fn, inplace)

    C('decode', lambda A: penman.decode(A['s'], model=A['m']))
    C('parse', lambda A: penman.parse(A['s']))
    C('loads', lambda A: penman.loads(A['s'] + '\n\n' + A['s'], model=A['m']))
    # a caller-owned LIST OF LINES is an argument like any other (iterdecode / iterparse accept any iterable of lines)
    C('iterdecode_lines', lambda A: list(penman.iterdecode(A['lines'], model=A['m'])))
    C('iterparse_lines', lambda A: list(penman.iterparse(A['lines'])))
    C('codec_iterdecode_lines', lambda A: list(penman.PENMANCodec(model=A['m']).iterdecode(A['lines'])))
    # objects built directly by the caller: a Tree from a bare node (no metadata given), the bare node formatted
    from penman.tree import Tree as _Tree
    C('tree_from_node', lambda A: _Tree(copy.deepcopy(A['t'].node)))
    C('format_node', lambda A: penman.format(A['t'].node))
    C('interpret_tree_from_node', lambda A: layout.interpret(_Tree(copy.deepcopy(A['t'].node)), A['m']))
    C('graph_from_triples', lambda A: penman.Graph(list(A['g'].triples)))
    # Model.reify with the caller's own set of variables (a rarely used argument)
    def reify_with_vars(A):
        out = []
        for t in list(A['g'].triples)[:8] + [('a', ':mod', 'b')]:
            try:
                out.append(A['m'].reify(t, A['vars']))
            except Exception as e:       # noqa
                out.append(('exc', type(e).__name__))
        return out
    C('model_reify_with_variables', reify_with_vars)
    C('model_reify_with_frozenset', lambda A: [r for r in [_try(lambda: A['m'].reify(('a', ':mod', 'b'), frozenset(A['vars'])))]])
    C('dumps', lambda A: penman.dumps([A['g'], A['g']], model=A['m']))
    C('encode', lambda A: penman.encode(A['g'], model=A['m']))
    C('encode_top', lambda A: penman.encode(A['g'], top=sorted(A['g'].variables(), key=repr)[-1], model=A['m']))
    C('encode_compact', lambda A: penman.encode(A['g'], model=A['m'], indent=None, compact=True))
    C('interpret', lambda A: layout.interpret(A['t'], A['m']))
    C('configure', lambda A: layout.configure(A['g'], model=A['m']))
    C('reconfigure', lambda A: layout.reconfigure(A['g'], model=A['m']))
    C('reconfigure_canon', lambda A: layout.reconfigure(A['g'], model=A['m'], key=A['m'].canonical_order))
    C('format', lambda A: penman.format(A['t']))
    C('format_triples', lambda A: penman.format_triples(A['g'].triples))
    C('canonicalize_roles', lambda A: transform.canonicalize_roles(A['t'], A['m']))
    C('reify_edges', lambda A: transform.reify_edges(A['g'], A['m']))
    C('dereify_edges', lambda A: transform.dereify_edges(A['g'], A['m']))
    C('reify_attributes', lambda A: transform.reify_attributes(A['g']))
    C('indicate_branches', lambda A: transform.indicate_branches(A['g'], A['m']))
    C('variables', lambda A: A['g'].variables())
    C('instances', lambda A: A['g'].instances())
    C('edges', lambda A: A['g'].edges())
    C('attributes', lambda A: A['g'].attributes())
    C('reentrancies', lambda A: A['g'].reentrancies())
    C('top', lambda A: A['g'].top)
    C('union', lambda A: A['g'] | A['g2'])
    C('difference', lambda A: A['g'] - A['g2'])
    C('graph_eq', lambda A: A['g'] == A['g2'])
    C('errors', lambda A: A['m'].errors(A['g']))
    C('node_contexts', lambda A: layout.node_contexts(A['g']))
    C('appears_inverted', lambda A: [layout.appears_inverted(A['g'], t) for t in A['g'].triples])
    C('get_pushed_variable', lambda A: [layout.get_pushed_variable(A['g'], t) for t in A['g'].triples])
    C('alignments', lambda A: surface.alignments(A['g']))
    C('role_alignments', lambda A: surface.role_alignments(A['g']))
    C('tree_nodes', lambda A: A['t'].nodes())
    C('tree_walk', lambda A: list(A['t'].walk()))
    C('constant', lambda A: [(constant.evaluate(t[2]), constant.type(t[2]), constant.quote(t[2]))
                             for t in A['g'].attributes() if isinstance(t[2], str) or t[2] is None])
    # calls on the MODEL object that is shared by everything else (its answers must not depend on earlier calls)
    def model_probe(A):
        m, out = A['m'], []
        for t in list(A['g'].triples)[:6] + [('a', ':zz-undefined', 'b'), ('a', ':mod', 'b')]:
            try:
                out.append(('reify', m.reify(t)))
            except Exception as e:       # noqa
                out.append(('reify-exc', type(e).__name__))
            out.append((m.is_role_reifiable(t[1]), m.has_role(t[1]), m.is_role_inverted(t[1]), m.invert_role(t[1]),
                        m.canonicalize_role(t[1]), m.is_concept_dereifiable(t[2]),
                        m.canonical_order(t[1]), m.alphanumeric_order(t[1]), m.original_order(t[1])))
        return out
    C('model_probe', model_probe)
    C('model_eq_fresh', lambda A: (A['m'] == type(A['m'])(roles=A['m'].roles, normalizations=A['m'].normalizations,
                                   reifications=[(r, c, s, t) for r, rows in A['m'].reifications.items() for c, s, t in rows]),
                                   sorted(A['m'].reifications), sorted(A['m'].dereifications)))
    # a transformed graph (more POPs than open contexts after dereification) serialised as is
    C('reify_dereify_encode', lambda A: penman.encode(transform.dereify_edges(transform.reify_edges(A['g'], A['m']), A['m']), model=A['m']))
    # documented in-place operations: determinism only
    C('rearrange', lambda A: (layout.rearrange(A['t'], key=A['m'].canonical_order, attributes_first=True), A['t'])[1], inplace=True)
    C('reset_variables', lambda A: (A['t'].reset_variables('{prefix}{i}'), A['t'])[1], inplace=True)
    return m_key


def make_args(rng_seed, idx, force_model=None):
    import random
    import penman
    from penman.tree import Tree
    rng = random.Random(f'C17:{rng_seed}:{idx}')
    amr = rng.random() < .5
    if force_model is not None:
        amr = force_model == 'amr'
    # ':consist-of' / ':prep-out-of' are plain roles under the AMR model and inverted ones under the default model
    roles = [':ARG0', ':ARG1', ':ARG0-of', ':op1', ':op2', ':op10', ':mod', ':polarity', ':quant', ':location', ':domain-of', ':poss', ':foo',
             ':consist-of', ':prep-out-of']

    def text():
        node = gen.random_tree_node(rng, gen.fresh_vars(), maxdepth=rng.choice([1, 2, 3]), wf=True, roles=roles,
                                    atoms=['x', 'y', '-', '"s t"', '1', '2.5', 'dog', 'have-mod-91'])
        meta = {'id': str(idx)} if rng.random() < .5 else {}
        return penman.format(Tree(node, metadata=meta))
    s, s2 = text(), text()
    if amr:
        from penman.models.amr import model as m
    else:
        from penman.model import Model
        m = Model()
    t = penman.parse(s)
    g = penman.layout.interpret(t, m)
    g2 = penman.layout.interpret(penman.parse(s2), m)
    if rng.random() < .4:   # overlapping operands for | and -
        g2 = penman.Graph(g2.triples + g.triples[: len(g.triples) // 2], epidata={**g2.epidata}, metadata={'k': 'v'})
    lines = (s + '\n\n' + s2).splitlines(keepends=True)
    r = rng.random()
    if r < .35:
        lines[0] = '\ufeff' + lines[0]          # a byte-order mark left by the editor
    elif r < .5:
        lines = ['  \t' + ln.rstrip('\n') + '  \r\n' for ln in lines]
    return {'s': s, 't': t, 'g': g, 'g2': g2, 'm': m, 'lines': lines, 'vars': set(g.variables()) | {'_'}}


def scribble(r, A, annotate=False):
    """Apply the DOCUMENTED in-place operations to a result (rearrange / reset_variables on a Tree; |=, -=, top
    assignment on a Graph): the caller owns the result, so this must never reach the arguments of the call."""
    from penman import layout
    from penman.graph import Graph
    from penman.tree import Tree
    if annotate and isinstance(r, (Tree, Graph)):
        # an object the caller built WITHOUT giving metadata owns its metadata dict (configure(g) / Tree(node, md) hand the
        # given mapping on as it is: noted as N13 in DESIGN.md, like N10, not judged)
        r.metadata['zz-note'] = 'added by the caller'
    if isinstance(r, Tree):
        layout.rearrange(r, key=A['m'].canonical_order, attributes_first=True)
        layout.rearrange(r, key=lambda role: role[::-1])
        r.reset_variables('zz{i}')
    elif isinstance(r, Graph):
        r |= Graph([('zz', ':instance', 'zz'), ('zz', ':zz', 'a')], epidata={('zz', ':zz', 'a'): []})
        r -= Graph(list(r.triples[:2]))
        vs = sorted(r.variables(), key=repr)
        if vs:
            r.top = vs[-1]
    elif isinstance(r, (list, tuple)):
        for x in r:
            if isinstance(x, (Tree, Graph)):
                scribble(x, A)


def run_call(fn, A):
    try:
        return dump(common.timed(fn, A, seconds=10))
    except common.Timeout:
        return ('hang',)
    except Exception as e:           # noqa: an exception is a result, too (it must be deterministic)
        return ('exc', type(e).__name__, str(e))


def snapshot(A):
    return {k: dump(v) for k, v in A.items() if k != 'm'}


def one_case(args):
    seed, idx = args
    import random
    common.use_repo()
    cat = catalogue()
    rng = random.Random(f'C17i:{seed}:{idx}')
    findings, digests = [], {}
    A = make_args(seed, idx)
    base = snapshot(A)
    case0 = {'text': A['s'], 'text2': [list(t) for t in A['g2'].triples]}
    names = list(cat)
    # 1. each call on FRESH arguments = the reference result
    ref = {}
    for name in names:
        ref[name] = run_call(cat[name][0], make_args(seed, idx))
        digests[name] = digest(ref[name])
        if ref[name] == ('hang',):
            findings.append(('hang', f'{name} does not terminate', case0))
    # 2. shared arguments: every pure call leaves them unchanged; repeated call gives the same result
    for name in names:
        fn, inplace = cat[name]
        if inplace:
            continue
        r1 = run_call(fn, A)
        after = snapshot(A)
        if after == base and idx % 3 == 0:
            # the result is the CALLER'S object: editing it in place must not reach the arguments (no shared sub-objects)
            try:
                scribble(common.timed(fn, A, seconds=10), A, annotate=name in ('tree_from_node', 'graph_from_triples'))
            except Exception:        # noqa
                pass
            after = snapshot(A)
            if after != base:
                changed = [k for k in base if base[k] != after[k]]
                findings.append(('result-aliases-argument', f'editing the result of {name} in place changed the argument(s) {changed}',
                                 dict(case0, call=name)))
                A = make_args(seed, idx)
                after = base
        if after != base:
            changed = [k for k in base if base[k] != after[k]]
            findings.append(('argument-mutated', f'{name} changed its argument(s) {changed}', dict(case0, call=name)))
            A = make_args(seed, idx)
        if r1 != ref[name]:
            findings.append(('result-depends-on-history', f'{name} on shared arguments differs from a fresh call', dict(case0, call=name)))
        r2 = run_call(fn, A)
        if r2 != r1:
            findings.append(('not-repeatable', f'{name} called twice gives different results', dict(case0, call=name)))
    # 3. random interleaving on shared arguments
    A = make_args(seed, idx)
    seq = [rng.choice([n for n in names if not cat[n][1]]) for _ in range(12)]
    for name in seq:
        if run_call(cat[name][0], A) != ref[name]:
            findings.append(('interleaving', f'{name} after the call sequence {seq} differs from a fresh call', dict(case0, seq=seq)))
            break
    # 4. deep-copied and pickled arguments (fresh Pop instances: `is POP` regressions)
    for how, conv in (('deepcopy', copy.deepcopy), ('pickle', lambda x: pickle.loads(pickle.dumps(x)))):
        B = make_args(seed, idx)
        B = {k: (conv(v) if k != 'm' else v) for k, v in B.items()}
        for name in ('encode', 'configure', 'reconfigure', 'node_contexts', 'reify_edges', 'dereify_edges',
                     'reify_attributes', 'indicate_branches', 'union', 'difference', 'appears_inverted'):
            if run_call(cat[name][0], B) != ref[name]:
                findings.append(('copied-arguments', f'{name} on {how}-copied arguments differs', dict(case0, call=name, how=how)))
                B = {k: (conv(v) if k != 'm' else v) for k, v in make_args(seed, idx).items()}
    # 5. a TRANSFORMED graph (dereification leaves superfluous POPs) must serialise the same after a deep copy / pickling
    from penman import transform
    import penman
    for how, conv in (('deepcopy', copy.deepcopy), ('pickle', lambda x: pickle.loads(pickle.dumps(x)))):
        B = make_args(seed, idx)
        try:
            # decode the REIFIED text, then dereify: the collapsed nodes leave more POPs than open contexts
            reified_text = penman.encode(transform.reify_edges(B['g'], B['m']), model=B['m'])
            h = transform.dereify_edges(penman.decode(reified_text, model=B['m']), B['m'])
            want = penman.encode(h, model=B['m'])
            got = run_call(lambda A: penman.encode(conv(h), model=B['m']), B)
        except Exception as e:       # noqa
            continue
        if got != want:
            findings.append(('copied-arguments', f'encode of a reified+dereified graph differs after {how}', dict(case0, how=how)))
    return findings, digests


def digests_for(seed, n):
    """All result digests for cases 0..n-1 (run in THIS process: used under several hash seeds)."""
    common.use_repo()
    cat = catalogue()
    out = []
    for idx in range(n):
        out.append({name: digest(run_call(cat[name][0], make_args(seed, idx))) for name in cat})
    return out


def _worker_digests(args):
    return digests_for(*args)


MODEL_CALLS = ['model_probe', 'decode', 'encode', 'interpret', 'reconfigure_canon', 'rearrange', 'canonicalize_roles', 'errors',
               'reify_edges', 'dereify_edges', 'indicate_branches', 'appears_inverted', 'loads', 'dumps']


def two_model_digests(seed, n, order):
    """Digests of the model-dependent calls for the SAME inputs under two model objects living in one process,
    asked in the given order: an answer may depend on the model it is asked of, never on which model was asked first."""
    common.use_repo()
    cat = catalogue()
    out = {}
    for idx in range(n):
        for mname in order:
            for name in MODEL_CALLS:
                out[f'{idx}:{mname}:{name}'] = digest(run_call(cat[name][0], make_args(seed, idx, force_model=mname)))
    return out


CLI_OPTS = [[], ['--amr', '--reify-edges'], ['--amr', '--canonicalize-roles', '--rearrange', 'canonical'],
            ['--reconfigure', 'canonical'], ['--amr', '--check'], ['--triples'], ['--reify-attributes', '--make-variables', 'v{i}'],
            ['--amr', '--dereify-edges', '--indicate-branches', '--indent', '0'], ['--amr', '--reify-edges', '--dereify-edges', '--compact'],
            # several sort keys at once: their ORDER is part of the request
            ['--rearrange', 'alphanumeric,inverted-last'], ['--rearrange', 'inverted-last,alphanumeric'],
            ['--amr', '--rearrange', 'attributes-first,inverted-last,alphanumeric'], ['--amr', '--rearrange', 'canonical,attributes-first'],
            ['--reconfigure', 'canonical,original'], ['--amr', '--reconfigure', 'original,canonical']]


def run(chk):
    chk.level = 'exploration'   # the deciding method is exploration; the Coq theorems cover only the set-iteration-order part
    chk.rule = ('well-formed decoded graphs/trees (two per case, partly overlapping) x 39 public calls; per case: fresh-call reference, '
                'argument snapshot before/after each pure call, repeated call, a random 12-call interleaving on shared arguments, '
                'deep-copied and pickled arguments; a subset recomputed under PYTHONHASHSEED 0..3 in subprocesses and in a '
                'multiprocessing worker; CLI bytes under 4 hash seeds; distinct = (case, call) pairs')
    if THEOREMS:
        chk.require_theorems('Properties.C17', THEOREMS)
    n = 150 if chk.tier == 'quick' else 1500
    res = common.pmap(one_case, [(chk.seed, i) for i in range(n)], chunk=5)
    all_digests = []
    for idx, (findings, digests) in enumerate(res):
        all_digests.append(digests)
        for name in digests:
            chk.count((idx, name))
        for key, what, case in findings:
            chk.fail(key, what, case)
    chk.sample({'text': make_args(chk.seed, 0)['s'], 'calls': list(catalogue())})
    # hash seeds / processes
    nh = 40 if chk.tier == 'quick' else 300
    base = [{k: v for k, v in d.items()} for d in all_digests[:nh]]
    code = ('import sys, json; sys.path[:0] = [%r, %r]\nfrom harness import c17\n'
            'print(json.dumps(c17.digests_for(%d, %d)))' % (str(common.REPO), str(common.VERIF), chk.seed, nh))
    procs = []
    for hs in ('0', '1', '2', '3', '12345'):
        env = dict(os.environ, PYTHONHASHSEED=hs, PYTHONPATH=f'{common.REPO}:{common.VERIF}')
        procs.append((hs, subprocess.Popen([sys.executable, '-c', code], stdout=subprocess.PIPE, stderr=subprocess.PIPE, text=True, env=env)))
    for hs, p in procs:
        out, err = p.communicate(timeout=1200)
        if p.returncode:
            raise common.BuildError('hash-seed worker failed: ' + err[-2000:])
        got = json.loads(out)
        chk.stat('hashseed-runs')
        for idx, (a, b) in enumerate(zip(base, got)):
            for name in a:
                chk.count(('hs', hs, idx, name))
                if a[name] != b[name]:
                    chk.fail('hashseed', f'{name} gives a different result under PYTHONHASHSEED={hs}',
                             {'call': name, 'text': make_args(chk.seed, idx)['s'], 'hashseed': hs})
    # two models in one process, asked in both orders (a cache shared between model objects shows here)
    nm = 25 if chk.tier == 'quick' else 200
    code2 = ('import sys, json; sys.path[:0] = [%r, %r]\nfrom harness import c17\n'
             'print(json.dumps(c17.two_model_digests(%d, %d, sys.argv[1].split(","))))' % (str(common.REPO), str(common.VERIF), chk.seed, nm))
    env = dict(os.environ, PYTHONHASHSEED='0', PYTHONPATH=f'{common.REPO}:{common.VERIF}')
    procs = [(o, subprocess.Popen([sys.executable, '-c', code2, o], stdout=subprocess.PIPE, stderr=subprocess.PIPE, text=True, env=env))
             for o in ('default,amr', 'amr,default', 'amr', 'default')]
    outs2 = {}
    for o, p in procs:
        out, err = p.communicate(timeout=1200)
        if p.returncode:
            raise common.BuildError('two-model worker failed: ' + err[-2000:])
        outs2[o] = json.loads(out)
    for o in ('amr,default', 'amr', 'default'):
        for k, v in outs2[o].items():
            chk.count(('two-models', o, k))
            if outs2['default,amr'][k] != v:
                idx, mname, name = k.split(':')
                chk.fail('model-order', f'{name} under the {mname} model answers differently when the models are asked in the order '
                         f'[{o}] than in the order [default,amr]', {'call': name, 'model': mname, 'text': make_args(chk.seed, int(idx), mname)['s']})
    chk.stat('two-model-orders', 4)
    import multiprocessing
    with multiprocessing.get_context('spawn').Pool(1) as pool:
        got = pool.apply(_worker_digests, ((chk.seed, min(nh, 20)),))
    for idx, (a, b) in enumerate(zip(base, got)):
        for name in a:
            if a[name] != b[name]:
                chk.fail('worker-process', f'{name} gives a different result in a worker process', {'call': name, 'idx': idx})
    # CLI bytes across hash seeds
    from harness import c20
    ncli = 6 if chk.tier == 'quick' else 40
    for i in range(ncli):
        stream = c20.gen_stream(chk.rng, None)
        for opts in CLI_OPTS:
            outs = {}
            for hs in ('0', '1', '2', '3'):
                o, code_, err = c20.run_cli_subprocess(opts, stream, [], seed=hs)
                outs[hs] = (o, code_)
                chk.count(('cli', i, tuple(opts), hs))
            if len(set(outs.values())) != 1:
                chk.fail('cli-hashseed', f'penman {" ".join(opts)} output differs across PYTHONHASHSEED', {'opts': opts, 'stdin': stream})
    chk.assumptions.append('interleavings with other threads, pickling across interpreter versions and OS-level effects are outside the model and only sampled')


def replay(obj):
    common.use_repo()
    print(json.dumps(obj.get('case'), indent=1, default=str)[:3000])
    return 0
