"""C15 — graph queries partition the triples; graph set operations are set algebra.

proof:          coq/Properties/C15.v (all triple lists, tops, epidata dicts)
correspondence: Impl.Graph / Impl.GraphOps (extracted, ocaml/graph) vs penman.graph.Graph:
                constructor, top, variables, instances/edges/attributes (+filters),
                top setter, reentrancies, | |= - -=, ==, operation sequences; compared on
                triples, _top, top, epidata (dict ORDER and marker lists), metadata
oracle:         the laws of the statement evaluated on the implementation alone
"""
import collections
import copy
import itertools
import json
import operator
import os
import signal
import subprocess
import sys

from harness import common
from harness.common import e_atom, e_str, e_opt, e_graph, e_triple, d_graph, d_triple, d_atom, atom_key

THEOREMS = [
    'C15_partition3', 'C15_variables_spec', 'C15_edges_spec', 'C15_filter_sublist', 'C15_implicit_top',
    'C15_set_top_refuses', 'C15_set_top_accepts', 'C15_reentrancies_spec', 'C15_reentrancies_order',
    'C15_or_spec', 'C15_or_epidata', 'C15_sub_spec', 'C15_sub_order_irrelevant', 'C15_inplace_same',
    'C15_epidata_wf_preserved', 'C15_mem_or', 'C15_mem_sub', 'C15_or_idem', 'C15_or_sub_subset',
    'C15_sub_or_superset', 'C15_sub_self_empty', 'C15_or_assoc', 'C15_or_comm_set', 'C15_sequences',
    'C15_eq_refl', 'C15_examples',
]

SRC = ['a', 'b']
ROLES = [':instance', ':R', 'R']
TGT = ['a', 'b', 'x', None]
TOPS = [None, 'a', 'b', 'z']
RAW = [(s, r, t) for s in SRC for r in ROLES for t in TGT]                       # 24 raw triples
NORM = [(s, r, t) for s in SRC for r in (':instance', ':R') for t in TGT]        # 16 after the constructor
MARKERS = [['Push', 'a'], ['Push', 'b'], ['POP'], ['Aln', [1], None], ['Aln', [2, 3], 'e.'], ['RAln', [1], None]]
METAS = [{}, {}, {'id': '1'}, {'snt': 'x y', 'id': '2'}]
F_SRC = [None, 'a', 'b', 'z']
F_ROLE = [None, ':instance', ':R', 'R', ':X']
F_TGT = [None, 'a', 'b', 'x', 'z']
OPNAMES = ['|', '|=', '-', '-=']


def norm_role(r):
    return r if r.startswith(':') else ':' + r


def norm_triple(t):
    return (t[0], norm_role(t[1]), t[2])


# ---------------------------------------------------------------- specs <-> objects

def marker(m):
    from penman.layout import Push, POP
    from penman.surface import Alignment, RoleAlignment
    if m[0] == 'Push':
        return Push(m[1])
    if m[0] == 'POP':
        return POP
    cls = Alignment if m[0] == 'Aln' else RoleAlignment
    return cls(tuple(m[1]), prefix=m[2])


def build(spec):
    """spec -> a fresh penman Graph through the public constructor."""
    from penman.graph import Graph
    ed = {tuple(k): [marker(m) for m in ms] for k, ms in spec['epidata']}
    return Graph([tuple(t) for t in spec['triples']], top=spec['top'], epidata=ed, metadata=dict(spec['metadata']))


def raw_wire(spec):
    return [[e_triple(tuple(t)) for t in spec['triples']], e_opt(e_atom, spec['top']),
            [[e_triple(tuple(k)), [common.e_epi(marker(m)) for m in ms]] for k, ms in spec['epidata']],
            common.e_meta(spec['metadata'])]


def rand_epidata(rng, triples, p=.6):
    keys = list(dict.fromkeys(norm_triple(t) for t in triples))
    rng.shuffle(keys)
    ed = []
    for k in keys:
        if rng.random() < p:
            ed.append([list(k), [rng.choice(MARKERS) for _ in range(rng.choice([0, 1, 1, 2]))]])
    if rng.random() < .15:
        k = rng.choice(NORM)
        if all(tuple(x[0]) != k for x in ed):
            ed.append([list(k), [rng.choice(MARKERS)]])
    return ed


def mk_spec(rng, triples, top, plain=False):
    return {'triples': [list(t) for t in triples], 'top': top,
            'epidata': [] if plain else rand_epidata(rng, triples),
            'metadata': {} if plain else dict(rng.choice(METAS))}


def rand_list(rng, maxlen, pool=RAW):
    n = rng.choice(range(maxlen + 1))
    return [rng.choice(pool) for _ in range(n)]


# ---------------------------------------------------------------- independent oracle helpers

def is_subsequence(sub, full):
    it = iter(full)
    return all(any(x == y for y in it) for x in sub)


def indep_vars(g):
    vs = set(t[0] for t in g.triples)
    if g._top is not None:
        vs.add(g._top)
    return vs


def klass(t, vs):
    if t[1] == ':instance':
        return 'I'
    return 'E' if t[2] in vs else 'A'


def sel(s, r, t):
    return lambda x: (s is None or x[0] == s) and (r is None or x[1] == r) and (t is None or x[2] == t)


def canon(g):
    c = common.canon_graph(g)
    c['metadata'] = list(c['metadata'].items())
    return c


def wire_out(g):
    return e_graph(g)


# ---------------------------------------------------------------- single graphs

def single_case(spec, filters):
    """-> (fails, requests, expected, stats) for one graph spec."""
    from penman.graph import Graph, Instance, Edge, Attribute
    from penman.exceptions import GraphError
    fails, reqs, exp = [], [], []
    g = build(spec)
    T = list(g.triples)
    # constructor: roles get their colon, everything else is copied
    if T != [norm_triple(tuple(t)) for t in spec['triples']] or g._top != spec['top']:
        fails.append(('constructor', f'Graph(...) triples/top not the normalised input: {T!r} top={g._top!r}'))
    reqs.append([6, raw_wire(spec)])
    exp.append(('graph', e_graph(g)))
    gw = e_graph(g)
    vs = indep_vars(g)
    I, E, A = g.instances(), g.edges(), g.attributes()
    # ---- partition
    cls = [klass(t, vs) for t in T]
    want = {k: [t for t, c in zip(T, cls) if c == k] for k in 'IEA'}
    if [tuple(x) for x in I] != want['I'] or [tuple(x) for x in E] != want['E'] or [tuple(x) for x in A] != want['A']:
        key = 'edges' if [tuple(x) for x in I] == want['I'] else 'partition'
        fails.append((key, f'instances/edges/attributes are not the three classes of the triples: I={I!r} E={E!r} A={A!r}'))
    if collections.Counter(map(tuple, I + E + A)) != collections.Counter(T):
        fails.append(('partition', f'instances+edges+attributes is not a permutation of the triples ({len(I)}+{len(E)}+{len(A)} of {len(T)})'))
    if not (is_subsequence(I, T) and is_subsequence(E, T) and is_subsequence(A, T)):
        fails.append(('partition', 'a query does not keep the order of the triples'))
    if (set(I) & set(E)) or (set(I) & set(A)) or (set(E) & set(A)):
        fails.append(('partition', 'a triple is reported by two of instances/edges/attributes'))
    if not (all(isinstance(x, Instance) for x in I) and all(isinstance(x, Edge) for x in E)
            and all(isinstance(x, Attribute) for x in A)):
        fails.append(('partition', 'wrong result class'))
    # ---- edges spec (stated directly)
    if [tuple(x) for x in E] != [t for t in T if t[1] != ':instance' and (t[2] in set(x[0] for x in T) or (g._top is not None and t[2] == g._top))]:
        fails.append(('edges', f'edges() is not the non-instance triples whose target is a variable: {E!r}'))
    if g.variables() != vs:
        fails.append(('edges', f'variables() = {g.variables()!r}, expected sources + explicit top {vs!r}'))
    # ---- implicit top
    want_top = spec['top'] if spec['top'] is not None else (T[0][0] if T else None)
    if g.top != want_top:
        fails.append(('top', f'top = {g.top!r}, expected {want_top!r}'))
    # ---- reentrancies vs an independent in-degree count
    cnt = collections.Counter()
    if want_top is not None:
        cnt[want_top] += 1
    for t in T:
        if t[1] != ':instance' and t[2] in vs:
            cnt[t[2]] += 1
    want_re = {v: c - 1 for v, c in cnt.items() if c >= 2}
    re_ = g.reentrancies()
    if re_ != want_re:
        fails.append(('reentrancy', f'reentrancies() = {re_!r}, in-degree count gives {want_re!r}'))
    reqs.append([1, gw])
    exp.append(('queries', [e_atom(g.top), sorted(map(repr, g.variables())), [e_triple(x) for x in I],
                            [e_triple(x) for x in E], [e_triple(x) for x in A],
                            [[e_atom(k), v] for k, v in re_.items()]]))
    # ---- filters
    for (s, r, t) in filters:
        fe, fa = g.edges(s, r, t), g.attributes(s, r, t)
        ft = g._filter_triples(s, r, t)
        p = sel(s, r, t)
        if [tuple(x) for x in fe] != [x for x in want['E'] if p(x)] or [tuple(x) for x in fa] != [x for x in want['A'] if p(x)]:
            fails.append(('filter', f'edges/attributes({s!r},{r!r},{t!r}) do not select exactly the matching sub-list: {fe!r} {fa!r}'))
        if ft != [x for x in T if p(x)]:
            fails.append(('filter', f'_filter_triples({s!r},{r!r},{t!r}) = {ft!r}'))
        reqs.append([2, gw, e_opt(e_atom, s), e_opt(e_str, r), e_opt(e_atom, t)])
        exp.append(('filtered', [[e_triple(x) for x in fe], [e_triple(x) for x in fa], [e_triple(x) for x in ft]]))
    # ---- top setter
    for v in (None, 'a', 'b', 'x', 'z'):
        h = build(spec)
        before = canon(h)
        try:
            h.top = v
            res = ('ok', e_graph(h))
            if not (v is None or v in vs):
                fails.append(('set-top', f'g.top = {v!r} accepted although {v!r} is not a variable of the graph'))
            if h._top != v or h.top != (v if v is not None else (T[0][0] if T else None)):
                fails.append(('set-top', f'after g.top = {v!r}: _top={h._top!r} top={h.top!r}'))
            after = canon(h)
            after['top'] = before['top']
            if after != before:
                fails.append(('set-top', f'g.top = {v!r} changed something besides _top'))
        except GraphError:
            res = ('GraphError', None)
            if v is None or v in vs:
                fails.append(('set-top', f'g.top = {v!r} refused although it is a variable'))
            if canon(h) != before:
                fails.append(('set-top', f'refused g.top = {v!r} changed the graph'))
        reqs.append([3, gw, e_atom(v)])
        exp.append(('settop', [0, res[1]] if res[0] == 'ok' else [6]))
    stats = {'single:len%d' % len(T): 1, 'single:explicit-top' if spec['top'] is not None else 'single:implicit-top': 1}
    if len(set(T)) < len(T):
        stats['single:with-duplicates'] = 1
    if any(t[1] == ':instance' and t[2] in vs for t in T):
        stats['single:concept-equals-variable'] = 1
    if re_:
        stats['single:has-reentrancy'] = 1
    return fails, reqs, exp, stats


# ---------------------------------------------------------------- pairs

def check_union(fails, a_before, b, u, a_epi_keys, a_epi, what):
    """laws for a union result u of (state a_before of the left operand, b)."""
    at = a_before
    added = [t for t in b.triples if t not in at]
    if u.triples != at + added:
        fails.append(('union', f'{what}: triples {u.triples!r} are not a.triples followed by the triples of b not in a, in order'))
        return
    keys = list(u.epidata)
    if keys[:len(a_epi_keys)] != a_epi_keys:
        fails.append(('union', f'{what}: the epidata keys of the left operand moved'))
    if set(keys) != set(a_epi_keys) | set(b.epidata):
        fails.append(('union', f'{what}: epidata keys are not those of a plus those of b'))
    for t in added:
        if t in b.epidata and [common.canon_epi(e) for e in u.epidata.get(t, ())] != [common.canon_epi(e) for e in b.epidata[t]]:
            fails.append(('union', f'{what}: added triple {t!r} did not bring its markers'))
        if t not in b.epidata and t not in a_epi and t in u.epidata:
            fails.append(('union', f'{what}: added triple {t!r} got markers from nowhere'))
    for t in a_epi_keys:
        got = [common.canon_epi(e) for e in u.epidata.get(t, ())]
        ok = [a_epi[t]] + ([[common.canon_epi(e) for e in b.epidata[t]]] if t in b.epidata else [])
        if got not in ok:
            fails.append(('union', f'{what}: markers of {t!r} of the left operand changed'))


def check_difference(fails, a_triples, a_top, a_epi_items, b, d, what):
    rest = [t for t in a_triples if t not in b.triples]
    if d.triples != rest:
        fails.append(('difference', f'{what}: triples {d.triples!r} are not a.triples without those of b, in order'))
        return
    want_e = [(k, v) for k, v in a_epi_items if k not in b.triples]
    if [(k, [common.canon_epi(e) for e in v]) for k, v in d.epidata.items()] != want_e:
        fails.append(('difference', f'{what}: epidata is not that of the left operand minus the removed triples'))
    occurs = a_top is not None and any(a_top == t[0] or a_top == t[2] for t in rest)
    want_top = a_top if occurs else None
    if d._top != want_top:
        fails.append(('difference', f'{what}: _top = {d._top!r}; explicit top {a_top!r} '
                      + ('still occurs in a remaining triple' if occurs else 'no longer occurs in any remaining triple')))


def scribble(g):
    """mutate every container of g"""
    from penman.layout import POP
    g.triples.append(('q', ':q', 'q'))
    g.metadata['scribble'] = 'x'
    for v in g.epidata.values():
        v.append(POP)
    g.epidata[('q', ':q', 'q')] = []


def pair_case(sa, sb):
    fails, reqs, exp, stats = [], [], [], {}
    a, b = build(sa), build(sb)
    ca, cb = canon(a), canon(b)
    aw, bw = e_graph(a), e_graph(b)
    a_keys = list(a.epidata)
    a_epi = {k: [common.canon_epi(e) for e in v] for k, v in a.epidata.items()}
    a_items = list(a_epi.items())
    at = list(a.triples)
    # ---- a | b
    u = a | b
    if canon(a) != ca or canon(b) != cb:
        fails.append(('operand-mutated', 'a | b changed an operand'))
    if u is a or u is b:
        fails.append(('operand-mutated', 'a | b returned an operand'))
    check_union(fails, at, b, u, a_keys, a_epi, 'a | b')
    if u.metadata != {}:
        fails.append(('union', f'a | b kept metadata {u.metadata!r}'))
    if u._top != a._top:
        fails.append(('union', f'a | b: _top {u._top!r} is not the left operand\'s {a._top!r}'))
    reqs.append([4, 0, aw, bw]); exp.append(('graph', e_graph(u)))
    if any(u.epidata[k] is b.epidata.get(k) for k in u.epidata):
        stats['pair:result-aliases-right-operand'] = 1
    uw = e_graph(u)
    # ---- a - b
    d = a - b
    if canon(a) != ca or canon(b) != cb:
        fails.append(('operand-mutated', 'a - b changed an operand'))
    if d is a or d is b:
        fails.append(('operand-mutated', 'a - b returned an operand'))
    check_difference(fails, at, a._top, a_items, b, d, 'a - b')
    if d.metadata != {}:
        fails.append(('difference', f'a - b kept metadata {d.metadata!r}'))
    reqs.append([4, 2, aw, bw]); exp.append(('graph', e_graph(d)))
    dw = e_graph(d)
    n_removed = len(at) - len(d.triples)
    d_top = d._top
    # ---- set laws
    if not set((u - b).triples) <= set(at):
        fails.append(('union', '(a | b) - b is not a subset of a'))
    if not set((d | b).triples) >= set(at):
        fails.append(('difference', '(a - b) | b is not a superset of a'))
    if (a | a).triples != at or not ((a | a) == a):
        fails.append(('union', 'a | a differs from a'))
    if (a - a).triples != []:
        fails.append(('difference', 'a - a is not empty'))
    if set((a | b).triples) != set((b | a).triples):
        fails.append(('union', 'a | b and b | a differ as sets'))
    if canon(a) != ca or canon(b) != cb:
        fails.append(('operand-mutated', 'a pure operation changed an operand'))
    # ---- results are independent objects of the LEFT operand (deep copy)
    scribble(d)
    u2 = a | b
    scribble(u2)
    b_after = canon(b)
    if canon(a) != ca:
        fails.append(('operand-mutated', 'mutating the result of a | b or a - b changed the left operand (no deep copy)'))
    if b_after != cb:
        stats['pair:scribble-on-result-reaches-right-operand'] = 1
        b = build(sb)
    # ---- in-place forms
    a2 = build(sa)
    r = operator.ior(a2, b)
    if r is not a2:
        fails.append(('union', 'a |= b did not return the left operand'))
    if canon(b) != cb:
        fails.append(('operand-mutated', 'a |= b changed the right operand'))
    check_union(fails, at, b, a2, a_keys, a_epi, 'a |= b')
    if a2.metadata != a.metadata or a2._top != a._top:
        fails.append(('union', 'a |= b changed metadata or _top'))
    got = e_graph(a2)
    if got[:3] != uw[:3]:
        fails.append(('union', 'a |= b and a | b differ in triples/top/epidata'))
    reqs.append([4, 1, aw, bw]); exp.append(('graph', got))
    a3 = build(sa)
    r = operator.isub(a3, b)
    if r is not a3:
        fails.append(('difference', 'a -= b did not return the left operand'))
    if canon(b) != cb:
        fails.append(('operand-mutated', 'a -= b changed the right operand'))
    check_difference(fails, at, a._top, a_items, b, a3, 'a -= b')
    if a3.metadata != a.metadata:
        fails.append(('difference', 'a -= b changed metadata'))
    got = e_graph(a3)
    if got[:3] != dw[:3]:
        fails.append(('difference', 'a -= b and a - b differ in triples/top/epidata'))
    reqs.append([4, 3, aw, bw]); exp.append(('graph', got))
    # ---- ==
    eq = (a == b)
    want_eq = a.top == b.top and len(a.triples) == len(b.triples) and set(a.triples) == set(b.triples)
    if eq != want_eq:
        fails.append(('union', f'a == b is {eq!r}'))
    reqs.append([5, aw, bw]); exp.append(('bool', 1 if eq else 0))
    added = [t for t in b.triples if t not in at]
    stats['pair:added%d' % min(len(added), 3)] = 1
    stats['pair:removed%d' % min(n_removed, 3)] = 1
    if a._top is not None and d_top is None:
        stats['pair:top-dropped'] = 1
    if a._top is not None and d_top is not None and n_removed:
        stats['pair:top-kept-after-removal'] = 1
    if any(t in b.epidata for t in added):
        stats['pair:markers-carried'] = 1
    if len(added) > len(set(added)):
        stats['pair:duplicate-added'] = 1
    return fails, reqs, exp, stats


# ---------------------------------------------------------------- sequences

def _queries(g):
    return (sorted(map(repr, g.variables())), list(map(tuple, g.instances())), list(map(tuple, g.edges())),
            list(map(tuple, g.attributes())), sorted(g.reentrancies().items(), key=repr), g.top)


def seq_case(start, ops):
    fails, reqs, exp, stats = [], [], [], {}
    cur = build(start)
    S = set(cur.triples)
    gw = e_graph(cur)
    wops, states, operands = [], [], []
    _queries(cur)        # history: queries BEFORE the operations (a result cached here must not survive them)
    for code, sb in ops:
        b = build(sb)
        cb = canon(b)
        wops.append([code, e_graph(b)])
        operands.append((b, cb))
        prev, cprev = cur, canon(cur)
        if code == 0:
            cur = cur | b
        elif code == 1:
            cur = operator.ior(cur, b)
        elif code == 2:
            cur = cur - b
        else:
            cur = operator.isub(cur, b)
        if code in (0, 2) and (cur is prev or canon(prev) != cprev):
            fails.append(('operand-mutated', f'{OPNAMES[code]} changed its left operand in a sequence'))
        if code in (1, 3) and cur is not prev:
            fails.append(('operand-mutated', f'{OPNAMES[code]} did not work in place'))
        if canon(b) != cb:
            fails.append(('operand-mutated', f'{OPNAMES[code]} changed its right operand in a sequence'))
        S = (S | set(b.triples)) if code < 2 else (S - set(b.triples))
        if set(cur.triples) != S:
            fails.append(('union' if code < 2 else 'difference',
                          f'after {len(states) + 1} operations the triple set {sorted(map(repr, set(cur.triples)))} is not the set-algebra value {sorted(map(repr, S))}'))
        states.append(e_graph(cur))
    for k, (b, cb) in enumerate(operands):
        if canon(b) != cb:     # aliasing: a LATER operation on the result reached an EARLIER right operand
            fails.append(('operand-mutated', f'the right operand of operation {k + 1} was changed by a later operation of the sequence'))
            break
    from penman.graph import Graph
    fresh = Graph(list(cur.triples), top=cur._top, epidata=cur.epidata)
    if _queries(cur) != _queries(fresh):
        fails.append(('history', 'queries on a graph after a sequence of operations differ from the same queries on a freshly '
                                 f'built graph with the same triples and top: {_queries(cur)} vs {_queries(fresh)}'))
    reqs.append([7, gw, wops])
    exp.append(('graphs', states))
    stats['seq:len%d' % len(ops)] = 1
    return fails, reqs, exp, stats


# ---------------------------------------------------------------- chunk worker

def cpu_timed(fn, *args, seconds=20.0):
    """Like common.timed, but the alarm counts CPU time of this process (a busy machine is not a
    hang); a generous wall-clock alarm stays around it for calls that block without computing."""
    def inner():
        old = signal.signal(signal.SIGPROF, common._alarm)
        signal.setitimer(signal.ITIMER_PROF, seconds)
        try:
            return fn(*args)
        finally:
            signal.setitimer(signal.ITIMER_PROF, 0)
            signal.signal(signal.SIGPROF, old)
    return common.timed(inner, seconds=60 * seconds)


def work(chunk):
    """chunk = (kind, [args...]) ; runs the implementation + oracle + the extracted model."""
    common.use_repo()
    exe, kind, items = chunk
    fn = {'single': single_case, 'pair': pair_case, 'seq': seq_case}[kind]
    allreq, allexp, owner = [], [], []
    out_fails, stats = [], collections.Counter()
    for idx, args in enumerate(items):
        try:
            fails, reqs, exp, st = cpu_timed(fn, *args, seconds=20)
        except common.Timeout:
            out_fails.append((idx, 'hang', 'the call does not terminate'))
            continue
        except Exception as e:          # an exception other than GraphError escaping the API
            out_fails.append((idx, 'exception', f'{type(e).__name__}: {e}'))
            continue
        for k, w in fails:
            out_fails.append((idx, k, w))
        stats.update(st)
        allreq += reqs
        allexp += exp
        owner += [idx] * len(reqs)
    outs = common._drv_worker((exe, [common.sx_dumps(r) for r in allreq])) if allreq else []
    mism = []
    for o, (ekind, e), idx in zip(outs, allexp, owner):
        got = common.sx_loads(o)
        if ekind == 'queries':
            got = list(got)
            got[1] = sorted(repr(d_atom(v)) for v in got[1])
        if got != e:
            mism.append((idx, ekind, e, got))
    return out_fails, mism, dict(stats), len(allreq)


def describe(kind, e, got):
    try:
        if kind == 'graph':
            return d_graph(e), d_graph(got)
        if kind == 'graphs':
            return [d_graph(x) for x in e], [d_graph(x) for x in got]
        if kind == 'settop':
            f = lambda v: 'GraphError' if v[0] == 6 else (d_graph(v[1]) if v[0] == 0 else v)
            return f(e), f(got)
    except Exception:
        pass
    return e, got


def case_of(kind, args):
    if kind == 'single':
        return {'kind': 'single', 'graph': args[0], 'filters': [list(f) for f in args[1]]}
    if kind == 'pair':
        return {'kind': 'pair', 'a': args[0], 'b': args[1]}
    return {'kind': 'seq', 'start': args[0], 'ops': [[c, s] for c, s in args[1]]}


def run_kind(chk, exe, kind, items, chunk=400):
    chunks = [(str(exe), kind, items[i:i + chunk]) for i in range(0, len(items), chunk)]
    res = common.pmap(work, chunks, chunk=1)
    for (exe_, k, its), (fails, mism, stats, nreq) in zip(chunks, res):
        chk.corr_cases += nreq
        for s, n in stats.items():
            chk.stat(s, n)
        for idx, key, what in fails:
            chk.fail(key, what, case_of(kind, its[idx]))
        for idx, ekind, e, got in mism:
            de, dg = describe(ekind, e, got)
            chk.mismatch(f'{kind}/{ekind} differs', case_of(kind, its[idx]), de, dg)


# ---------------------------------------------------------------- hash seeds

def hashseed_child():
    """stdin: JSON list of [a, b] specs -> stdout: JSON list of observable results."""
    common.use_repo()
    out = []
    for sa, sb in json.load(sys.stdin):
        a, b = build(sa), build(sb)
        u = a | b
        a2 = build(sa)
        a2 |= b
        d = a - b
        out.append([canon(u), canon(a2), canon(d), str(u), sorted(map(repr, a.variables())), list(a.reentrancies().items())])
    json.dump(out, sys.stdout)


def run_hashseed(chk, pairs):
    outs = []
    for seed in ('1', '2'):
        env = dict(os.environ, PYTHONHASHSEED=seed, PYTHONPATH=f'{common.REPO}:{common.VERIF}')
        p = subprocess.run([sys.executable, '-c', 'from harness import c15; c15.hashseed_child()'],
                           input=json.dumps(pairs), capture_output=True, text=True, env=env, timeout=600,
                           cwd=str(common.VERIF))
        if p.returncode:
            raise common.BuildError('hash-seed child failed: ' + p.stderr[-1500:])
        outs.append(json.loads(p.stdout))
    for (sa, sb), x, y in zip(pairs, outs[0], outs[1]):
        chk.count(None)
        if x != y:
            which = [n for n, p, q in zip(['a | b', 'a |= b', 'a - b', 'str(a | b)', 'variables', 'reentrancies'], x, y) if p != q]
            chk.fail('hashseed', f'{", ".join(which)} differ between PYTHONHASHSEED=1 and 2 (epidata key order)',
                     {'kind': 'hashseed', 'a': sa, 'b': sb})
    chk.stat('hashseed:pairs', len(pairs))


# ---------------------------------------------------------------- driver

def pick_filters(rng, n_triples):
    allf = [(s, r, t) for s in F_SRC for r in F_ROLE for t in F_TGT]
    if n_triples <= 1:
        return allf
    return [(None, None, None)] + rng.sample(allf, 5)


def run(chk):
    chk.rule = ('graphs = EVERY list of <=3 raw triples over sources {a,b} x roles {:instance,:R,R} x targets '
                '{a,b,x,None} (duplicates included) x explicit top {None,a,b,z}; thorough adds every list of 4 triples '
                'over the 16 triples the constructor can produce x tops, plus 40k random raw lists of 4; each graph gets '
                'random epidata (Push/POP/alignment lists, shuffled key order, sometimes a key that is not a triple) and '
                'metadata; filters (s,r,t) over {None,a,b,z}x{None,:instance,:R,R,:X}x{None,a,b,x,z} (all 100 for graphs '
                'of <=1 triple, 6 otherwise); top assignments {None,a,b,x,z}; pairs = all pairs of graphs with <=1 '
                'triple (x tops) + a seeded random subsample (40k quick / 300k thorough) of the full product, 60% with '
                'forced overlap; sequences of 1..4 operations from | |= - -= (15k / 100k); 300 / 1500 unions compared '
                'under PYTHONHASHSEED 1 and 2. A case is distinct per (kind, spec); non-trivial when a graph has a triple')
    chk.require_theorems('Properties.C15', THEOREMS)
    common.use_repo()
    exe = common.build_driver('graph')
    rng = chk.rng
    quick = chk.tier == 'quick'
    maxlen = 3 if quick else 4

    # ---- single graphs: bounded-exhaustive
    singles = []

    def add_single(ts, top):
        singles.append((mk_spec(rng, ts, top), pick_filters(rng, len(ts))))
        chk.count(('single', tuple(ts), top), nontrivial=len(ts) > 0)
    for n in range(4):
        for ts in itertools.product(RAW, repeat=n):
            for top in TOPS:
                add_single(ts, top)
    if not quick:
        # length 4: exhaustive over the 16 triples the constructor can produce (R and :R coincide
        # after construction; the colon-less spelling is covered exhaustively up to length 3) + raw sample
        for ts in itertools.product(NORM, repeat=4):
            for top in TOPS:
                add_single(ts, top)
        for _ in range(40000):
            add_single(tuple(rng.choice(RAW) for _ in range(4)), rng.choice(TOPS))
    # ---- roles that contain one another (':R' inside ':R-of', ':op1' inside ':op10'): a filter selects by EQUALITY
    sub_roles = [':R', ':R-of', ':op1', ':op10', ':R-of-of', 'R-of', ':instance', ':instance-of']
    for _ in range(1500 if quick else 15000):
        ts = tuple((rng.choice(SRC), rng.choice(sub_roles), rng.choice(TGT)) for _ in range(rng.randint(1, 5)))
        fs = [(rng.choice([None, None, 'a']), norm_role(rng.choice(ts)[1]) if rng.random() < .7 else rng.choice(sub_roles),
               rng.choice([None, None, 'b'])) for _ in range(6)]
        singles.append((mk_spec(rng, ts, rng.choice(TOPS)), fs))
        chk.count(('single-subroles', ts), nontrivial=True)
    for s in singles[100:20000:4001]:
        chk.sample(case_of('single', s))
    run_kind(chk, exe, 'single', singles, chunk=500)
    chk.exhaustive = True

    # ---- pairs
    pairs = []
    small = [ts for n in (0, 1) for ts in itertools.product(NORM, repeat=n)]
    for ta in small:
        for tb in small:
            for topa in TOPS:
                for topb in TOPS:
                    pairs.append((mk_spec(rng, ta, topa), mk_spec(rng, tb, topb)))
    nrand = 40000 if quick else 300000
    for _ in range(nrand):
        ta, tb = rand_list(rng, maxlen), rand_list(rng, maxlen)
        if rng.random() < .6 and ta:                       # overlap on purpose
            tb = [rng.choice(ta) if rng.random() < .6 else t for t in tb + [rng.choice(RAW)]][:maxlen]
        pairs.append((mk_spec(rng, ta, rng.choice(TOPS)), mk_spec(rng, tb, rng.choice(TOPS))))
    for p in pairs:
        chk.count(('pair', json.dumps(p, sort_keys=True)), nontrivial=bool(p[0]['triples'] or p[1]['triples']))
    for p in pairs[5000:5003]:
        chk.sample(case_of('pair', p))
    run_kind(chk, exe, 'pair', pairs, chunk=300)

    # ---- sequences
    seqs = []
    nseq = 15000 if quick else 100000
    for _ in range(nseq):
        start = mk_spec(rng, rand_list(rng, maxlen) if rng.random() > .15 else [], rng.choice(TOPS))   # 15%: an EMPTY left operand
        ops = [(rng.randrange(4), mk_spec(rng, rand_list(rng, 3), rng.choice(TOPS))) for _ in range(rng.randint(1, 4))]
        seqs.append((start, ops))
        chk.count(('seq', json.dumps([start, ops], sort_keys=True)))
    chk.sample(case_of('seq', seqs[0]))
    run_kind(chk, exe, 'seq', seqs, chunk=300)

    # ---- union under two hash seeds (F15 must not come back)
    hp = []
    for _ in range(300 if quick else 1500):
        ta = rand_list(rng, 2, NORM)
        tb = rng.sample(NORM, rng.randint(2, 5))
        sb = mk_spec(rng, tb, rng.choice(TOPS))
        keys = list(tb)
        rng.shuffle(keys)
        sb['epidata'] = [[list(k), [rng.choice(MARKERS)]] for k in keys]
        hp.append([mk_spec(rng, ta, rng.choice(TOPS)), sb])
    run_hashseed(chk, hp)
    chk.notes.append('a | b and a |= b store the SAME marker list objects as the right operand '
                     '(epidata.update overwrites the copies): counted as pair:result-aliases-right-operand; '
                     'operands are equal before/after the operation itself')


# ---------------------------------------------------------------- replay

def replay(obj):
    common.use_repo()
    case = obj.get('case') or {}
    print('replay:', obj.get('what'))
    kind = case.get('kind')
    show = lambda g: print('   ', json.dumps(canon(g), default=str))
    if kind == 'single':
        g = build(case['graph'])
        show(g)
        print('  top', g.top, 'variables', sorted(map(repr, g.variables())))
        print('  instances ', g.instances())
        print('  edges     ', g.edges())
        print('  attributes', g.attributes())
        print('  reentrancies', g.reentrancies())
        for f in case.get('filters', [])[:6]:
            print('  filter', f, g.edges(*f), g.attributes(*f))
        for v in (None, 'a', 'b', 'x', 'z'):
            h = build(case['graph'])
            try:
                h.top = v
                print('  top =', repr(v), 'accepted')
            except Exception as e:
                print('  top =', repr(v), type(e).__name__)
    elif kind in ('pair', 'hashseed'):
        a, b = build(case['a']), build(case['b'])
        print('  a'); show(a); print('  b'); show(b)
        print('  a | b'); show(a | b)
        print('  a - b'); show(a - b)
        print('  operands afterwards'); show(a); show(b)
        a2 = build(case['a']); a2 |= b
        print('  a |= b'); show(a2)
        a3 = build(case['a']); a3 -= b
        print('  a -= b'); show(a3)
        if kind == 'hashseed':
            for seed in ('1', '2'):
                env = dict(os.environ, PYTHONHASHSEED=seed, PYTHONPATH=f'{common.REPO}:{common.VERIF}')
                p = subprocess.run([sys.executable, '-c', 'from harness import c15; c15.hashseed_child()'],
                                   input=json.dumps([[case['a'], case['b']]]), capture_output=True, text=True,
                                   env=env, cwd=str(common.VERIF))
                print(f'  PYTHONHASHSEED={seed}: epidata keys of a|b:', [k for k, _ in json.loads(p.stdout)[0][0]['epidata']])
    elif kind == 'seq':
        cur = build(case['start'])
        show(cur)
        for code, sb in case['ops']:
            b = build(sb)
            cur = [operator.or_, operator.ior, operator.sub, operator.isub][code](cur, b)
            print('  ', OPNAMES[code]); show(b); print('   ->'); show(cur)
    return 0
