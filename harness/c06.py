"""C06 — layout markers shape the text but never its content; encoding is total.

proof:          coq/Properties/C06.v (termination of configure for all triple lists and all
                marker assignments, only LayoutErr escapes, every triple placed exactly once,
                disconnected => error)
correspondence: Impl.Configure.configure (extracted, driver 'core' cmd 5) vs
                penman.layout.configure on every generated graph incl. the ill-formed ones:
                the tree, or WHICH LayoutError
oracle:         penman.encode under an alarm; only str / LayoutError may come out; an INDEPENDENT
                reading of the triple list (own variable set, own well-formedness test, own
                union-find connectivity, own role algebra from the model TABLE) says whether
                encoding must succeed (then decode(encode(g)) must be the same graph: top,
                variables, triples as multisets up to the model's single deinversion, constants by
                their written form; the tree has exactly one node per variable and one branch per
                non-instance triple) or must fail with LayoutError.

This module also hosts the machinery shared with harness/c03.py (same development).
"""
import collections
import copy
import hashlib
import itertools
import json
import os
import pickle
import random
import re
import signal
import subprocess
import time

from harness import common, gen, models
from harness.common import timed, Timeout

THEOREMS = ['C06_terminates_and_only_layout_error', 'C06_fuel_suffices', 'C06_loop_fuel',
            'C06_places_each_triple_once', 'C06_content_independent_of_markers', 'C06_connected_implies_success',
            'C06_error_implies_disconnected', 'C06_success_implies_connected', 'C06_disconnected_implies_error',
            'C06_bad_top_is_layout_error', 'C06_markers_never_change_content', 'C06_hypotheses_satisfiable',
            'C06_F14_witness_one_node_per_variable', 'C06_disconnected_and_bad_top_are_layout_errors',
            'C06_connected_hypotheses_satisfiable']

HANG_S = 5.0        # wall-clock alarm (cheap first attempt)
HANG_CPU_S = 20.0   # CPU-time budget of the second attempt: only a call that BURNS this much is a hang
INSTANCE = ':instance'
MODEL_NAMES = ['default', 'amr', 'mini', 'noop']

def _cpu_alarm(signum, frame):
    raise Timeout()


_FAST = [False]     # set once enough CONFIRMED hangs exist in this run (all worker processes together)
HANG_BUDGET = 6     # confirmed hangs after which every further call gets only a 1 s wall-clock alarm
HANG_STOP = 12      # confirmed hangs after which the remaining work items are skipped (the verdict is settled)


def confirmed_hangs():
    p = os.environ.get('C06_HANG_FILE')
    try:
        return os.path.getsize(p) if p else 0
    except OSError:
        return 0


def _note_hang():
    p = os.environ.get('C06_HANG_FILE')
    if p:
        with open(p, 'ab') as f:
            f.write(b'h')


def guarded(fn, *args):
    """fn(*args) under the wall-clock alarm; if that fires (the box may simply be overloaded), run the call
    again under a CPU-time budget (ITIMER_PROF): Timeout only when the call really consumes HANG_CPU_S.
    Confirmed hangs are counted across all worker processes; after HANG_BUDGET of them a non-terminating call is
    an established fact of this run and every further call is cut after 1 s instead of 25 s."""
    if _FAST[0]:
        return timed(fn, *args, seconds=1.0)
    try:
        return timed(fn, *args, seconds=HANG_S)
    except Timeout:
        if confirmed_hangs() >= HANG_BUDGET:
            _FAST[0] = True
            raise
    old = signal.signal(signal.SIGPROF, _cpu_alarm)
    signal.setitimer(signal.ITIMER_PROF, HANG_CPU_S)
    try:
        return fn(*args)
    except Timeout:
        _note_hang()
        raise
    finally:
        signal.setitimer(signal.ITIMER_PROF, 0)
        signal.signal(signal.SIGPROF, old)


def settled():
    """True when the remaining work of this run can be skipped: non-termination is already established."""
    n = confirmed_hangs()
    if n >= HANG_BUDGET:
        _FAST[0] = True
    return n >= HANG_STOP


# ============================================================================================
# models: the TABLE is the independent description, the live Model is the implementation


class Info:
    pass


_INFO = {}


def model_info(name):
    """name -> Info(name, tbl, m (live penman Model), wm (wire text or None), roles, inv_roles)."""
    if name in _INFO:
        return _INFO[name]
    common.use_repo()
    tbl = {'default': models.DEFAULT, 'noop': models.NOOP, 'mini': models.MINI_AMR}.get(name)
    if tbl is None:
        tbl = models.amr_table()
    inf = Info()
    inf.name, inf.tbl = name, tbl
    inf.m = models.impl_model(tbl, live_amr=(name == 'amr'))
    try:
        inf.wm = common.sx_dumps(models.wire_model(tbl))
    except ValueError:                       # role pattern outside the restricted class: no correspondence
        inf.wm = None
    base = [':ARG0', ':ARG1', ':op1', ':op2', ':op10', ':mod', ':domain', ':quant', ':polarity',
            ':consist-of', ':accompanier', ':ARG2-OF', ':Part-Of']
    inf.roles = [r for r in base if edge_role_ok(tbl, r)]
    inf.inv_roles = [r + '-of' for r in inf.roles[:4]]
    # the table reading of invertedness must be the implementation's (else the oracle would be about another model)
    for r in inf.roles + inf.inv_roles + [':ARG0-of-of', ':instance', ':TOP', ':', ':-of']:
        if inf.m.is_role_inverted(r) != inverted(tbl, r) or inf.m.invert_role(r) != inv_role(tbl, r):
            raise common.BuildError(f'model table {name} and live model disagree on role {r!r}')
    _INFO[name] = inf
    return inf


def inverted(tbl, r):
    return r.endswith('-of') and not models.defined(tbl, r)


def inv_role(tbl, r):
    return r[:-3] if inverted(tbl, r) else r + '-of'


ROLE_RE = re.compile(r'^:[A-Za-z0-9][A-Za-z0-9\-]*$')
VAR_RE = re.compile(r'^[a-z][a-z0-9]*$')
SYM_RE = re.compile(r'^[A-Za-z0-9_+.\-]+$')
STR_RE = re.compile(r'^"[^"\\\n]*"$')


def edge_role_ok(tbl, r):
    """Inverting and de-inverting the role is the identity under this model (statement: 'up to the
    model's SINGLE deinversion'): r plain with r-of inverted, or r = b-of inverted with b plain."""
    if not ROLE_RE.match(r):
        return False
    if inverted(tbl, r):
        b = r[:-3]
        return bool(ROLE_RE.match(b)) and not inverted(tbl, b) and b not in (INSTANCE, ':TOP')
    return inverted(tbl, r + '-of') and r not in (INSTANCE, ':TOP')


def deinvert_once(tbl, t):
    if tbl['noop'] or not inverted(tbl, t[1]):
        return t
    return (t[2], t[1][:-3], t[0])


def orient(tbl, t):
    """The spelling of an edge whose role is not inverted (used for the no-op model only, which keeps
    whatever orientation the layout wrote)."""
    return (t[2], t[1][:-3], t[0]) if inverted(tbl, t[1]) else t


# ============================================================================================
# the independent reading of a triple list


def ensure_colon(r):
    return r if r.startswith(':') else ':' + r


def strform(a):
    """The written form of a constant as decode returns it."""
    if a is None or a == '' and isinstance(a, str):
        return None
    if isinstance(a, str):
        return a
    return str(a)


def is_num(a):
    return type(a) in (int, float)


def target_ok(t, concept=False):
    if t is None:
        return True
    if isinstance(t, str):
        return t == '' or bool(SYM_RE.match(t)) or bool(STR_RE.match(t))
    if is_num(t):
        return t == t and abs(t) != float('inf')
    return False


def facts(tbl, triples, top, gtop, push_vars=()):
    """Everything the oracle knows about (triples, requested top, explicit graph top, pushed names)."""
    ts = [(s, ensure_colon(r), t) for s, r, t in triples]
    variables = set(s for s, _, _ in ts)
    if gtop is not None:
        variables.add(gtop)
    eff_top = top if top is not None else (gtop if gtop is not None else (ts[0][0] if ts else None))
    keys = set((common.atom_key(s), r, common.atom_key(t)) for s, r, t in ts)
    wf = (all(isinstance(v, str) and VAR_RE.match(v) for v in variables)
          and len(keys) == len(ts))
    if wf:
        ninst = collections.Counter(s for s, r, _ in ts if r == INSTANCE)
        wf = all(ninst.get(v, 0) == 1 for v in variables)
    if wf:
        for s, r, t in ts:
            if r == INSTANCE:
                if not target_ok(t, concept=True):
                    wf = False
            elif not (edge_role_ok(tbl, r) and target_ok(t)):
                wf = False
    # union-find over the variables along non-instance triples whose target is a variable
    parent = {v: v for v in variables}

    def find(x):
        while parent[x] != x:
            parent[x] = parent[parent[x]]
            x = parent[x]
        return x
    for s, r, t in ts:
        if r != INSTANCE and t in parent:
            a, b = find(s), find(t)
            if a != b:
                parent[a] = b
    top_is_var = eff_top in variables
    connected = top_is_var and all(find(v) == find(eff_top) for v in variables)
    pushes_ok = all(v in variables for v in push_vars)
    if not ts:
        verdict = 'any'
    elif wf and pushes_ok:
        verdict = 'must-succeed' if connected else 'must-error'
    else:
        verdict = 'any'
    return {'ts': ts, 'variables': variables, 'top': eff_top, 'wf': wf, 'connected': connected,
            'top_is_var': top_is_var, 'pushes_ok': pushes_ok, 'verdict': verdict}


def expected_triples(tbl, ts, variables):
    """What decode(encode(g)) must contain, as a multiset."""
    out = collections.Counter()
    for s, r, t in ts:
        if r == INSTANCE:
            out[(s, r, strform(t))] += 1
        elif t in variables:
            out[orient(tbl, (s, r, t)) if tbl['noop'] else deinvert_once(tbl, (s, r, t))] += 1
        else:
            out[(s, r, strform(t))] += 1
    return out


def observed_triples(tbl, triples2, variables2):
    if not tbl['noop']:
        return collections.Counter(triples2)
    out = collections.Counter()
    for t in triples2:
        out[orient(tbl, t) if (t[1] != INSTANCE and t[2] in variables2) else t] += 1
    return out


def walk_nodes(node, out=None):
    """Own walk over a tree node: list of (var, n_instance_branches, n_other_branches)."""
    if out is None:
        out = []
    var, branches = node
    out.append((var, sum(1 for r, _ in branches if r == '/'), sum(1 for r, _ in branches if r != '/')))
    for _, tgt in branches:
        if isinstance(tgt, tuple):
            walk_nodes(tgt, out)
    return out


# ============================================================================================
# markers, graphs, cases (JSON-serialisable)

def mk_marker(spec, fresh=False):
    from penman.layout import Push, Pop, POP
    if spec == 'POP':
        return Pop() if fresh else POP
    assert spec.startswith('Push(') and spec.endswith(')'), spec
    return Push(spec[5:-1])


def marker_repr(e):
    from penman.layout import Push, Pop
    if isinstance(e, Push):
        return 'Push(%s)' % (e.variable,)
    if isinstance(e, Pop):
        return 'POP'
    return repr(e)


def push_vars_of(epi):
    return [m[5:-1] for _, ms in epi for m in ms if m != 'POP']


def make_case(stream, model, triples, top, gtop, epi, copy_mode=None, history=None):
    c = {'stream': stream, 'model': model, 'triples': [list(t) for t in triples], 'top': top, 'gtop': gtop,
         'epidata': [[list(t), list(ms)] for t, ms in epi if ms]}
    if copy_mode:
        c['copy'] = copy_mode
    if history:
        c['history'] = history
    return c


def build_graph(case):
    """case dict -> penman.Graph (markers are fresh objects; 'copy' = deepcopy | pickle)."""
    from penman.graph import Graph
    fresh = bool(case.get('copy'))
    epidata = {}
    for t, ms in case.get('epidata', []):
        epidata[tuple(t)] = [mk_marker(m, fresh) for m in ms]
    g = Graph([tuple(t) for t in case['triples']], top=case.get('gtop'), epidata=epidata)
    if case.get('copy') == 'deepcopy':
        g = copy.deepcopy(g)
    elif case.get('copy') == 'pickle':
        g = pickle.loads(pickle.dumps(g))
    return g


def graph_epi(g):
    """epidata of a penman graph as [(triple, [marker reprs])] keeping only layout markers."""
    from penman.layout import LayoutMarker
    return [(t, [marker_repr(e) for e in es if isinstance(e, LayoutMarker)]) for t, es in g.epidata.items()]


# ============================================================================================
# fast wire text (same bytes as common.sx_dumps(common.e_graph(g)); self-checked)

_TXT = {}
_selfcheck = [0]


def atom_txt(a):
    k = (a.__class__, str(a))                 # by text: -0.0 == 0.0 == 0 in python
    v = _TXT.get(k)
    if v is None:
        v = _TXT[k] = common.sx_dumps(common.e_atom(a))
    return v


def str_txt(s):
    k = ('s', s)
    v = _TXT.get(k)
    if v is None:
        v = _TXT[k] = common.sx_dumps(common.e_str(s))
    return v


def triple_txt(t):
    return '(%s %s %s)' % (atom_txt(t[0]), str_txt(t[1]), atom_txt(t[2]))


def opt_atom_txt(a):
    return '()' if a is None else '(%s)' % atom_txt(a)


def epi_txt(e):
    from penman.layout import Push, Pop
    if isinstance(e, Push):
        return '(0 %s)' % atom_txt(e.variable)
    if isinstance(e, Pop):
        return '(1)'
    return common.sx_dumps(common.e_epi(e))


def graph_txt(g):
    txt = '((%s) %s (%s) %s)' % (
        ' '.join(triple_txt(t) for t in g.triples), opt_atom_txt(g._top),
        ' '.join('(%s (%s))' % (triple_txt(t), ' '.join(epi_txt(e) for e in es)) for t, es in g.epidata.items()),
        common.sx_dumps(common.e_meta(g.metadata)) if g.metadata else '()')
    if _selfcheck[0] < 40:
        _selfcheck[0] += 1
        ref = common.sx_dumps(common.e_graph(g))
        if ref != txt:
            raise common.BuildError('fast wire encoder differs from common.e_graph:\n%s\n%s' % (txt, ref))
    return txt


def node_txt(node):
    var, branches = node
    return '(%s (%s))' % (atom_txt(var), ' '.join(
        '(%s %s)' % (str_txt(r), ('(1 %s)' % node_txt(t)) if isinstance(t, tuple) else ('(0 %s)' % atom_txt(t)))
        for r, t in branches))


def tree_txt(tree):
    return '(%s %s)' % (node_txt(tree.node), common.sx_dumps(common.e_meta(tree.metadata)) if tree.metadata else '()')


def drive(exe, lines):
    """One run of an extracted driver over pre-rendered request lines (own twin of common._drv_worker,
    usable inside pmap workers)."""
    if not lines:
        return []
    env = dict(os.environ, OCAMLRUNPARAM='l=4G')
    p = subprocess.run(['bash', '-c', f'ulimit -s unlimited 2>/dev/null; exec {exe}'],
                       input='\n'.join(lines) + '\n', capture_output=True, text=True, env=env)
    outs = p.stdout.split('\n')
    if outs and outs[-1] == '':
        outs.pop()
    if len(outs) != len(lines):
        raise common.BuildError(f'driver produced {len(outs)} results for {len(lines)} cases; stderr: {p.stderr[-2000:]}')
    return outs


def norm_node(n):
    var, bs = n
    return (common.atom_key(var), [(r, norm_node(t) if isinstance(t, tuple) else common.atom_key(t)) for r, t in bs])


LAYOUT_KINDS = [('possibly disconnected graph', 1), ('unknown configuration error', 2),
                ('incomplete configuration', 3), ('top is not a variable', 4)]
EXC_TAGS = {'StopIteration': 1, 'KeyError': 2, 'IndexError': 3, 'AssertionError': 4, 'ValueError': 5,
            'TypeError': 6, 'AttributeError': 7}


def layout_kind(e):
    msg = str(e)
    for text, k in LAYOUT_KINDS:
        if msg.startswith(text):
            return k
    return 0


def configure_outcome(g, top, m):
    """('ok', tree) | ('layout', k) | ('hang',) | ('exc', class name) of penman.layout.configure."""
    from penman.exceptions import LayoutError
    try:
        return ('ok', guarded(_configure, g, top, m))
    except Timeout:
        return ('hang',)
    except LayoutError as e:
        return ('layout', layout_kind(e))
    except Exception as e:                                         # noqa: BLE001
        return ('exc', type(e).__name__)


def _configure(g, top, m):
    from penman import layout
    return layout.configure(g, top=top, model=m)


def _encode(g, top, m):
    import penman
    return penman.encode(g, top=top, model=m)


def _decode(s, m):
    import penman
    return penman.decode(s, model=m)


def outcome_txt(cfg):
    if cfg[0] == 'ok':
        return '(0 %s)' % tree_txt(cfg[1])
    if cfg[0] == 'layout':
        return '(2 %d)' % cfg[1]
    if cfg[0] == 'exc':
        return '(7 %d)' % EXC_TAGS.get(cfg[1], 0)
    return '(hang)'


def canon_outcome(cfg):
    if cfg[0] == 'ok':
        return ['ok', norm_node(cfg[1].node), dict(cfg[1].metadata)]
    return list(cfg)


def canon_wire_outcome(v):
    if v and v[0] == 0:
        node, meta = common.d_tree(v[1])
        return ['ok', norm_node(node), meta]
    if v and v[0] == 2:
        return ['layout', v[1]]
    if v and v[0] == 7:
        return ['exc', {t: n for n, t in EXC_TAGS.items()}.get(v[1], v[1])]
    if v and v[0] == 8:
        return ['out-of-fuel']
    return ['wire', v]


def _jsonable(x):
    return json.loads(json.dumps(x, default=str))


class Batch:
    """Collects correspondence requests of one worker and diffs them in one driver run."""

    FLUSH = 20000

    def __init__(self, exe):
        self.exe = exe
        self.lines, self.expect = [], []
        self.total, self.mism = 0, []

    def add_configure(self, info, g, top, cfg, case):
        if self.exe is None or info.wm is None:
            return
        self.lines.append('(5 %s %s %s)' % (info.wm, graph_txt(g), opt_atom_txt(top)))
        self.expect.append((outcome_txt(cfg), 'configure', cfg, case))
        if len(self.lines) >= self.FLUSH:
            self.flush()

    def add_raw(self, line, expect_txt, what, canon_impl, case, canon_model):
        if self.exe is None:
            return
        self.lines.append(line)
        self.expect.append((expect_txt, what, (canon_impl, canon_model), case))

    def run(self):
        """-> (n requests, [mismatch dicts]) over everything queued since the batch was created"""
        self.flush()
        return self.total, self.mism

    def flush(self):
        if not self.lines:
            return
        outs = drive(self.exe, self.lines)
        mism = self.mism
        for (exp, what, payload, case), got in zip(self.expect, outs):
            if got == exp:
                continue
            v = common.sx_loads(got)
            if what == 'configure':
                ci, cm = canon_outcome(payload), canon_wire_outcome(v)
            else:
                ci, cm = payload[0], payload[1](v)
            if ci != cm:
                mism.append({'what': what + ' differs', 'case': case() if callable(case) else case,
                             'impl': _jsonable(ci), 'model': _jsonable(cm)})
        self.total += len(self.lines)
        del mism[8:]
        self.lines, self.expect = [], []


# ============================================================================================
# evaluating one case on the implementation

_DECODE_CACHE = {}


def decode_summary(info, s):
    """Everything the oracle looks at in decode(s) and parse(s); cached per (model, text)."""
    k = (info.name, s)
    v = _DECODE_CACHE.get(k)
    if v is not None:
        return v
    import penman
    try:
        g2 = guarded(_decode, s, info.m)
        variables2 = set(g2.variables())
        v = {'top': g2.top, 'variables': variables2,
             'triples': observed_triples(info.tbl, [tuple(t) for t in g2.triples], variables2),
             'edges': collections.Counter((t[0], t[1], t[2]) for t in g2.edges()),
             'attributes': collections.Counter((t[0], t[1], t[2]) for t in g2.attributes()),
             'nodes': walk_nodes(guarded(penman.parse, s).node)}
    except Timeout:
        v = {'error': 'decode/parse does not terminate'}
    except Exception as e:                                         # noqa: BLE001
        v = {'error': 'decode raised %s: %s' % (type(e).__name__, e)}
    if len(_DECODE_CACHE) > 200000:
        _DECODE_CACHE.clear()
    _DECODE_CACHE[k] = v
    return v


def check_tree_once(nodes, F, where):
    """nodes = walk_nodes(...): one node per variable, one branch per non-instance triple."""
    vars_seen = collections.Counter(v for v, _, _ in nodes)
    dup = [v for v, n in vars_seen.items() if n > 1]
    if dup:
        return f'{where}: variable(s) {dup} own more than one node'
    if set(vars_seen) != F['variables']:
        return f'{where}: nodes {sorted(map(str, vars_seen))} are not the variables {sorted(map(str, F["variables"]))}'
    nother = sum(1 for _, r, _ in F['ts'] if r != INSTANCE)
    got = sum(n for _, _, n in nodes)
    if got != nother:
        return f'{where}: {got} non-instance branches for {nother} non-instance triples'
    if any(i > 1 for _, i, _ in nodes):
        return f'{where}: a node has two concept branches'
    return None


def evaluate(info, g, top, F, exp=None, zero_key='content'):
    """Run encode / configure / decode on the implementation and judge them against the facts F.

    -> (outcome tag, [(failure key, text)], configure outcome, encoded text or None)"""
    from penman.exceptions import LayoutError
    fails = []
    s = None
    try:
        s = guarded(_encode, g, top, info.m)
        tag = 'ok' if isinstance(s, str) else 'not-a-string'
        if tag != 'ok':
            fails.append(('other-exception', f'encode returned {type(s).__name__}, not str'))
    except Timeout:
        tag = 'hang'
        fails.append(('hang', f'encode does not terminate ({HANG_S}s wall, then {HANG_CPU_S}s of CPU time)'))
    except LayoutError as e:
        tag = 'layout'
        err = str(e)
    except Exception as e:                                         # noqa: BLE001
        tag = 'exc'
        fails.append(('other-exception', f'encode raised {type(e).__name__}: {e}'))
    cfg = configure_outcome(g, top, info.m)
    if cfg[0] == 'hang' and tag != 'hang':
        fails.append(('hang', 'layout.configure does not terminate'))
    if cfg[0] == 'exc' and tag != 'exc':
        fails.append(('other-exception', f'layout.configure raised {cfg[1]}'))
    verdict = F['verdict']
    if verdict == 'must-error':
        if tag == 'ok':
            why = 'top is not a variable' if not F['top_is_var'] else 'some variable is not connected to the top'
            fails.append(('missing-error', f'{why} but encode succeeded: {s!r}'))
    elif verdict == 'must-succeed':
        if tag == 'layout':
            fails.append(('spurious-error', f'connected well-formed graph, top {F["top"]!r}: LayoutError({err})'))
        elif tag == 'ok':
            cf = check_content(info, s, F, exp, zero_key)
            if info.tbl['noop']:
                # the content clause is stated for deinverting models only; for the no-op model the
                # (orientation-insensitive) comparison is an extra that is counted, never a failure
                cf = [(('SOFT:noop-content' if k == 'content' else k), w) for k, w in cf]
            fails.extend(cf)
            if cfg[0] == 'ok':
                bad = check_tree_once(walk_nodes(cfg[1].node), F, 'configured tree')
                if bad:
                    fails.append(('not-once', bad))
    return tag, fails, cfg, s


def check_content(info, s, F, exp=None, zero_key='content'):
    fails = []
    tbl = info.tbl
    # constants equal to zero must be written (F5)
    for src, r, t in F['ts']:
        if is_num(t) and not t and r != INSTANCE and f'{r} {t!s}' not in s:
            fails.append((zero_key, f'constant {t!r} of {(src, r, t)!r} is not written: {s!r}'))
        if is_num(t) and not t and r == INSTANCE and f'/ {t!s}' not in s:
            fails.append(('concept-zero-dropped', f'concept {t!r} of {src!r} is not written: {s!r}'))
    d = decode_summary(info, s)
    if 'error' in d:
        fails.append(('content', f'{d["error"]} on the encoded text {s!r}'))
        return fails
    if d['top'] != F['top']:
        fails.append(('top', f'decoded top {d["top"]!r} is not the requested top {F["top"]!r}: {s!r}'))
    if d['variables'] != F['variables']:
        fails.append(('content', f'variables {sorted(map(str, d["variables"]))} != {sorted(map(str, F["variables"]))}: {s!r}'))
    if exp is None:
        exp = expected_triples(tbl, F['ts'], F['variables'])
    if d['triples'] != exp:
        missing = list((exp - d['triples']).elements())
        extra = list((d['triples'] - exp).elements())
        fails.append(('content', f'triples differ: missing {missing}, unexpected {extra}: {s!r}'))
    else:
        # same multiset: the edge/attribute split must also be the same (targets re-read as variables?)
        e_exp = sum(n for (a, r, b), n in exp.items() if r != INSTANCE and b in F['variables'])
        a_exp = sum(n for (a, r, b), n in exp.items() if r != INSTANCE and b not in F['variables'])
        if sum(d['edges'].values()) != e_exp or sum(d['attributes'].values()) != a_exp:
            fails.append(('content', f'edge/attribute classification changed: {s!r}'))
    bad = check_tree_once(d['nodes'], F, 'parsed text')
    if bad:
        fails.append(('not-once', bad + f': {s!r}'))
    return fails


# ============================================================================================
# results of a worker (merged by the parent)

class Result:
    def __init__(self):
        self.n = 0
        self.stats = collections.Counter()
        self.fails = []
        self.mism = []
        self.samples = []
        self.corr = 0
        self.keys = []

    def fail(self, key, what, case):
        if len(self.fails) < 12:
            self.fails.append((key, what, case() if callable(case) else case))
        self.stats['FAIL:' + key] += 1

    def pack(self):
        return {'n': self.n, 'stats': dict(self.stats), 'fails': self.fails, 'mism': self.mism[:5],
                'samples': self.samples[:2], 'corr': self.corr, 'keys': self.keys}


def zlib_crc(text):
    import zlib
    return zlib.crc32(text.encode()) & 0x7ff


def merge(chk, stream, idx, res):
    if res['keys']:
        for k in res['keys']:
            chk.count((stream, k))
    else:
        # cases of one work item are pairwise distinct by construction: (stream, item, ordinal) packed in an int
        base = (zlib_crc(stream) << 52) | (idx << 28)
        chk.evaluations += res['n']
        chk.distinct.update(range(base, base + res['n']))
    for k, v in res['stats'].items():
        if k.startswith('FAIL:'):
            continue
        chk.stat(k[1:] if k.startswith('@') else f'{stream}:{k}', v)
    for key, what, case in res['fails']:
        chk.fail(key, what, case)
    for mm in res['mism']:
        chk.mismatch(mm['what'], mm['case'], mm['impl'], mm['model'])
    for smp in res['samples']:
        if sum(1 for x in chk.samples if str(x.get('stream', '')).startswith(stream)) < 2:
            chk.sample(smp)
    chk.corr_cases += res['corr']


def primed_graph(triples, gtop, epi):
    """The same graph reached by IN-PLACE edits of a live object that was queried and serialised before: built with one
    variable spelled differently, asked for everything (variables, edges, ..., an encode), then given its final
    triples and markers through the public attributes.  Nothing remembered from before the edit may be used."""
    vs = sorted({t[0] for t in triples} - {gtop})
    if not vs:
        return None
    v = vs[len(triples) % len(vs)]
    ren = lambda x: 'zq9' if x == v else x      # noqa
    old = [(ren(a), r, ren(b) if r != ':instance' else b) for a, r, b in triples]
    g = build_graph({'triples': old, 'gtop': gtop, 'epidata': []})
    for q in (g.variables, g.edges, g.attributes, g.instances, g.reentrancies, lambda: g.top):
        q()
    try:
        guarded(_encode, g, None, None)
    except BaseException:       # noqa: only the side effects of the earlier calls matter
        pass
    final = build_graph({'triples': triples, 'gtop': gtop, 'epidata': epi})
    g.triples[:] = final.triples
    g.epidata.clear()
    g.epidata.update(final.epidata)
    return g


def judge(res, info, batch, stream, triples, top, gtop, epi, F=None, exp=None, copy_mode=None, history=None,
          zero_key='content', want_key=False, prime=False):
    """One complete case: build, evaluate, record, queue the correspondence request."""
    def case():
        return make_case(stream, info.name, triples, top, gtop, epi, copy_mode, history)
    if F is None:
        F = facts(info.tbl, triples, top, gtop, push_vars_of(epi))
    g = build_graph({'triples': triples, 'gtop': gtop, 'epidata': epi, 'copy': copy_mode})
    if prime and not copy_mode:
        g = primed_graph(triples, gtop, epi) or g
        res.stats[f'@{stream}:edited-in-place-after-queries'] += 1
    tag, fails, cfg, s = evaluate(info, g, top, F, exp, zero_key)
    res.n += 1
    res.stats[f'@{stream}:{F["verdict"]}/{tag}'] += 1
    if cfg[0] == 'layout':
        res.stats[f'@{stream}:layout-kind-{cfg[1]}'] += 1
    for key, what in fails:
        if key.startswith('SOFT:'):
            res.stats[f'@{stream}:{key[5:]}'] += 1
        else:
            res.fail(key, what, case)
    if want_key:
        res.keys.append(hashlib.blake2b(repr((info.name, triples, top, gtop, epi, copy_mode)).encode(),
                                        digest_size=8).hexdigest())
    batch.add_configure(info, g, top, cfg, case)
    return tag, s, F


# ============================================================================================
# stream 1: bounded-exhaustive marker assignments

def marker_alphabet(triple, variables, double_push, small=False):
    s, r, t = triple
    if small:
        pv = [s] + ([t] if t in variables and t != s else [])
    else:
        pv = [v for v in (s, t) if v in variables]
        pv += [v for v in sorted(variables) if v not in pv][:1]
        pv = list(dict.fromkeys(pv))
    out = [(), ('POP',), ('POP', 'POP')]
    for v in pv:
        out += [('Push(%s)' % v,), ('Push(%s)' % v, 'POP')]
        if double_push:
            out.append(('Push(%s)' % v, 'Push(%s)' % v))
    return out


def exh_base_graphs(tier):
    """Well-formed connected graphs over {a, b}: <= 3 triples (quick), plus 4 triples (marked 'big')."""
    R = [':ARG0', ':ARG1-of']
    out = []
    # one variable: instance + up to two more triples
    extras1 = [('a', R[0], 'a'), ('a', R[1], 'a'), ('a', ':quant', 0), ('a', ':polarity', None), ('a', R[1], '"s"')]
    for c in ['x', None, 'a', 0]:
        out.append(('v1', [('a', INSTANCE, c)]))
        for k in (1, 2):
            for ex in itertools.combinations(extras1, k):
                out.append(('v1', [('a', INSTANCE, c)] + list(ex)))
    # two variables: two instances + one edge (+ one extra triple in the 4-triple family)
    extras2 = [('a', R[0], 'b'), ('b', R[1], 'a'), ('a', R[0], 'a'), ('b', ':quant', 0.0), ('a', ':polarity', None),
               ('b', R[1], 'k'), ('b', R[0], 'b')]
    for ca, cb in [('x', 'y'), (None, 'y'), ('b', 'y'), ('x', 'a'), (0.0, 'y')]:
        for e in [('a', R[0], 'b'), ('a', R[1], 'b'), ('b', R[0], 'a'), ('b', R[1], 'a')]:
            base = [('a', INSTANCE, ca), e, ('b', INSTANCE, cb)]
            out.append(('v2', base))
            for ex in extras2:
                if ex != e:
                    out.append(('v2+1', base + [ex]))
    return dedupe_graphs(out)


def dedupe_graphs(graphs):
    """Drop graphs that are the same SET of triples as an earlier one (their orders are enumerated anyway)."""
    seen, out = set(), []
    for kind, base in graphs:
        k = frozenset((s, r, common.atom_key(t)) for s, r, t in base)
        if k not in seen:
            seen.add(k)
            out.append((kind, base))
    return out


def exh_worker(item):
    exe, model, kind, base, double_push, small, perm_limit, seed = item
    info = model_info(model)
    res, batch = Result(), Batch(exe)
    variables = set(s for s, _, _ in base)
    rng = random.Random(seed)
    perms = list(itertools.permutations(base))
    if perm_limit and len(perms) > perm_limit:
        perms = [perms[0]] + rng.sample(perms[1:], perm_limit - 1)
    hangs = 0
    for perm in perms:
        if hangs > 3 or settled():
            res.stats['skipped-after-hangs'] += 1
            break
        triples = list(perm)
        alph = [marker_alphabet(t, variables, double_push, small) for t in triples]
        for top in sorted(variables):
            if hangs > 3:
                break
            F = facts(info.tbl, triples, top, None)
            exp = expected_triples(info.tbl, F['ts'], F['variables'])
            for assign in itertools.product(*alph):
                epi = [(t, ms) for t, ms in zip(triples, assign) if ms]
                tag, s, _ = judge(res, info, batch, 'exh-' + kind, triples, top, None, epi, F, exp)
                if tag == 'hang':
                    hangs += 1
                    if hangs > 3:
                        break
                if len(res.samples) < 1 and len(epi) >= 2 and tag == 'ok':
                    res.samples.append(dict(make_case('exh-' + kind, model, triples, top, None, epi), encoded=s))
    n, mm = batch.run()
    res.corr += n
    res.mism += mm
    return res.pack()


# ============================================================================================
# stream 2: random well-formed graphs x marker corruption histories

REGRESSION_TEXTS = [
    '(a / y : b :op10 k :op2 (b / a))',                      # F14
    '(a :ROLE (b :ROLE a))',                                 # F1
    '(a / x :ARG0 (b / y :ARG0 (c / z :ARG1 a)) :ARG1-of c)',
    '(a / b :ARG0 b :ARG1 (c / a :ARG0-of (b / c)))',        # concepts spelled like variables
    '(a / x :quant 0 :ARG0-of (b / y :quant 0.5 :mod "s"))',
    '(t / try-01 :ARG0 (d / dog) :ARG1 (b / bark-01 :ARG0 d))',
    '(a :ARG0 (b :ARG0 (c :ARG0 (d :ARG0 a))))',
]


def random_wf_graph(rng, info, nvars_max):
    zero = rng.choice([0, 0.0])
    # string constants may hold any character but CR/LF, incl. the other line-boundary characters of str.splitlines()
    consts = ['x', '"s"', 7, zero, -1.5, None, 'k', '', '"u\u2028v"', '"w\x0bx \x85y\x0c"']
    roles = info.roles + rng.sample(info.inv_roles, 2)
    V, triples = gen.random_connected_graph(rng, nvars=rng.randint(1, nvars_max), nextra=rng.randint(0, 4),
                                            roles=roles, consts=consts)
    triples = [t for t in triples]
    # concept spelled like a variable that the node also points to (site replacement must skip the '/' branch)
    if rng.random() < .3:
        edges = [t for t in triples if t[1] != INSTANCE and t[2] in V]
        if edges:
            u, _, v = rng.choice(edges)
            triples = [(s, r, (v if (s == u and r == INSTANCE) else t)) for s, r, t in triples]
    if rng.random() < .1:
        triples = [(s, r, ('' if (r == INSTANCE and rng.random() < .3) else t)) for s, r, t in triples]
    if rng.random() < .2:       # numeric concepts, zero included (F27)
        triples = [(s, r, (rng.choice([zero, zero, 7, -1.5]) if (r == INSTANCE and rng.random() < .4) else t))
                   for s, r, t in triples]
    seen, out = set(), []
    for t in triples:
        k = (t[0], t[1], common.atom_key(t[2]))
        if k not in seen:
            seen.add(k)
            out.append(t)
    return V, out


def corrupt(rng, V, triples, epi):
    """Apply 1..4 random edit operations; returns (triples, epi dict, history)."""
    epi = {t: list(ms) for t, ms in epi.items()}
    hist = []
    for _ in range(rng.choice([1, 1, 2, 2, 3, 4])):
        op = rng.choice(['drop', 'push', 'push', 'push2', 'pop', 'swap', 'shuffle', 'shuffle', 'move', 'clear', 'rot'])
        hist.append(op)
        if op == 'drop':
            p = rng.choice([.2, .5, .8])
            for t in epi:
                epi[t] = [m for m in epi[t] if rng.random() > p]
        elif op == 'clear':
            epi = {}
        elif op == 'push':
            for _ in range(rng.choice([1, 1, 2, 3])):
                t = rng.choice(triples)
                v = rng.choice(V) if rng.random() < .5 else rng.choice([x for x in (t[0], t[2]) if x in V])
                ms = epi.setdefault(t, [])
                ms.insert(rng.randint(0, len(ms)), 'Push(%s)' % v)
        elif op == 'push2':
            t = rng.choice(triples)
            v = t[0] if rng.random() < .6 else rng.choice(V)
            ms = epi.setdefault(t, [])
            ms.insert(rng.randint(0, len(ms)), 'Push(%s)' % v)
            t2 = t if rng.random() < .6 else rng.choice(triples)
            ms = epi.setdefault(t2, [])
            ms.insert(rng.randint(0, len(ms)), 'Push(%s)' % v)
        elif op == 'pop':
            for _ in range(rng.choice([1, 1, 2, 4])):
                ms = epi.setdefault(rng.choice(triples), [])
                ms.insert(rng.randint(0, len(ms)), 'POP')
        elif op == 'swap' and len(triples) > 1:
            a, b = rng.sample(triples, 2)
            epi[a], epi[b] = epi.get(b, []), epi.get(a, [])
        elif op == 'shuffle':
            triples = list(triples)
            rng.shuffle(triples)
        elif op == 'rot':
            k = rng.randint(0, len(triples) - 1)
            triples = triples[k:] + triples[:k]
            if rng.random() < .5:
                triples.reverse()
        elif op == 'move':
            t = rng.choice(triples)
            triples = [x for x in triples if x != t]
            triples.insert(rng.choice([0, len(triples), rng.randint(0, len(triples))]), t)
    return triples, epi, hist


def disconnect(rng, V, triples, info):
    """Make the graph violate connectivity / top-is-variable while staying well-formed."""
    how = rng.choice(['isolate', 'isolate', 'bad-top', 'add-island', 'concept-link'])
    top = None
    if how == 'isolate' and len(V) > 1:
        v = rng.choice(V)
        triples = [t for t in triples if t[1] == INSTANCE or not (t[0] == v and t[2] in V or t[2] == v)
                   or (t[0] == v and t[2] == v)]
    elif how == 'add-island':
        triples = triples + [('z', INSTANCE, rng.choice(['w', V[0], None]))]
        if rng.random() < .5:
            triples.append(('z', info.roles[0], rng.choice(['z', 'k', 7])))
    elif how == 'concept-link':
        # an island whose only link to the rest is a concept spelled like a variable (not an edge)
        triples = triples + [('z', INSTANCE, V[0])]
        triples = [(s, r, ('z' if (r == INSTANCE and s == V[-1]) else t)) for s, r, t in triples]
    else:
        how = 'bad-top'
        top = rng.choice(['zz', 'x', 7, '"s"', 'k', ''])
        if top == '':
            top = 'zz'
    return triples, top, how


def mark_worker(item):
    exe, seed, count, nvars_max, model_names = item
    rng = random.Random(seed)
    res, batch = Result(), Batch(exe)
    hangs = 0
    for i in range(count):
        if i % 16 == 0 and settled():
            res.stats['skipped-after-hangs'] += 1
            break
        info = model_info(model_names[i % len(model_names)])
        V, triples = random_wf_graph(rng, info, nvars_max)
        rng.shuffle(triples)
        origin = 'hand'
        epi = {}
        gtop = None
        if rng.random() < .7:
            # genuine markers: encode the marker-less graph from some top, decode it
            try:
                g0 = guarded(_decode, guarded(_encode, build_graph({'triples': triples}), rng.choice(V), info.m),
                             info.m)
                if len(set(g0.triples)) == len(g0.triples):      # (a :R-of b) + (b :R a) collapse: keep hand-built
                    triples = [tuple(t) for t in g0.triples]
                    epi = {t: ms for t, ms in graph_epi(g0) if ms}
                    gtop = g0._top if rng.random() < .7 else None
                    origin = 'decoded'
            except Exception:                                      # noqa: BLE001  (judged below as a plain case)
                pass
        V = sorted(set(s for s, _, _ in triples))
        triples, epi, hist = corrupt(rng, V, list(triples), epi)
        top = rng.choice(V + [None]) if gtop is not None or rng.random() < .8 else None
        kind = 'connected'
        if rng.random() < .12:
            triples, badtop, how = disconnect(rng, V, triples, info)
            kind = 'broken:' + how
            if badtop is not None:
                top = badtop
            epi = {t: ms for t, ms in epi.items() if t in triples}
        if gtop is not None and gtop not in set(s for s, _, _ in triples):
            gtop = None
        copy_mode = rng.choice([None, None, None, 'deepcopy', 'pickle'])
        epi_l = [(t, tuple(ms)) for t, ms in epi.items() if ms]
        hist = [origin] + hist + ([kind] if kind != 'connected' else [])
        prime = rng.random() < .25
        if prime and not copy_mode:
            hist = hist + ['edited-in-place-after-queries']
        tag, s, F = judge(res, info, batch, 'mark', triples, top, gtop, epi_l, copy_mode=copy_mode, history=hist,
                          want_key=True, prime=prime)
        res.stats['origin-' + origin] += 1
        res.stats['model-' + info.name] += 1
        res.stats['kind-' + kind] += 1
        if copy_mode:
            res.stats['copy-' + copy_mode] += 1
        for h in hist[1:]:
            res.stats['op-' + h] += 1
        if len(res.samples) < 1 and tag == 'ok' and len(epi_l) > 2 and 'push' in hist:
            res.samples.append(dict(make_case('mark', info.name, triples, top, gtop, epi_l, copy_mode, hist), encoded=s))
        if tag == 'hang':
            hangs += 1
            if hangs > 3:
                break
    n, mm = batch.run()
    res.corr += n
    res.mism += mm
    return res.pack()


def regress_worker(item):
    exe, model = item
    info = model_info(model)
    res, batch = Result(), Batch(exe)
    for text in REGRESSION_TEXTS:
        try:
            g0 = guarded(_decode, text, info.m)
        except Exception:                                          # noqa: BLE001
            continue
        triples = [tuple(t) for t in g0.triples]
        epi = [(t, tuple(ms)) for t, ms in graph_epi(g0) if ms]
        V = sorted(set(s for s, _, _ in triples))
        orders = [triples, triples[::-1], triples[1:] + triples[:1]]
        for ts in orders:
            for top in V + [None]:
                for gtop in (None, g0._top):
                    for e in (epi, [], [(t, ms + ('POP',)) for t, ms in epi]):
                        judge(res, info, batch, 'regress', ts, top, gtop, e, history=[text], want_key=True)
    n, mm = batch.run()
    res.corr += n
    res.mism += mm
    return res.pack()


# ============================================================================================
# stream 3: arbitrary triple lists (totality / only-LayoutError clause)

ARB_SOURCES = ['a', 'a', 'b', 'b', 'c', None, '', 7, 'x']
ARB_ROLES = [INSTANCE, INSTANCE, ':ARG0', ':ARG0', ':ARG0-of', ':ARG1', '', ':', ':TOP-of', ':instance-of', ':mod',
             ':TOP', 'ARG1', ':ARG0-of-of', ':domain-of', ':-of']
ARB_TARGETS = ['a', 'a', 'b', 'b', 'c', None, '', 7, -1.5, 'x', '"s"', 'ZERO']
ARB_TOPS = [None, None, 'a', 'b', 'c', 'zz', 7, 'x', '']


def arb_worker(item):
    exe, seed, count, model_names = item
    rng = random.Random(seed)
    res, batch = Result(), Batch(exe)
    hangs = 0
    for i in range(count):
        if i % 16 == 0 and settled():
            res.stats['skipped-after-hangs'] += 1
            break
        info = model_info(model_names[i % len(model_names)])
        zero = rng.choice([0, 0.0])
        n = rng.choice([0, 1, 1, 2, 2, 3, 3, 4, 5, 6, 8])
        triples = []
        for _ in range(n):
            t = (rng.choice(ARB_SOURCES), rng.choice(ARB_ROLES), rng.choice(ARB_TARGETS))
            if t[2] == 'ZERO':
                t = (t[0], t[1], zero)
            triples.append(t)
            if rng.random() < .12:
                triples.append(t)                                   # duplicate triple
        if rng.random() < .5:
            # nudge towards nearly-well-formed: give every string source an instance triple
            for v in sorted(set(s for s, _, _ in triples if isinstance(s, str) and s)):
                if rng.random() < .8:
                    triples.insert(rng.randint(0, len(triples)), (v, INSTANCE, rng.choice(['x', None, 'a', v])))
        top = rng.choice(ARB_TOPS)
        gtop = rng.choice([None, None, None, 'a', 'b', 'zz', 7])
        epi = {}
        names = ['a', 'b', 'c', 'x', '7', 'zz', '']
        for t in triples:
            if rng.random() < .35:
                epi[t] = tuple(rng.choice(['POP', 'POP', 'Push(%s)' % rng.choice(names),
                                           'Push(%s)' % (t[0] if isinstance(t[0], str) else 'a')])
                               for _ in range(rng.randint(1, 3)))
        epi_l = [(t, ms) for t, ms in epi.items()]
        copy_mode = rng.choice([None, None, None, None, 'deepcopy', 'pickle'])
        tag, s, F = judge(res, info, batch, 'arb', triples, top, gtop, epi_l, copy_mode=copy_mode, want_key=True)
        res.stats['model-' + info.name] += 1
        res.stats['wf' if F['wf'] else 'ill-formed'] += 1
        res.stats['len-%d' % min(len(triples), 9)] += 1
        if len(res.samples) < 1 and not F['wf'] and tag == 'ok' and len(triples) > 2:
            res.samples.append(dict(make_case('arb', info.name, triples, top, gtop, epi_l, copy_mode), encoded=s))
        if tag == 'hang':
            hangs += 1
            if hangs > 3:
                break
    n, mm = batch.run()
    res.corr += n
    res.mism += mm
    return res.pack()


def arbexh_worker(item):
    """All triple lists of length <= 2 over a tiny ill-formed alphabet x tops, no markers and one marker."""
    exe, model, first_triples = item
    info = model_info(model)
    res, batch = Result(), Batch(exe)
    alphabet = arbexh_alphabet()
    for t1 in first_triples:
        for t2 in [None] + alphabet:
            triples = [t1] + ([t2] if t2 is not None else [])
            for top in [None, 'a', 'b', 'z']:
                for epi in ([], [(t1, ('Push(a)',))], [(t1, ('POP', 'Push(b)'))]):
                    judge(res, info, batch, 'arb-exh', triples, top, None, epi)
    n, mm = batch.run()
    res.corr += n
    res.mism += mm
    return res.pack()


def arbexh_alphabet():
    return [(s, r, t) for s in ['a', 'b', None] for r in [INSTANCE, ':R', ':R-of', ':']
            for t in ['a', 'b', None, 0]]


# ============================================================================================

def theorems_or_skip(chk, module, theorems, env):
    """Proof obligations are ALWAYS checked (the former development switch is gone)."""
    chk.require_theorems(module, theorems)
    from harness import e2e_theorems
    extra = {'Properties.C06': e2e_theorems.THEOREMS_C06, 'Properties.C03': e2e_theorems.THEOREMS_C03}.get(module)
    if extra:
        chk.require_theorems('Properties.E2E', extra)    # end-to-end composition (string level)
    from harness import e2e_aln_theorems
    extra2 = {'Properties.C06': e2e_aln_theorems.THEOREMS_C06, 'Properties.C03': e2e_aln_theorems.THEOREMS_C03}.get(module)
    if extra2:
        chk.require_theorems('Properties.E2E_aln', extra2)   # the same with alignment markers (no layout_only restriction)


def driver_exe(chk):
    try:
        return str(common.build_driver('core'))
    except common.BuildError as e:
        chk.broken.append({'obligation': 'driver core', 'detail': str(e)[-2000:]})
        return None


def run_stream(chk, stream, worker, items):
    t0 = time.time()
    if settled():
        chk.stat(f'{stream}:skipped-after-{HANG_STOP}-confirmed-hangs')
        return
    results = common.pmap(worker, items, chunk=1)
    for idx, r in enumerate(results):
        merge(chk, stream, idx, r)
    chk.stat(f'{stream}:wall-seconds', int(round(time.time() - t0)))


def run(chk):
    chk.rule = ('(1) exh-*: ALL assignments of a marker list from {[], [POP], [POP,POP], [Push v], [Push v,POP], '
                '[Push v,Push v]} to every triple (v over the variables) x all permutations of the triple list x every '
                'top, on all well-formed connected graphs with <=3 triples over variables {a,b} (roles :ARG0 and the '
                'inverted :ARG1-of, concepts x/None/spelled-like-a-variable, constants 0, None, string); 4-triple '
                'graphs with the 5-list alphabet, Push over the ends of the triple (quick: default model, 3 of the 24 orders; '
                'thorough: default model 12 orders, other models 3 orders, plus 3-variable/5-triple graphs in 10 of 120 orders). '
                '(2) mark: random well-formed connected graphs (<=5 variables quick, <=8 thorough), markers genuine '
                '(decode of an encoding from a random top) or absent, then 1-4 edit operations (drop a subset, add '
                'Push(v) for any variable anywhere, the same Push twice, add POPs, swap marker lists, shuffle / '
                'rotate / move triples), new top, deep copy or pickle (fresh Pop objects); 12% are then disconnected '
                'or given a non-variable top (must raise LayoutError). (3) arb / arb-exh: arbitrary triple lists '
                '(None/empty/numeric sources and targets, empty and colon-only roles, :TOP-of, :instance-of, duplicate '
                'instances and triples, non-variable tops, Push of constants): only str or LayoutError may come out. '
                'Models: default, live AMR, mini-AMR, no-op. A case is distinct per (model, ordered triple list, '
                'top, explicit graph top, marker assignment, copy mode). Push names only variables in (1),(2) [N3].')
    theorems_or_skip(chk, 'Properties.C06', THEOREMS, 'C06_SKIP_PROOFS')
    common.use_repo()
    for name in MODEL_NAMES:
        model_info(name)
    exe = driver_exe(chk)
    quick = chk.tier == 'quick'
    rng = chk.rng
    import tempfile
    fd, hang_file = tempfile.mkstemp(prefix='c06_hangs_')      # confirmed hangs, counted across the worker processes
    os.close(fd)
    os.environ['C06_HANG_FILE'] = hang_file
    try:
        _run_streams(chk, exe, quick, rng)
    finally:
        n = confirmed_hangs()
        if n:
            chk.stat('confirmed-hangs', n)
        os.unlink(hang_file)
        os.environ.pop('C06_HANG_FILE', None)


def _run_streams(chk, exe, quick, rng):

    # ---- (1) bounded-exhaustive ------------------------------------------------------------
    items = []
    for kind, base in exh_base_graphs(chk.tier):
        if kind in ('v1', 'v2'):
            for model in MODEL_NAMES:
                items.append((exe, model, kind, base, True, False, 0, rng.getrandbits(32)))
        else:   # 4 triples: 5-list alphabet (no double push)
            for model in (['default'] if quick else MODEL_NAMES):
                more = (not quick) and model == 'default'      # thorough: 12 of the 24 orders under the default model
                items.append((exe, model, kind, base, False, True, 12 if more else 3, rng.getrandbits(32)))
    if not quick:
        R = [':ARG0', ':ARG1-of']
        for e1 in [('a', R[0], 'b'), ('b', R[1], 'a')]:
            for e2 in [('b', R[0], 'c'), ('c', R[1], 'b'), ('a', R[0], 'c'), ('c', R[0], 'a')]:
                base = [('a', INSTANCE, 'x'), e1, ('b', INSTANCE, 'c'), e2, ('c', INSTANCE, None)]
                items.append((exe, 'default', 'v3', base, False, True, 10, rng.getrandbits(32)))
    run_stream(chk, 'exh', exh_worker, items)
    chk.stat('exh:work-items', len(items))

    # ---- (2) random graphs x marker histories -------------------------------------------------
    per = 1500
    nitems = 64 if quick else 1000
    items = [(exe, rng.getrandbits(48), per, 5 if (quick or i % 2) else 8, MODEL_NAMES) for i in range(nitems)]
    run_stream(chk, 'mark', mark_worker, items)
    run_stream(chk, 'regress', regress_worker, [(exe, m) for m in MODEL_NAMES])

    # ---- (3) arbitrary triple lists -----------------------------------------------------------
    nitems = 48 if quick else 400
    items = [(exe, rng.getrandbits(48), per, MODEL_NAMES) for _ in range(nitems)]
    run_stream(chk, 'arb', arb_worker, items)
    alph = arbexh_alphabet()
    items = [(exe, m, alph[i:i + 6]) for m in MODEL_NAMES for i in range(0, len(alph), 6)]
    run_stream(chk, 'arb-exh', arbexh_worker, items)

    chk.exhaustive = False     # exhaustive only up to the stated size bound; the random streams are samples
    chk.notes.append('exh-v1 / exh-v2 enumerate their stated family completely (graphs, orders, tops, marker assignments); '
                     'exh-v2+1 / exh-v3 enumerate all marker assignments and tops on a sample of the orders; '
                     'everything else is sampled')
    chk.notes.append('no-op model: in scope for termination / only-LayoutError / error-precision / one-node-per-variable; '
                     'the content clause is for deinverting models, so for no-op the decoded triples are compared modulo '
                     'edge orientation as an extra and differences are only counted (stat *:noop-content), never failures')
    chk.notes.append(f'hang = the call fires a {HANG_S}s wall-clock alarm AND, re-run, consumes {HANG_CPU_S}s of CPU time')
    chk.assumptions.append('connectivity/well-formedness oracle: own union-find and role algebra computed from the model '
                           'TABLE (harness/models.py), cross-checked against the live Model on the roles used')


# ============================================================================================

def replay(obj):
    """Rebuild the graph of a replay file, encode/decode it on the implementation and print what happens."""
    common.use_repo()
    import penman
    case = obj.get('case') or {}
    if not case and obj.get('correspondence_differences'):
        case = obj['correspondence_differences'][0].get('case') or {}
    print('what:', obj.get('what'))
    print('case:', json.dumps(case, default=str))
    if 'triples' not in case:
        return 0
    info = model_info(case.get('model', 'default'))
    g = build_graph(case)
    if 'edited-in-place-after-queries' in (case.get('history') or []):
        g = primed_graph([tuple(t) for t in case['triples']], case.get('gtop'), case.get('epidata', [])) or g
        print('(the graph object was queried and encoded under another variable name, then edited in place)')
    top = case.get('top')
    print('graph triples:', g.triples, ' explicit top:', g._top)
    print('markers:', {t: es for t, es in g.epidata.items()})
    F = facts(info.tbl, [tuple(t) for t in case['triples']], top, case.get('gtop'), push_vars_of(
        [(tuple(t), ms) for t, ms in case.get('epidata', [])]))
    print('oracle: well-formed=%s connected=%s top=%r is-variable=%s verdict=%s' % (
        F['wf'], F['connected'], F['top'], F['top_is_var'], F['verdict']))
    tag, fails, cfg, s = evaluate(info, g, top, F)
    print('encode ->', tag, repr(s))
    print('configure ->', cfg[0], cfg[1] if len(cfg) > 1 else '')
    if s is not None:
        try:
            g2 = guarded(_decode, s, info.m)
            print('decode -> top', g2.top, 'triples', g2.triples)
            print('expected (multiset):', dict(expected_triples(info.tbl, F['ts'], F['variables'])))
        except Exception as e:                                      # noqa: BLE001
            print('decode raised', type(e).__name__, e)
    for key, what in fails:
        print('FAILS', key, ':', what)
    return 1 if fails else 0
