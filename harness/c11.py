"""C11 — edge reification and dereification are mutually inverse.

proof:          coq/Properties/C11.v (statements) over Impl/Transform.v, Spec/WfGraph.v
correspondence: Impl.Transform (extracted, group `xform`) vs penman.transform.reify_edges /
                dereify_edges / _dereify_agenda on every generated in-domain graph
oracle:         every clause of the statement evaluated on the implementation alone

Domain (the theorem's hypotheses, recomputed here by independent Python twins):
  wf graph            every source is a str owning exactly one :instance triple, triples pairwise
                      distinct, roles start with a colon
  table_ok_for m g    for every triple with a reifiable role r (first row (c, sr, tr)): the row shape is
                      sane and Model.dereify gives r back in the order in which reify_edges will WRITE
                      the two relations (inverted order iff the triple appears inverted)
  no_collapsible m g  dereify_edges(g) changes nothing (the agenda is empty)
The `bad-collapse` clause is judged on all wf graphs (no_collapsible not required).

This module also hosts the helpers shared with harness/c12.py (model registry, text generators,
driver access with pre-rendered model tables, result decoding).
"""
import collections
import json
import os
import re
import subprocess

from harness import common, models, gen

THEOREMS = ['C11_reify_no_reifiable', 'C11_reify_fresh', 'C11_fresh_names_distinct', 'C11_reify_keeps_rest', 'C11_inverse',
            'C11_inverse_canonical', 'C11_inverse_exists', 'C11_table_ok_sufficient', 'C11_dereify_never_collapses',
            'C11_dereify_keeps_others', 'C11_amr_table', 'C11_hypotheses_satisfiable', 'C11_inverse_needs_table_ok']

INSTANCE = ':instance'

# exception class -> outcome enum of ocaml/conv.ml of_outcome
EXC = {'ModelError': [4], 'LayoutError': [2], 'AssertionError': [7, 4], 'KeyError': [7, 2], 'ValueError': [7, 5],
       'TypeError': [7, 6], 'AttributeError': [7, 7], 'IndexError': [7, 3], 'StopIteration': [7, 1]}


# ============================================================================================
# model registry (filled in the parent before pmap forks; workers only read it)


class Info(object):
    pass


_INFO = {}


def model_ref(inf):
    return 'penman.models.amr' if inf.live else inf.tbl


def register(name, tbl, live=False):
    """name -> Info(m, wm (wire text), codec, reif (role -> first row), ok (role -> (shape, plain, inv)))."""
    if name in _INFO:
        return _INFO[name]
    common.use_repo()
    from penman.codec import PENMANCodec
    inf = Info()
    inf.name, inf.tbl, inf.live = name, tbl, live
    inf.m = models.impl_model(tbl, live_amr=live)
    inf.wm = common.sx_dumps(models.wire_model(tbl))          # ValueError: pattern outside the modelled class
    inf.codec = PENMANCodec(model=inf.m)
    inf.reifiable = sorted(inf.m.reifications)
    inf.concepts = sorted(inf.m.dereifications)
    inf.ok = dict((r, role_checks(tbl, r)) for r in inf.reifiable)
    inf.key = name if name in ('amr', 'mini', 'default') else json.dumps(tbl, sort_keys=True)
    _INFO[name] = inf
    return inf


def spec_dereify(rows, source_role, target_role):
    """What Model.dereify is documented to answer for a concept with table rows [(role, source, target)]:
    the first row matching exactly, else the first row matching with the two relations exchanged.
    Written from the table alone: the domain must not depend on the code under test."""
    for role, s, t in rows:
        if s == source_role and t == target_role:
            return ('as-written', role)
    for role, s, t in rows:
        if t == source_role and s == target_role:
            return ('exchanged', role)
    return None


def role_checks(tbl, r):
    """Python twin of Spec.WfGraph.row_shape_ok / row_plain_ok / row_inv_ok for role r of table tbl."""
    reifs = [tuple(x) for x in tbl['reifs']]
    _, c, sr, tr = next(x for x in reifs if x[0] == r)
    rows = [(role, s, t) for role, cc, s, t in reifs if cc == c]
    reifiable = set(x[0] for x in reifs)
    # sr != tr: with sr == tr a reified self-loop consists of two EQUAL triples and cannot be restored
    shape = (r != INSTANCE and sr != INSTANCE and tr != INSTANCE and sr.startswith(':') and tr.startswith(':')
             and sr not in reifiable and tr not in reifiable and sr != tr)
    plain = spec_dereify(rows, sr, tr) == ('as-written', r)
    inv = spec_dereify(rows, tr, sr) == ('exchanged', r)
    return (shape, plain, inv)


def triple_in_domain(inf, g, t):
    from penman import layout
    r = t[1]
    if r not in inf.m.reifications:
        return True
    shape, plain, inv = inf.ok[r]
    if not shape:
        return False
    swaps = t[0] != t[2] and layout.appears_inverted(g, t)
    return inv if swaps else plain


def is_wf(g):
    """Twin of Spec.WfGraph.wf_graph_b."""
    ts = g.triples
    if len(set(ts)) != len(ts):
        return False
    inst = collections.Counter()
    for s, r, t in ts:
        if not isinstance(s, str) or not isinstance(r, str) or not r.startswith(':'):
            return False
        if r == INSTANCE:
            inst[s] += 1
    return all(inst[v] == 1 for v in g.variables())


def epi_ok(g):
    """Twin of Spec.WfGraph.epi_ok_b: every marker entry talks about a node, every Push names a variable."""
    from penman.layout import Push
    vs = g.variables()
    return all(t[0] in vs and all(not isinstance(e, Push) or e.variable in vs for e in es) for t, es in g.epidata.items())


def epis_canonical(es):
    """Twin of Spec.WfGraph.epis_canonical_b: at most one role alignment, then target alignments, at most one
    Push, then POPs (the order interpret writes)."""
    from penman.layout import Push, Pop
    from penman.surface import Alignment, RoleAlignment
    ral = [e for e in es if isinstance(e, RoleAlignment)]
    aln = [e for e in es if isinstance(e, Alignment)]
    psh = [e for e in es if isinstance(e, Push)]
    pop = [e for e in es if isinstance(e, Pop)]
    return list(es) == ral[-1:] + aln + psh[-1:] + pop


def is_connected(g):
    """Weak connectivity from g.top over non-instance triples whose target is a variable (twin of connected_b)."""
    vs = g.variables()
    top = g.top
    if top is None or top not in vs:
        return not vs
    adj = collections.defaultdict(list)
    for s, r, t in g.triples:
        if r != INSTANCE and t in vs:
            adj[s].append(t)
            adj[t].append(s)
    seen, todo = {top}, [top]
    while todo:
        v = todo.pop()
        for w in adj[v]:
            if w not in seen:
                seen.add(w)
                todo.append(w)
    return seen >= vs


# ============================================================================================
# driver access (pre-rendered model table; usable inside pmap workers)


def drive(exe, lines):
    if not lines:
        return []
    env = dict(os.environ, OCAMLRUNPARAM='l=4G')
    p = subprocess.run(['bash', '-c', f'ulimit -s unlimited 2>/dev/null; exec {exe}'],
                       input='\n'.join(lines) + '\n', capture_output=True, text=True, env=env)
    outs = p.stdout.split('\n')
    if outs and outs[-1] == '':
        outs.pop()
    if len(outs) != len(lines):
        raise common.BuildError(f'driver produced {len(outs)} results for {len(lines)} cases; stderr: {p.stderr[-2000:]}')
    return [common.sx_loads(o) for o in outs]


def graph_txt(g):
    return common.sx_dumps(common.e_graph(g))


def d_out(v):
    if v[0] == 0:
        return ('ok', common.d_graph(v[1]))
    return ('exc', list(v))


def impl_apply(code, g, m):
    from penman import transform
    if code == 1:
        return transform.reify_edges(g, m)
    if code == 2:
        return transform.dereify_edges(g, m)
    if code == 3:
        return transform.reify_attributes(g)
    if code == 4:
        return transform.indicate_branches(g, m)
    raise ValueError(code)


def exc_enum(e):
    return EXC.get(type(e).__name__, [type(e).__name__])


def impl_out(fn, *args):
    """('ok', graph) | ('exc', enum, repr) | ('timeout',)"""
    try:
        return ('ok', common.timed(fn, *args, seconds=5))
    except common.Timeout:
        return ('timeout',)
    except Exception as e:                    # noqa: the class is the observation
        return ('exc', exc_enum(e), repr(e)[:200])


def same_outcome(impl, model):
    """impl: ('ok', Graph) | ('exc', enum, ..) | ('timeout',); model: d_out(...)"""
    if impl[0] == 'ok' and model[0] == 'ok':
        return common.canon_graph(impl[1]) == model[1]
    if impl[0] == 'exc' and model[0] == 'exc':
        return list(impl[1]) == list(model[1])
    return False


def show_outcome(o):
    if o[0] == 'ok':
        g = o[1]
        return ('ok', common.canon_graph(g) if not isinstance(g, dict) else g)
    return o


def safe_text(codec, g):
    """One-line text of g for samples and replay (a mutated or broken result may not encode)."""
    try:
        return common.timed(lambda: codec.encode(g, indent=None), seconds=5)
    except Exception as e:
        return f'<encode raises {e!r}> triples={g.triples}'


def canon_epis(es):
    return [common.canon_epi(e) for e in es]


# ============================================================================================
# generators (everything from the rng handed in)

NONREIF = [':ARG0', ':ARG1', ':ARG2', ':op1', ':domain', ':ARG1-of', ':ARG2-of', ':ARG0-of']


def amr_vocab(inf):
    reif = inf.reifiable
    roles = (reif + reif[:14] + [r + '-of' for r in reif] + NONREIF * 3
             + [':mod', ':mod-of', ':location', ':location-of', ':time', ':poss', ':poss-of', ':polarity', ':quant',
                ':subset', ':superset', ':subset-of', ':superset-of', ':beneficiary', ':role', ':employed-by'] * 2)
    atoms = (['x', 'y', '-', '"s t"', '1', '2.5', 'dog', '_', '_2', '_3', 'x', 'y', '7']
             + ['have-mod-91', 'include-91', 'own-01', 'have-03', 'be-located-at-91', 'have-org-role-91',
                'benefit-01', 'receive-01', 'have-polarity-91', 'have-quant-91', 'accompany-01'])
    return roles, atoms


def table_vocab(inf):
    rr = inf.reifiable or [':a']
    roles = (rr * 2 + [r + '-of' for r in rr] + [':ARG0', ':ARG1', ':ARG2', ':ARG3', ':ARG1-of', ':ARG2-of',
                                                    ':a', ':b', ':c', ':mod', ':op1'])
    atoms = ['x', 'y', '_', '_2', '_3', '1', 'x', 'y'] + (inf.concepts or ['k-91']) + ['k-91', 'q-01', 'r-02']
    return roles, atoms


def vocab(inf):
    if not hasattr(inf, 'vocab'):
        if inf.name in ('amr', 'default'):
            inf.vocab = amr_vocab(_INFO['amr'])
        elif inf.name == 'mini':
            rr = [':accompanier', ':mod', ':accompanier-of', ':mod-of']
            inf.vocab = (rr * 3 + [':ARG0', ':ARG1', ':ARG2', ':ARG1-of', ':ARG2-of', ':ARG0-of', ':domain', ':domain-of', ':op1', ':consist-of'],
                         ['x', 'y', '_', '_2', '_3', '7', '"s"', 'have-mod-91', 'accompany-01', 'have-mod-91'])
        else:
            inf.vocab = table_vocab(inf)
    return inf.vocab


def var_pool(rng, n=8):
    pool = gen.fresh_vars()[:n]
    rng.shuffle(pool)
    if rng.random() < .35:
        pool.insert(rng.randint(0, 2), '_')
    if rng.random() < .25:
        pool.insert(rng.randint(0, 3), '_2')
    return pool


def random_node(rng, inf, maxdepth=3):
    roles, atoms = vocab(inf)
    return gen.random_tree_node(rng, var_pool(rng), maxdepth=maxdepth, roles=roles, atoms=atoms)


def rich_table(rng):
    """Small reification tables over few roles/concepts, so that two rows per role or per concept happen."""
    args = [':ARG0', ':ARG1', ':ARG2', ':ARG3']
    reifs = []
    for _ in range(rng.choice([1, 2, 2, 3, 4])):
        if rng.random() < .93:
            sr, tr = rng.sample(args, 2)
        else:
            sr = tr = rng.choice(args)
        reifs.append((rng.choice([':a', ':b', ':c', ':mod']), rng.choice(['k-91', 'q-01']), sr, tr))
    roles = rng.sample([':a', ':b', ':c', ':mod', ':ARG[0-9]', ':op[0-9]+', ':a-of'], rng.randint(0, 5))
    return {'roles': roles, 'norms': {}, 'reifs': reifs, 'noop': rng.random() < .1}


def collapse_node(rng, inf):
    """A tree around one node w whose concept is dereifiable and whose relations are the roles of one row:
    exactly collapsible, or protected by a further relation, by being the top, or by being referenced."""
    rows = [(r, c, s, t) for r, rs in inf.m.reifications.items() for c, s, t in rs]
    if not rows:
        return random_node(rng, inf)
    role, c, sr, tr = rng.choice(rows)
    if rng.random() < .15:
        sr, tr = tr, sr
    _, atoms = vocab(inf)
    others = [':ARG0', ':ARG3', ':op1', ':ARG1', ':ARG2']
    const = lambda: rng.choice(['7', '_', 'x', '"s"', 'a'])
    tgt_node = lambda v: (v, [('/', rng.choice(['y', 'z', c]))] + ([(rng.choice(others), const())] if rng.random() < .3 else []))
    calign = c + (rng.choice(['~1', '~e.2']) if rng.random() < .3 else '')
    shape = rng.choice(['inv', 'inv', 'inv', 'top', 'target', 'inv-ref', 'inv-extra', 'inv-one', 'chain'])
    far = tgt_node('b') if rng.random() < .6 else const()
    if rng.random() < .2:
        far = 'a' + rng.choice(['', '', '~2', '~e.4'])      # a re-entrancy, possibly carrying an alignment
    w_rel = [('/', calign)]
    second = (tr + (rng.choice(['~3', '']) if rng.random() < .3 else ''), far)
    if shape == 'top':
        return ('w', w_rel + [(sr, tgt_node('a')), second])
    if shape == 'target':
        return ('a', [('/', 'x'), (rng.choice(others), ('w', w_rel + [(sr, tgt_node('c')), second]))])
    if shape == 'chain':
        # two reified nodes, the second hangs off the first one's far end
        w2 = ('u', [('/', c), (tr, const())])
        return ('a', [('/', 'x'), (sr + '-of', ('w', w_rel + [(tr, ('b', [('/', 'y'), (sr + '-of', w2)]))]))])
    extra = []
    if shape == 'inv-extra':
        extra = [(rng.choice(others + [tr, sr]), rng.choice([const(), tgt_node('d')]))]
    body = w_rel + ([second] if shape != 'inv-one' else []) + extra
    if rng.random() < .3:
        rng.shuffle(body)
    host = [('/', 'x')]
    pre = [(rng.choice(others), const())] if rng.random() < .3 else []
    post = []
    if shape == 'inv-ref':
        post = [(rng.choice(others), 'w')]
    elif rng.random() < .3:
        post = [(rng.choice(others + [role]), rng.choice([const(), tgt_node('e')]))]
    node = ('a', host + pre + [(sr + '-of', ('w', body))] + post)
    if rng.random() < .3:
        node = ('r', [('/', 'z'), (rng.choice(others + [':ARG1-of']), node)] + ([(':op2', 'w')] if rng.random() < .2 else []))
    return node


def amr_exhaustive(inf):
    """All texts (a / x R T [S]) / (a / x [S] R T) for each reifiable role R and R-of, six target shapes,
    alone or next to one second relation; plus the same relation inside a nested / inverted host."""
    seconds = [':ARG0 (c / z)', ':mod 5', ':polarity -', ':ARG1-of (d / w)', ':location-of (e / u)', ':ARG2 b',
               ':poss~3 (f / own-01)']
    targets = ['7', '_', '(b / y)', 'a', None, 'c~e.4']
    out = []
    for r in inf.reifiable:
        for role in (r, r + '-of'):
            for tgt in targets:
                rel = f'{role}~1 (b / y~2)' if tgt is None else f'{role} {tgt}'
                out.append(f'(a / x {rel})')
                for s in seconds:
                    out.append(f'(a / x {rel} {s})')
                    out.append(f'(a / x {s} {rel})')
                for s in ('', ' :ARG1 7', ' :mod (g / u)'):
                    out.append(f'(r / z :ARG0 (a / x {rel}{s}) :ARG3 9)')
                    out.append(f'(r / z :ARG0-of (a / x {rel}{s}))')
    return out


def mini_exhaustive():
    roles = [':accompanier', ':mod', ':accompanier-of', ':mod-of', ':ARG0', ':ARG1-of', ':domain', ':domain-of', ':op1']

    def shapes(v):
        return ['7', '_', f'({v} / y)', 'a', f'({v} / have-mod-91 :ARG1 a)', f'({v} / y~2)']
    out = []
    for r1 in roles:
        for t1 in shapes('b'):
            out.append(f'(a / x {r1} {t1})')
            out.append(f'(a / x {r1}~1 {t1})')
            for r2 in roles:
                for t2 in shapes('c'):
                    out.append(f'(a / x {r1} {t1} {r2} {t2})')
    return out


# ============================================================================================
# one case (runs in a worker)


VAR_FRESH = re.compile(r'^_(?:[2-9]|[1-9][0-9]+)?$')


class Out(object):
    """What a worker hands back to the parent."""

    def __init__(self):
        self.stats = collections.Counter()
        self.fails = []
        self.mismatches = []
        self.counts = []
        self.samples = []
        self.nreq = 0


def eval_case(inf, job, out, pending):
    """job = (name, kind, text_or_node).  Appends request lines + expectations to `pending`."""
    from penman import transform, layout
    from penman.tree import Tree
    name, kind, payload = job
    m, codec = inf.m, inf.codec
    stat = out.stats
    stat['generated'] += 1
    if isinstance(payload, str):
        text = payload
    else:
        try:
            text = codec.format(Tree(payload), indent=None)
        except Exception:
            stat['dropped:format-error'] += 1
            return
    case = {'text': text, 'model': model_ref(inf), 'name': name, 'stream': kind}
    try:
        g = common.timed(codec.decode, text, seconds=5)
    except Exception:
        stat['dropped:decode-error'] += 1
        return
    if not is_wf(g):
        stat['dropped:not-wf'] += 1
        return
    stat['wf'] += 1
    stat[f'model:{name if name in ("amr", "mini", "default") else "random-table"}'] += 1
    stat[f'stream:{kind}'] += 1
    wg = graph_txt(g)

    # ---- bad-collapse: on every wf graph ----------------------------------------------------
    d2o = impl_out(transform.dereify_edges, g, m)
    pending.append((f'(2 {inf.wm} {wg})', 'dereify(g)', case, d2o))
    if d2o[0] != 'ok':
        stat[f'exception:{d2o[1] if d2o[0] == "exc" else "timeout"}'] += 1
        out.fails.append(('bad-collapse', f'dereify_edges fails on a wf graph: {d2o[1:]}', case))
        return
    d2 = d2o[1]
    collapsed = len(g.triples) - len(d2.triples)
    nonin = collections.Counter(t[0] for t in g.triples if t[1] != INSTANCE)
    targets = set(t[2] for t in g.triples if t[1] != INSTANCE)
    for v in g.variables():
        if nonin[v] != 2 or v == g.top or v in targets:
            mine = [t for t in g.triples if t[0] == v]
            after = iter(t for t in d2.triples if t[0] == v)
            if not all(any(t == u for u in after) for t in mine):
                out.fails.append(('bad-collapse', f'dereify_edges collapsed or changed node {v!r} which has '
                                  f'{nonin[v]} relations, top={g.top!r}, referenced={v in targets}', case))
                break
    no_coll = d2.triples == g.triples
    if hasattr(transform, '_dereify_agenda'):
        ag = transform._dereify_agenda(g, m)
        agc = [[common.atom_key(v), common.canon_triple(f), common.canon_triple(d), canon_epis(es)] for v, (f, d, es) in ag.items()]
        if (not ag) != no_coll:
            out.mismatches.append(('twins of no_collapsible disagree (agenda empty vs dereify_edges identity)', case, not ag, no_coll))
    else:
        agc = None
    pending.append((f'(6 {inf.wm} {wg})', 'agenda', case, (no_coll, agc)))
    if collapsed:
        stat['collapsed-nodes'] += collapsed // 2

    # ---- domain filters -----------------------------------------------------------------------
    bad = [t for t in g.triples if not triple_in_domain(inf, g, t)]
    if bad:
        stat['dropped:table-not-ok'] += 1
        if any(m.reifications[t[1]][0][1] == m.reifications[t[1]][0][2] for t in bad):
            stat['dropped:table-sr-eq-tr'] += 1
        if name == 'amr':
            if all(t[1] in (':subset', ':superset') for t in bad):
                stat['dropped:amr-inverted-subset/superset'] += 1
            else:
                stat['dropped:amr-other-role(UNEXPECTED)'] += 1
        out.counts.append(((inf.key, text, 'collapse-only'), bool(collapsed)))
        return
    if not epi_ok(g):
        stat['dropped:epi-not-ok(UNEXPECTED for decoded graphs)'] += 1
        return
    if any(not epis_canonical(g.epidata.get(t, [])) for t in g.triples if m.is_role_reifiable(t[1])):
        stat['dropped:markers-not-canonical(UNEXPECTED for decoded graphs)'] += 1
        return
    if not no_coll:
        stat['dropped:collapsible'] += 1
        out.counts.append(((inf.key, text, 'collapse-only'), True))
        if len(out.samples) < 1:
            out.samples.append(dict(case, dereified=safe_text(codec, d2)))
        return
    stat['in-domain'] += 1

    # ---- reify, dereify ----------------------------------------------------------------------
    reif_ts = [t for t in g.triples if m.is_role_reifiable(t[1])]
    nre = len(reif_ts)
    stat['reified-triples'] += nre
    stat['graphs-with-%s-reified' % ('0' if nre == 0 else '1' if nre == 1 else '2' if nre == 2 else '3+')] += 1
    ninv = sum(1 for t in reif_ts if t[0] != t[2] and layout.appears_inverted(g, t))
    stat['reified-inverted'] += ninv
    stat['reified-self-loops'] += sum(1 for t in reif_ts if t[0] == t[2])
    stat['reified-attributes'] += sum(1 for t in reif_ts if t[2] not in g.variables())
    if '~' in text:
        stat['graphs-with-alignments'] += 1
    gv = g.variables()
    if '_' in gv or '_2' in gv:
        stat['graphs-with-variable-_-or-_2'] += 1
    gtargets = set(t[2] for t in g.triples)
    if gtargets & {'_', '_2', '_3'} - gv:
        stat['graphs-with-constant-_-_2-_3'] += 1
    out.counts.append(((inf.key, text), nre > 0))

    ro = impl_out(transform.reify_edges, g, m)
    pending.append((f'(1 {inf.wm} {wg})', 'reify(g)', case, ro))
    if ro[0] != 'ok':
        stat[f'exception:{ro[1] if ro[0] == "exc" else "timeout"}'] += 1
        out.fails.append(('inverse-text', f'reify_edges fails on an in-domain graph: {ro[1:]}', case))
        return
    r = ro[1]
    do = impl_out(transform.dereify_edges, r, m)
    pending.append((f'(2 {inf.wm} {graph_txt(r)})', 'dereify(reify(g))', case, do))
    pending.append((f'(5 {inf.wm} (1 2) {wg})', 'program [1,2]', case, do))

    # reifiable-left
    left = [t for t in r.triples if m.is_role_reifiable(t[1])]
    if left:
        out.fails.append(('reifiable-left', f'reify_edges leaves reifiable triples {left[:3]}', case))
    # fresh / fresh-capture
    new = r.variables() - gv
    inst_r = collections.Counter(t[0] for t in r.triples if t[1] == INSTANCE)
    if (len(new) != nre or any(not (isinstance(v, str) and VAR_FRESH.match(v)) for v in new)
            or any(inst_r[v] != 1 for v in new) or (new & gv)):
        out.fails.append(('fresh', f'new variables {sorted(new, key=str)} for {nre} reified triples '
                          f'(instances {[inst_r[v] for v in sorted(new, key=str)]})', case))
    if new & gtargets:
        out.fails.append(('fresh-capture', f'new variable(s) {sorted(new & gtargets)} capture a constant of the graph', case))
    # rest-changed
    rest_g = [t for t in g.triples if not m.is_role_reifiable(t[1])]
    rest_r = [t for t in r.triples if t[0] not in new and t[2] not in new]
    if rest_r != rest_g:
        out.fails.append(('rest-changed', 'the non-reifiable triples are not kept in order', case))
    elif any(canon_epis(r.epidata.get(t, [])) != canon_epis(g.epidata.get(t, [])) for t in rest_g):
        out.fails.append(('rest-changed', 'markers of a non-reifiable triple changed', case))
    elif r.top != g.top or r.metadata != g.metadata:
        out.fails.append(('rest-changed', f'top/metadata changed: {g.top!r} -> {r.top!r}', case))
    elif not inf.reifiable and (r.triples != g.triples or common.canon_graph(r) != common.canon_graph(g)):
        out.fails.append(('rest-changed', 'reify_edges is not the identity under a model without reifications', case))
    # inverse-text
    if do[0] != 'ok':
        stat[f'exception:{do[1] if do[0] == "exc" else "timeout"}'] += 1
        out.fails.append(('inverse-text', f'dereify_edges fails on the reified graph: {do[1:]}', case))
        return
    d = do[1]
    why = None
    if d.triples != g.triples:
        why = 'triples differ'
    elif d.top != g.top or d.metadata != g.metadata:
        why = 'top or metadata differ'
    else:
        for t in g.triples:
            if canon_epis(d.epidata.get(t, [])) != canon_epis(g.epidata.get(t, [])):
                why = f'markers of {t} differ: {g.epidata.get(t, [])} -> {d.epidata.get(t, [])}'
                break
    if why is None:
        try:
            eg = common.timed(codec.encode, g, seconds=5)
            ed = common.timed(codec.encode, d, seconds=5)
            if eg != ed:
                why = f'text differs: {ed!r}'
        except Exception as e:
            why = f'encode raises {e!r}'
    if why is not None:
        out.fails.append(('inverse-text', f'dereify(reify(g)) != g: {why}', case))
    if nre and len(out.samples) < 2 and (ninv or '~' in text):
        out.samples.append(dict(case, reified=safe_text(codec, r), restored=safe_text(codec, d)))


def settle(out, pending, exe):
    """Run the model on the pending requests of a batch and diff."""
    results = drive(exe, [p[0] for p in pending])
    out.nreq += len(pending)
    for (line, what, case, exp), got in zip(pending, results):
        if what == 'agenda':
            no_coll, agc = exp
            if got[0] != 0:
                out.mismatches.append((f'{what}: model outcome is not Ok', case, exp, got))
                continue
            entries = [[common.atom_key(common.d_atom(e[0])), common.d_triple(e[1]), common.d_triple(e[2]),
                        [common.d_epi(x) for x in e[3]]] for e in got[1]]
            if (entries == []) != no_coll:
                out.mismatches.append(('no_collapsible: model agenda emptiness vs dereify_edges identity', case, no_coll, entries))
            elif agc is not None and agc != entries:
                out.mismatches.append(('agenda differs', case, agc, entries))
            continue
        mo = d_out(got)
        if not same_outcome(exp, mo):
            out.mismatches.append((f'{what} differs', case, show_outcome(exp), mo))


_EXE = None


def batch_worker(batch):
    exe, jobs = batch
    out, pending = Out(), []
    for job in jobs:
        eval_case(_INFO[job[0]], job, out, pending)
    settle(out, pending, exe)
    return out


MAX_KEEP = 40


def merge(chk, outs, max_keep=None):
    max_keep = max_keep or MAX_KEEP
    for o in outs:
        for k, v in o.stats.items():
            chk.stat(k, v)
        for key, nontrivial in o.counts:
            chk.count(key, nontrivial=nontrivial)
        for s in o.samples:
            chk.sample(s)
        for key, what, case in o.fails:
            if len(chk.failures) < max_keep or key not in set(f['key'] for f in chk.failures):
                chk.fail(key, what, case)
            chk.stat(f'FAIL:{key}')
        for what, case, impl, model in o.mismatches:
            if len(chk.mismatches) < max_keep:
                chk.mismatch(what, case, impl, model)
            chk.stat('MISMATCH')
        chk.corr_cases += o.nreq


def batches(exe, jobs, size=250):
    return [(exe, jobs[i:i + size]) for i in range(0, len(jobs), size)]


# ============================================================================================


def run(chk):
    chk.rule = ('graphs DECODED from PENMAN text (text kept for replay). Streams: (exhaustive) for the live AMR table every '
                'reifiable role R and R-of x target in {7, _, (b / y), a (self-loop), R~1 (b / y~2), c~e.4} alone, before/after '
                'one of 7 second relations, and inside a nested / inverted host; for mini-AMR all pairs of 9 roles x 6 targets; '
                '(random) gen.random_tree_node trees of depth <= 3 over the reifiable AMR roles, their -of spellings, '
                'non-reifiable roles, re-entrancies, aligned roles/targets/concepts, variables named _ / _2, constants _ / _2 / _3, '
                'dereifiable concepts on ordinary nodes, under models {AMR live, mini-AMR, default (no-op case), random tables '
                '(models.random_table + a richer variant with two rows per role/concept)}; (collapse) trees around a node with '
                'a dereifiable concept and the roles of one table row, collapsible or protected by a third relation / being top / '
                'being referenced. A case is distinct per (model table, text) and non-trivial when at least one triple is reified '
                '(or a node collapsed). Domain filters (python twins of the hypotheses of C11_inverse): wf, epi_ok, markers of '
                'reifiable triples in canonical order, table_ok_for (computed from the table alone, incl. sr != tr), no_collapsible.')
    chk.require_theorems('Properties.C11', THEOREMS)
    chk.assumptions.append('epidata equality is proved as a function triple -> marker list (what configure/encode read); '
                           'dict key order and materialised empty entries differ and are not observed by encode')
    common.use_repo()
    quick = chk.tier == 'quick'
    rng = chk.rng
    amr = register('amr', models.amr_table(), live=True)
    mini = register('mini', models.MINI_AMR)
    register('default', models.DEFAULT)

    # the table_ok verdict of the AMR table, recomputed from the live module
    bad = dict((r, v) for r, v in amr.ok.items() if not all(v))
    chk.notes.append('AMR roles failing table_ok (shape, plain, inv): %s' % json.dumps(bad, sort_keys=True))
    expected = {':subset': (True, True, False), ':superset': (True, True, False)}
    if bad != expected:
        chk.notes.append('UNEXPECTED: the set of ambiguous AMR roles changed (expected exactly :subset/:superset failing inv)')
        chk.stat('amr-table-ok-verdict-changed')
    bad_mini = dict((r, v) for r, v in mini.ok.items() if not all(v))
    chk.notes.append('mini-AMR roles failing table_ok: %s' % json.dumps(bad_mini, sort_keys=True))

    exe = str(common.build_driver('xform'))
    jobs = []
    # ---- bounded-exhaustive ------------------------------------------------------------------
    for text in amr_exhaustive(amr):
        jobs.append(('amr', 'exhaustive', text))
    for text in mini_exhaustive():
        jobs.append(('mini', 'exhaustive', text))
    # the spelled-out shapes named by the property text (always in the quick stream)
    for text in ['(c / x :subset c)', '(c / x :superset c)', '(c / x :subset-of c)', '(a / x :superset 7)', '(a / x :subset 7)',
                 '(a / x :mod _)', '(a / x :mod _ :mod _2 :mod _3)', '(a / x :polarity _ :quant _2)', '(_ / x :mod _2)',
                 '(_ / x :mod (_2 / y :mod _3))', '(a / x :mod~1 b~2)', '(a / x~e.3 :mod-of~1 (b / y~2))',
                 '(a / _ :mod 7)', '(a / _2 :mod (b / _))', '(a / x :ARG0 _ :mod 7)', '(a / x :mod 7 :ARG0 _)',
                 '(a / x :mod (b / y) :ARG0 b :location b)', '(a / x :poss-of (b / y :poss-of (c / z :poss a)))',
                 '(b / x :subset-of (a / y))', '(b / x :superset-of (a / y))',
                 '(a / x :ARG1-of (w / have-mod-91 :ARG2 7))', '(a / x :ARG1-of (w / have-mod-91 :ARG2 7 :ARG0 5))',
                 '(a / x :ARG0 (w / have-mod-91 :ARG1 (b / y) :ARG2 7))', '(w / have-mod-91 :ARG1 (b / y) :ARG2 7)',
                 '(a / x :ARG1-of (w / have-mod-91 :ARG2 7) :ARG0 w)', '(b / y :ARG2-of (w / have-mod-91 :ARG1 7))',
                 '(a / x :ARG1-of (w / include-91 :ARG2 (b / y)))', '(a / x :ARG2-of (w / include-91 :ARG1 (b / y)))']:
        jobs.append(('amr', 'named', text))
    # ---- random ----------------------------------------------------------------------------------
    n_amr, n_mini, n_def, n_tab, per_tab, n_coll = ((20000, 5000, 2000, 400, 30, 8000) if quick
                                                    else (150000, 30000, 10000, 3000, 40, 50000))
    for _ in range(n_amr):
        jobs.append(('amr', 'random', random_node(rng, amr)))
    for _ in range(n_mini):
        jobs.append(('mini', 'random', random_node(rng, mini)))
    for _ in range(n_def):
        jobs.append(('default', 'random', random_node(rng, _INFO['default'])))
    tables = []
    for i in range(n_tab):
        tbl = rich_table(rng) if i % 2 else models.random_table(rng)
        try:
            inf = register(f'rand{i}', tbl)
        except (ValueError, re.error):
            chk.stat('tables-unsupported')
            continue
        tables.append(inf)
        chk.stat('tables')
        if all(all(v) for v in inf.ok.values()):
            chk.stat('tables-unambiguous' if inf.reifiable else 'tables-without-reifications')
        else:
            chk.stat('tables-with-an-ambiguous-role')
        for _ in range(per_tab):
            jobs.append((inf.name, 'random', random_node(rng, inf)))
    for i in range(n_coll):
        inf = amr if i % 2 == 0 else (mini if i % 4 == 1 or not tables else rng.choice(tables))
        jobs.append((inf.name, 'collapse', collapse_node(rng, inf)))

    outs = common.pmap(batch_worker, batches(exe, jobs), chunk=1)
    merge(chk, outs)
    cli_stream(chk)
    constructor_arguments_stream(chk)


def constructor_arguments_stream(chk):
    """The round trip under models built with the rarely used constructor arguments (top_variable, top_role,
    concept_role given explicitly, with other values than the defaults): the reified node is a NODE (its concept is an
    instance triple of the graph, whatever the model calls its concept role), and dereifying gives the text back."""
    import penman
    from penman import transform
    from penman.model import Model
    from penman.models.amr import model as amr
    rows = [(r, c, s, t) for r, rs in amr.reifications.items() for c, s, t in rs]
    variants = [dict(concept_role=':isa'), dict(concept_role='/'), dict(top_role=':ROOT', top_variable='root'),
                dict(concept_role=':instance', top_role=':TOP')]
    texts = ['(a / alpha :mod (b / beta) :polarity -)', '(a / alpha :location (c / city :name "X") :mod 7)',
             '(a / alpha~1 :mod~2 (b / beta~3) :ARG0 b)', '(w / want-01 :ARG0 (b / boy :quant 3) :time (d / day))']
    for kw in variants:
        m = Model(roles=dict(amr.roles), normalizations=dict(amr.normalizations), reifications=rows, **kw)
        for text in texts:
            case = {'stream': 'constructor-arguments', 'model_arguments': kw, 'text': text}
            chk.count(('constructor-arguments', repr(kw), text))
            try:
                g = penman.decode(text, model=m)
                r = common.timed(transform.reify_edges, g, m, seconds=5)
                back = common.timed(transform.dereify_edges, r, m, seconds=5)
                got = penman.encode(back, model=m, indent=None)
                want = penman.encode(g, model=m, indent=None)
            except Exception as e:       # noqa
                chk.fail('roundtrip', f'{type(e).__name__} under Model({kw})', case)
                continue
            new_nodes = {t[0] for t in r.triples} - {t[0] for t in g.triples}
            if any(not any(t[0] == v and t[1] == ':instance' for t in r.triples) for v in new_nodes):
                chk.fail('roundtrip', f'under Model({kw}) a reified node has no instance triple: {r.triples!r}', case)
            elif len(r.triples) == len(g.triples):
                chk.fail('roundtrip', f'under Model({kw}) nothing was reified', case)
            elif got != want:
                chk.fail('roundtrip', f'under Model({kw}) dereify(reify(g)) is written {got!r}, the input {want!r}', case)
    chk.stat('constructor-argument-cases', len(variants) * len(texts))


def cli_stream(chk):
    """The property is also observed at `penman --reify-edges / --dereify-edges`: the tool with one or both options must
    write what the library functions give (in-process call of penman.__main__.main, a few real subprocesses)."""
    import penman
    from penman import transform
    from penman.models.amr import model as amr
    from penman.tree import Tree
    from harness import c20
    n = 120 if chk.tier == 'quick' else 1200
    roles = [':ARG0', ':ARG1', ':mod', ':location', ':time', ':poss', ':quant', ':polarity', ':ARG0-of', ':mod-of']
    for i in range(n):
        node = gen.random_tree_node(chk.rng, gen.fresh_vars(), maxdepth=chk.rng.choice([1, 2, 3]), wf=True, roles=roles,
                                    atoms=['x', 'y', '-', '"s"', '7', 'have-mod-91'])
        text = penman.format(Tree(node), indent=None) + '\n'
        for flags in (['--reify-edges'], ['--dereify-edges'], ['--reify-edges', '--dereify-edges']):
            case = {'stream': 'cli', 'text': text, 'flags': flags}
            chk.count(('cli', text, tuple(flags)))
            try:
                g = penman.decode(text, model=amr)
                if '--reify-edges' in flags:
                    g = transform.reify_edges(g, amr)
                if '--dereify-edges' in flags:
                    g = transform.dereify_edges(g, amr)
                want = penman.encode(g, model=amr) + '\n'
            except Exception:       # noqa: judged elsewhere
                continue
            runner = c20.run_cli_subprocess if i % 40 == 0 else c20.run_cli_inprocess
            out, code, err = runner(['--amr'] + flags, text, [])
            if out != want or code != 0:
                chk.fail('cli', f'penman --amr {" ".join(flags)} does not write what the library transforms give', dict(case, got=out, want=want))
        chk.stat('cli-texts')


# ============================================================================================


def case_model(case):
    tbl = case.get('model')
    if tbl == 'penman.models.amr' or tbl is None:
        return register('amr', models.amr_table(), live=True)
    tbl = dict(tbl, reifs=[tuple(r) for r in tbl['reifs']])
    return register('replay', tbl)


def replay(obj):
    """Re-run the failing case on the implementation and show what happens."""
    common.use_repo()
    from penman import transform
    case = obj.get('case') or {}
    print('replay case:', json.dumps(case, default=str))
    print('recorded   :', obj.get('key'), '-', obj.get('what'))
    inf = case_model(case)
    m, codec = inf.m, inf.codec
    g = codec.decode(case['text'])
    print('text       :', case['text'])
    print('g.triples  :', g.triples, 'top', g.top)
    print('g.epidata  :', dict(g.epidata))
    print('wf:', is_wf(g), ' table_ok_for:', all(triple_in_domain(inf, g, t) for t in g.triples),
          ' no_collapsible:', transform.dereify_edges(g, m).triples == g.triples)
    try:
        r = transform.reify_edges(g, m)
        print('reified    :', safe_text(codec, r))
        print('r.triples  :', r.triples)
        print('r.epidata  :', dict(r.epidata))
        d = transform.dereify_edges(r, m)
        print('dereified  :', safe_text(codec, d))
        print('d.triples  :', d.triples)
        print('d.epidata  :', dict(d.epidata))
        print('encode(g)  :', safe_text(codec, g))
        print('restored   :', d.triples == g.triples and codec.encode(d) == codec.encode(g)
              and all(canon_epis(d.epidata.get(t, [])) == canon_epis(g.epidata.get(t, [])) for t in g.triples))
    except Exception as e:
        print('raises     :', repr(e))
    d2 = transform.dereify_edges(g, m)
    print('dereify(g) :', safe_text(codec, d2))
    return 0
