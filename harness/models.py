"""Model tables shared by the property checks: the same table is turned into a
live penman Model (implementation side) and into the wire form of an [mtable]
(model side)."""
import re

from harness import common

MINI_AMR = {
    'roles': [':ARG0', ':ARG1', ':accompanier', ':domain', ':consist-of', ':mod', ':op[0-9]+'],
    'norms': {':mod-of': ':domain', ':domain-of': ':mod'},
    'reifs': [(':accompanier', 'accompany-01', ':ARG0', ':ARG1'), (':mod', 'have-mod-91', ':ARG1', ':ARG2')],
    'noop': False,
}
DEFAULT = {'roles': [], 'norms': {}, 'reifs': [], 'noop': False}
NOOP = {'roles': [], 'norms': {}, 'reifs': [], 'noop': True}


def amr_table():
    """The AMR table read from the LIVE module in /repo."""
    common.use_repo()
    from penman.models import amr
    return {'roles': list(amr.roles), 'norms': dict(amr.normalizations),
            'reifs': [tuple(r) for r in amr.reifications], 'noop': False}


def impl_model(tbl, live_amr=False):
    common.use_repo()
    from penman.model import Model
    from penman.models.noop import NoOpModel
    if live_amr:
        from penman.models.amr import model
        return model
    cls = NoOpModel if tbl['noop'] else Model
    # reifications is documented as an Iterable: pass a ONE-SHOT iterator, as a caller reading rows from a file would
    return cls(roles={r: {} for r in tbl['roles']}, normalizations=dict(tbl['norms']),
               reifications=(tuple(r) for r in tbl['reifs']))


def wire_model(tbl):
    return common.e_table(tbl['roles'], not tbl['noop'], tbl['norms'], tbl['reifs'])


def defined(tbl, role):
    """Independent definition of `the model defines this role` (full match of one pattern)."""
    pats = list(tbl['roles']) + [':TOP', ':instance']
    return any(re.fullmatch(p, role) is not None and not role.endswith('\n') for p in pats)


def norm_closed(tbl):
    """Python twin of Spec.RoleAlgebra.norm_closed_b (used only to classify failures)."""
    m = impl_model(dict(tbl, norms={}))
    for k, v in tbl['norms'].items():
        if not (v == '/' or v.startswith(':')) or '~' in v:
            return False
        if m.canonicalize_role(v) != v:
            return False
        if v in tbl['norms'] and tbl['norms'][v] != v:
            return False
    return True


def random_table(rng):
    bases = [':a', ':b', ':a-of', ':b-of', ':a-of-of', ':c', ':x-y', ':op[0-9]+', ':ARG[0-9]', ':s[0-9]', ':p-of[0-9]',
             ':q[0-9]-of', ':r[0-9]+-of']
    roles = rng.sample(bases, rng.randint(0, 5))
    cand = [':a', ':b', ':c', ':a-of', ':b-of', ':c-of', ':d', ':op1', ':a-of-of', ':ARG0-of', ':ARG1']
    norms = {}
    for _ in range(rng.choice([0, 0, 1, 2, 3])):
        norms[rng.choice(cand)] = rng.choice(cand + ['b', ':x~1'] if rng.random() < .1 else cand)
    concepts = ['k-91', 'q-01', 'r-02']
    rroles = [':ARG0', ':ARG1', ':ARG2', ':ARG3']
    reifs = []
    for _ in range(rng.choice([0, 0, 1, 2, 4])):
        s, t = rng.sample(rroles, 2) if rng.random() < .9 else [rng.choice(rroles)] * 2
        reifs.append((rng.choice([':a', ':b', ':c', ':mod', ':a-of']), rng.choice(concepts), s, t))
    return {'roles': roles, 'norms': norms, 'reifs': reifs, 'noop': rng.random() < .15}
