"""Serialisation corollaries composed from the C12 graph-level theorems, the end-to-end
theorem E2E_C03x_decode_encode and the C09 framing theorems (proofs:
coq/Proofs/Serialise_lemmas.v).

THEOREMS_C12: coq/Properties/C12b.v -- the clause - the returned graph encodes without
error and decodes to itself - of C12.
  * C12b_serialises_if_wf / C12b_serialises_if_node_graph: the generic corollary (a result
    that is well formed, connected to its own top, lexable, with printable alignments,
    serialises); this is the statement the oracle of harness/c12.py instantiates.
  * reify_edges, reify_attributes: everything discharged from hypotheses on the INPUT
    (fresh variables keep the triples pairwise distinct); the bundle ser_hyps is an
    invariant, so every program made of the two reifications serialises.
  * indicate_branches: pairwise distinctness of the RESULT is a hypothesis.
  * dereify_edges (_partial): distinctness, pushes_name_variables and alns_printable of the
    RESULT are hypotheses; machine-checked counterexamples show none of the three is kept
    (C12b_dereify_loses_distinctness, C12b_dereify_loses_push_names,
    C12b_dereify_moves_alignment_onto_None -- the last with a real change of content).

THEOREMS_C09: coq/Properties/C09b.v -- dumps / loads WITHOUT the - every configured tree is
wf_tree - side condition of C09_dumps_loads, for graphs satisfying the end-to-end
hypotheses (e2e_hyps); per element the loaded graph is graph_eq to the textual input.

Register with  chk.require_theorems('Properties.C12b', THEOREMS_C12)  and
               chk.require_theorems('Properties.C09b', THEOREMS_C09).
"""

MODULE_C12 = 'Properties.C12b'
MODULE_C09 = 'Properties.C09b'

THEOREMS_C12 = [
    'C12b_serialises_if_wf',
    'C12b_serialises_if_node_graph',
    'C12b_vocabularies',
    'C12b_epidata_printable_alns',
    'C12b_reify_edges_serialises',
    'C12b_reify_attributes_serialises',
    'C12b_reify_edges_keeps',
    'C12b_reify_attributes_keeps',
    'C12b_reify_program_serialises',
    'C12b_ser_hyps_serialises',
    'C12b_ser_hyps_unfold',
    'C12b_indicate_branches_serialises',
    'C12b_indicate_branches_keeps',
    'C12b_dereify_edges_serialises_partial',
    'C12b_dereify_edges_keeps_partial',
    'C12b_hyps_checkable',
]

# Examples (non-vacuity and counterexamples), also checked for axioms when registered
EXAMPLES_C12 = [
    'C12b_tables_qualify',
    'C12b_chapter_hyps',
    'C12b_reify_edges_example',
    'C12b_reify_attributes_example',
    'C12b_reify_program_example',
    'C12b_indicate_branches_example',
    'C12b_dereify_edges_example',
    'C12b_cli_order_example',
    'C12b_dereify_loses_distinctness',
    'C12b_dereify_loses_push_names',
    'C12b_dereify_moves_alignment_onto_None',
    'C12b_indicate_loses_distinctness',
]

THEOREMS_C09 = [
    'C09b_e2e_hyps_unfold',
    'C09b_configured_tree_wf',
    'C09b_dumps_loads_unconditional',
    'C09b_dumps_loads_decode_all',
    'C09b_dump_text_unconditional',
    'C09b_hyps_checkable',
]

EXAMPLES_C09 = [
    'C09b_hypotheses_satisfiable',
    'C09b_literal_condition_fails',
    'C09b_nonvacuous',
]
