THEOREMS_C02 = ['E2E_C02_encode_decode', 'E2E_C02_normal_form_wf', 'E2E_C02_text_fixpoint']
THEOREMS_C03 = ['E2E_C03_roundtrip', 'E2E_C03_decode_encode', 'E2E_C03_textual_id', 'E2E_C03_roundtrip_no_numbers']
THEOREMS_C06 = ['E2E_C06_reach_decided', 'E2E_C06_error_iff', 'E2E_C06_encode_error_iff', 'E2E_C06_encode_outcomes']
