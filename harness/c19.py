"""C19 — triple-conjunction notation round-trips.

proof:          coq/Properties/C19.v  (for ALL non-empty lists of well-formed triples and both line
                styles: parse_triples(format_triples(ts, indent)) = ts, at the level of STRINGS, i.e.
                through the TRIPLE_RE lexer model; every comma / caret spacing variant at the token level)
correspondence: extracted format_triples and parse_triples vs penman.format_triples / penman.parse_triples
                on in-domain lists, both indent values, and on the spacing-variant texts
oracle:         parse_triples(format_triples(ts, indent)) == ts (targets as text) on the implementation,
                every role starts with ':', every spacing variant parses to the same list
"""
import itertools
import re

from harness import common, gen
from harness.common import e_str, d_str, d_opt, timed, Timeout

THEOREMS = ['C19_roundtrip', 'C19_roles_keep_colon', 'C19_example_wf', 'C19_example_roundtrip', 'C19_lex_format',
            'C19_spacing', 'C19_spacing_same', 'C19_spacing_strings', 'C19_comma_in_source_rejected',
            'C19_newline_in_string_rejected', 'C19_anonymous_role_rejected']

NOT_NAME = set(' \t\r\n\v\f"()/:~')
STRING_RE = re.compile(r'"[^"\\]*(?:\\.[^"\\]*)*"')


def wf_sym(w):
    return isinstance(w, str) and w != '' and all(c not in NOT_NAME for c in w) and w[0] != '#'


def wf_string(x):
    return isinstance(x, str) and '\n' not in x and '\r' not in x and STRING_RE.fullmatch(x) is not None


def target_text(t):
    return t if isinstance(t, str) else str(t)


def with_colon(r):
    return r if not isinstance(r, str) or r.startswith(':') else ':' + r


def wf_conj_triple(t):
    """Python mirror of Triples_lemmas.wf_conj_triple (a role written without its colon is read as the same role:
    the statement says the roles COME BACK with their colon)."""
    s, r, x = t
    r = with_colon(r)
    if not (wf_sym(s) and ',' not in s):
        return False
    if not (isinstance(r, str) and r.startswith(':') and wf_sym(r[1:])):
        return False
    if x is None or isinstance(x, bool):
        return False
    if isinstance(x, (int, float)):
        return wf_sym(str(x))
    return wf_sym(x) or wf_string(x)


SOURCES = ['a', 'b', 'x1', 'é', '^a', 'a#b', 'x.y', '-', '1', 'a^b', 'a\xa0b', 'bark-01']
ROLES = [':ARG0', ':instance', ':op1', ':ARG0-of', ':r,s', ':^x', ':^', ':a#', ':mod', ':x.y', ':é', ':,',
         'ARG1', 'instance', 'op2', 'mod-of']       # a hand-built list may leave the colon out: it is written the same
SYM_TARGETS = ['b', 'bark-01', 'b,c', '^', '^x', ',', 'a#', '-', '+', 'x~1', 'e.1', '　z', '\u201cKim\u201d', '8,400,000', 'x^2',
               '\u2018q\u2019', '\xabg\xbb']
NUM_TARGETS = [7, 0, -1, -1.5, 0.0, 1e-05, 10 ** 20, float('inf')]
STR_TARGETS = ['"she said \u201chi, there\u201d \u201e"', '"\u201d"', '"s"', '""', '"a b"', '"a, b"', '"(x)"', '"^"', '" ^ "', '"a\\"b"', '"#"', '"a\tb"', '"r(a, b)"',
               '"\\\\"', '"a\x0bb\x0c"', '"), ^ x("', '":-)"', '"f(x"', '"))"', '"~:/"', '"日本 語"', '"\x85 "']
OUTSIDE = [('a,b', ':r', 'c'), ('a', ':', 'b'), ('a', 'r', 'b'), ('a', '::r', 'b'), ('a', ':r', None), ('a', ':r', ''),
           ('#a', ':r', 'b'), ('a', ':#r', 'b'), ('a', ':r', '#b'), ('a', ':r', '"x\ny"'), ('', ':r', 'b'),
           ('a b', ':r', 'c'), ('a', ':r', 'b c'), ('a', ':r', '"unterminated'), (None, ':r', 'b'), ('a', ':r(', 'b')]


def random_triple(rng):
    r = rng.random()
    if r < .45:
        tgt = rng.choice(SYM_TARGETS + SOURCES)
    elif r < .6:
        tgt = rng.choice(NUM_TARGETS)
    else:
        tgt = rng.choice(STR_TARGETS)
        if rng.random() < .3:     # random content, escaped
            body = ''.join(rng.choice(['a', ' ', ',', '(', ')', '^', '\\"', '\\\\', ':', '~', '#', '/', 'é', '\t'])
                           for _ in range(rng.randint(0, 8)))
            tgt = '"' + body + '"'
    return (rng.choice(SOURCES), rng.choice(ROLES), tgt)


def render_variant(rng, ts):
    """The same conjunction in a random documented spacing."""
    out = ''
    for i, (s, r, x) in enumerate(ts):
        role = with_colon(r)[1:]
        x = target_text(x)
        if x.startswith('"'):
            comma = rng.choice([', ', ' , ', ',', ' ,', ',  ', '\n,\n'])       # a,"s" lexes as  a,  "s"
        else:
            comma = rng.choice([',', ', ', ' ,', ' , ', ',\n', '  ,  '])
        body = f'{role}({s}{comma}{x})'
        if rng.random() < .2:
            body = f'{role} ( {s}{comma}{x} )'
        if i:
            out += rng.choice(['^', ' ^', '^ ', ' ^ ', ' ^\n', '\n^\n', ' ^\n   '])
        out += body
    return out


def impl_roundtrip(args):
    """-> (text, parsed or ('err', l, o) or ('exc', name)) on the implementation."""
    import penman
    ts, indent = args
    try:
        text = timed(penman.format_triples, ts, indent, seconds=5)
    except BaseException as e:       # noqa
        return (None, ('exc', 'format:' + type(e).__name__))
    return (text, impl_parse(text))


def impl_parse(text, seconds=5):
    import penman
    try:
        return ('ok', [list(t) for t in timed(penman.parse_triples, text, seconds=seconds)])
    except penman.DecodeError as e:
        return ('err', e.lineno, e.offset)
    except Timeout:
        if seconds < 60:      # a stalled worker on a loaded machine is not a hang: confirm with a long limit
            return impl_parse(text, seconds=60)
        return ('exc', 'Timeout')
    except BaseException as e:       # noqa
        return ('exc', type(e).__name__)


def d_ptriples(v):
    if v[0] == 0:
        return ('ok', [[d_str(a), d_str(b), d_opt(d_str, c)] for a, b, c in v[1]])
    if v[0] == 1:
        return ('err', v[1], v[2])
    return ('exc', 'model-outcome-%d' % v[0])


def run(chk):
    quick = chk.tier == 'quick'
    chk.rule = ('lists of 1..6 triples: (i) every single triple and every pair from the pools of sources x roles x '
                'targets (symbols incl. commas, carets, hashes; numbers; quoted strings with blanks, commas, parentheses, '
                'carets, escapes, control characters); (ii) random lists; (iii) the triples of graphs decoded from random '
                'PENMAN texts (None targets are outside the domain and counted); each x indent in {True, False} x a random '
                'documented spacing variant.  A case is a (list, indent) pair; it is in the domain when every triple '
                'satisfies wf_conj_triple; non-trivial when the list has a string or comma-bearing target or >= 2 triples.')
    chk.require_theorems('Properties.C19', THEOREMS)
    penman = common.use_repo()
    chk.assumptions += [
        'numbers are compared by their str() text (parse_triples returns strings)',
        'wf_conj_triple excludes: sources containing a comma, symbols starting with a hash, the anonymous role ":", roles '
        'without exactly one leading colon, None or empty targets, quoted strings containing CR/LF (DESIGN N2); these are '
        'counted as outside-domain and not compared',
    ]
    lists = []
    # (i) pools
    targets = SYM_TARGETS + NUM_TARGETS + STR_TARGETS
    singles = [(s, r, x) for s in SOURCES for r in ROLES for x in targets]
    if quick:
        singles = chk.rng.sample(singles, 1500) + [(SOURCES[0], ROLES[0], x) for x in targets] + \
                  [(s, r, 'b') for s in SOURCES for r in ROLES]
    for t in singles:
        lists.append(('single', [t]))
    for _ in range(3000 if quick else 40000):
        lists.append(('pair', [random_triple(chk.rng), random_triple(chk.rng)]))
    # (ii) random lists
    for _ in range(6000 if quick else 100000):
        lists.append(('random', [random_triple(chk.rng) for _ in range(chk.rng.randint(1, 6))]))
    # (iii) decoded graphs
    for _ in range(3000 if quick else 40000):
        text = gen.random_penman_text(chk.rng, p_bad=0)
        try:
            g = timed(penman.decode, text, seconds=5)
        except Exception:
            continue
        lists.append(('decoded', list(g.triples)))
        wf = [t for t in g.triples if wf_conj_triple(t)]
        if wf and len(wf) != len(g.triples):
            lists.append(('decoded-filtered', wf))
    # malformed stream (outside the domain; counted only)
    for t in OUTSIDE:
        lists.append(('outside', [t]))
        lists.append(('outside', [('a', ':r', 'b'), t]))

    cases = []
    for kind, ts in lists:
        if not ts:
            chk.stat('empty-list(outside)')
            continue
        if not all(wf_conj_triple(t) for t in ts):
            chk.stat('outside-domain:' + kind)
            continue
        for indent in (True, False):
            cases.append((kind, ts, indent))
    obs = common.pmap(impl_roundtrip, [(ts, indent) for _, ts, indent in cases], chunk=300)
    variants = [render_variant(chk.rng, ts) for _, ts, _ in cases]
    vobs = common.pmap(impl_parse, variants, chunk=300)

    requests = []
    for (kind, ts, indent), (text, res), vtext in zip(cases, obs, variants):
        requests.append([9, [common.e_triple(t) for t in ts], 1 if indent else 0])
        requests.append([8, e_str(text if text is not None else '')])
        requests.append([8, e_str(vtext)])
    results = common.run_driver('parse', requests)
    chk.corr_cases = len(requests)

    for i, ((kind, ts, indent), (text, res), vtext, vres) in enumerate(zip(cases, obs, variants, vobs)):
        case = {'triples': [list(t) for t in ts], 'indent': indent}
        want = [[s, with_colon(r), target_text(x)] for s, r, x in ts]
        nontrivial = len(ts) > 1 or any(isinstance(x, str) and (x.startswith('"') or ',' in x) for _, _, x in ts)
        chk.count(repr((ts, indent)), nontrivial=nontrivial)
        chk.stat(kind)
        chk.stat('len=%d' % min(len(ts), 6))
        if any(isinstance(x, str) and x.startswith('"') for _, _, x in ts):
            chk.stat('has-string-target')
        if len(chk.samples) < 6 and nontrivial and chk.rng.random() < .002:
            chk.sample(dict(case, text=text))
        # ---- every entry point (module function and PENMANCodec method) must agree -----------
        if i % 5 == 0 and text is not None:
            from harness import entrypoints
            bad = (entrypoints.disagreement(entrypoints.triples_variants(text))
                   or entrypoints.disagreement(entrypoints.triples_variants(vtext))
                   or entrypoints.disagreement(entrypoints.format_triples_variants(ts, indent)))
            if bad:
                chk.fail('entry-point', 'entry points of the triple notation disagree: ' + bad, dict(case, text=text))
        # ---- oracle on the implementation -------------------------------------------------
        if res != ('ok', want):
            chk.fail('roundtrip', f'parse_triples(format_triples(ts, indent={indent})) = {str(res)[:200]} differs from ts; '
                     f'text written: {text!r}', case)
        elif any(not r.startswith(':') for _, r, _ in res[1]):
            chk.fail('colon', 'a role came back without its leading colon', case)
        if vres != ('ok', want):
            chk.fail('spacing', f'the spacing variant {vtext!r} parses to {str(vres)[:200]} instead of the same triples',
                     dict(case, variant=vtext))
        # ---- correspondence ---------------------------------------------------------------
        m_text = d_str(results[3 * i])
        if text is not None and m_text != text:
            chk.mismatch('format_triples differs', case, text, m_text)
        m_res = d_ptriples(results[3 * i + 1])
        if text is not None and res[0] != 'exc' and m_res != res:
            chk.mismatch('parse_triples(format_triples) differs', case, res, m_res)
        m_v = d_ptriples(results[3 * i + 2])
        if vres[0] != 'exc' and m_v != vres:
            chk.mismatch('parse_triples(variant) differs', dict(case, variant=vtext), vres, m_v)
    # the documented variants of the test-suite, literally
    for text, want in [('role(a,b)', [['a', ':role', 'b']]), ('role(a, b)', [['a', ':role', 'b']]),
                       ('role(a ,b)', [['a', ':role', 'b']]), ('role(a , b)', [['a', ':role', 'b']]),
                       ('role(a,b)^role(b,c)', [['a', ':role', 'b'], ['b', ':role', 'c']]),
                       ('role(a, b) ^role(b, c)', [['a', ':role', 'b'], ['b', ':role', 'c']]),
                       ('role(a, b) ^ role(b, c)', [['a', ':role', 'b'], ['b', ':role', 'c']]),
                       ('role(a, "q")', [['a', ':role', '"q"']])]:
        chk.count('doc:' + text)
        r = impl_parse(text)
        if r != ('ok', want):
            chk.fail('spacing', f'documented variant {text!r} parses to {r}', {'text': text})


def replay(obj):
    penman = common.use_repo()
    case = obj.get('case') or {}
    print('replay case:', case)
    if 'triples' in case:
        ts = [tuple(t) for t in case['triples']]
        for indent in ([case['indent']] if 'indent' in case else [True, False]):
            text, res = impl_roundtrip((ts, indent))
            print(f'format_triples(ts, indent={indent}) ->', repr(text))
            print('parse_triples(that)  ->', res)
            print('expected             ->', [[s, r, target_text(x)] for s, r, x in ts])
    if 'variant' in case:
        print('variant', repr(case['variant']), '->', impl_parse(case['variant']))
    if 'text' in case:
        print('parse_triples', repr(case['text']), '->', impl_parse(case['text']))
    return 0
