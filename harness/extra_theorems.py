"""Theorems added after round 2 for the two clauses that were oracle-only.

THEOREMS_C07: coq/Properties/C07b.v -- the triple conjunction (parse_triples): acceptance =
the conjunction grammar over tokens (conj_derives / stops), determinism, and the error
POSITION (first token at which no derivable conjunction can continue, or the end of the
last token when input runs out), for token lists and for strings; agreement with the
one-token-per-step automaton (Coq twin of triple_automaton in harness/c07.py).

THEOREMS_C10: coq/Properties/C10b.v -- the naming rule of Tree.reset_variables: the first
pass builds exactly spec_names (k-th distinct variable in depth-first order gets
render(prefix of its first definition's concept, least index not yet used)); counting
corollaries under a separation hypothesis; the concrete format {prefix}{j}: p, p2, p3, ...

Register with  chk.require_theorems('Properties.C07b', THEOREMS_C07)  and
               chk.require_theorems('Properties.C10b', THEOREMS_C10).
"""

THEOREMS_C07 = [
    'C07b_triples_sound',
    'C07b_triples_complete',
    'C07b_triples_accept_iff',
    'C07b_conj_deterministic',
    'C07b_parse_triples_accept_iff',
    'C07b_triples_error_position',
    'C07b_parse_triples_error_position',
    'C07b_viable_prefix_closed',
    'C07b_triples_automaton_agrees',
]

THEOREMS_C10 = [
    'C10b_naming_rule',
    'C10b_reset_variables_spec',
    'C10b_naming_rule_least',
    'C10b_spec_name_least',
    'C10b_spec_names_get',
    'C10b_spec_defs_first',
    'C10b_spec_defs_vars',
    'C10b_naming_rule_count',
    'C10b_first_of_prefix',
    'C10b_prefix_j_separates',
    'C10b_prefix_j_names',
    'C10b_latin1_digit_free',
]
