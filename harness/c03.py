"""C03 — any graph survives encode then decode with its content intact, from any top.

proof:          coq/Properties/C03.v (content preserved whenever configure succeeds, for deinverting
                models; zero constants are written)
correspondence: the whole pipeline on the property's graphs: Impl.Configure.configure (cmd 5) vs
                layout.configure, Impl.Format.format (cmd 3) vs penman.format, Impl.Parse.parse (cmd 2)
                vs penman.parse, Impl.Interpret.interpret (cmd 4) vs layout.interpret
oracle:         penman.encode(g, top) under an alarm must return text; penman.decode of it must be the
                same graph: requested top, same variables, same triples AS MULTISETS up to the model's
                single deinversion of edges (computed from the model TABLE, not by penman), constants by
                their written form, 0 / 0.0 present in the text, one tree node per variable and one
                branch per non-instance triple (harness/c06.py holds the shared oracle).
"""
import collections
import itertools
import random

from harness import common
from harness import c06 as K
from harness.c06 import INSTANCE, Result, Batch, judge, model_info, MODEL_NAMES

THEOREMS = ['C03_content_preserved_partial', 'C03_encoding_total_and_faithful', 'C03_top_and_nodes',
            'C03_canonical_roles_invertible', 'C03_graph_constructor_roles', 'C03_zero_is_written', 'C03_number_text',
            'C03_atom_omitted_iff_missing', 'C03_F5_witness_zero_written', 'C03_zero_concept_written',
            'C03_hypotheses_satisfiable', 'C03_connected_hypotheses_satisfiable']


# ============================================================================================
# pipeline correspondence (format / parse / interpret), once per distinct encoded text

def canon_graph_wire(v):
    if v and v[0] == 0:
        return ['ok', K._jsonable(common.d_graph(v[1]))]
    return K.canon_wire_outcome(v)


def canon_tree_wire(v):
    if v and v[0] == 0:
        node, meta = common.d_tree(v[1])
        return ['ok', K._jsonable(K.norm_node(node)), meta]
    if v and v[0] == 1:
        return ['decode-error', v[1], v[2]]
    return K.canon_wire_outcome(v)


def pipeline_requests(batch, info, tree, s, case):
    """format(tree) == s ; parse(s) ; interpret(parse(s), model) against the extracted model."""
    import penman
    from penman import layout
    if batch.exe is None or info.wm is None:
        return
    try:
        s_fmt = K.guarded(penman.format, tree)
        batch.add_raw('(3 (-1) 0 %s)' % K.tree_txt(tree), K.str_txt(s_fmt), 'format', s_fmt, case, common.d_str)
        t2 = K.guarded(penman.parse, s)
        batch.add_raw('(2 %s)' % K.str_txt(s), '(0 %s)' % K.tree_txt(t2), 'parse',
                      ['ok', K._jsonable(K.norm_node(t2.node)), dict(t2.metadata)], case, canon_tree_wire)
        g2 = K.guarded(layout.interpret, t2, info.m)
        batch.add_raw('(4 %s %s)' % (info.wm, K.tree_txt(t2)), '(0 %s)' % K.graph_txt(g2), 'interpret',
                      ['ok', K._jsonable(common.canon_graph(g2))], case, canon_graph_wire)
    except Exception:                                              # noqa: BLE001  (the oracle reports it)
        return


def orders_of(rng, triples, limit_all=5, nshuffle=30):
    """every permutation for <= limit_all triples, else nshuffle distinct shuffles (identity included)."""
    if len(triples) <= limit_all:
        return [list(p) for p in itertools.permutations(triples)]
    seen, out = set(), []
    out.append(list(triples))
    seen.add(tuple(triples))
    out.append(list(reversed(triples)))
    seen.add(tuple(reversed(triples)))
    tries = 0
    while len(out) < nshuffle and tries < 10 * nshuffle:
        tries += 1
        p = list(triples)
        rng.shuffle(p)
        if tuple(p) not in seen:
            seen.add(tuple(p))
            out.append(p)
    return out


def explore_graph(res, batch, info, rng, stream, base, variables, seen_texts, limit_all=5, nshuffle=30, remark=True,
                  want_key=False, history=None):
    """All orders x all tops of one marker-less graph, then the re-marked graphs obtained by decoding."""
    hangs = 0
    for triples in orders_of(rng, base, limit_all, nshuffle):
        for top in variables:
            F = K.facts(info.tbl, triples, top, None)
            exp = K.expected_triples(info.tbl, F['ts'], F['variables'])
            tag, s, _ = judge(res, info, batch, stream, triples, top, None, [], F, exp, zero_key='zero-dropped',
                              want_key=want_key, history=history)
            if tag == 'hang':
                hangs += 1
                if hangs > 3:
                    return
            if tag != 'ok' or (info.name, s) in seen_texts:
                continue
            seen_texts.add((info.name, s))
            if len(res.samples) < 1 and len(triples) > 3 and top != triples[0][0]:
                res.samples.append(dict(K.make_case(stream, info.name, triples, top, None, []), encoded=s))
            # the tree that produced s (same call as inside encode), for the pipeline correspondence
            cfg = K.configure_outcome(K.build_graph({'triples': triples}), top, info.m)
            if cfg[0] == 'ok':
                pipeline_requests(batch, info, cfg[1], s,
                                  K.make_case(stream, info.name, triples, top, None, []))
            if not remark:
                continue
            # ---- with the markers of a prior decode: re-encode from every top, also with permuted triples
            try:
                g2 = K.guarded(K._decode, s, info.m)
            except Exception:                                      # noqa: BLE001  (already reported by judge)
                continue
            if len(set(g2.triples)) != len(g2.triples):
                res.stats['remark-skipped-collapsed-duplicates'] += 1
                continue
            t2 = [tuple(t) for t in g2.triples]
            epi2 = [(t, tuple(ms)) for t, ms in K.graph_epi(g2) if ms]
            k = rng.randint(1, max(1, len(t2) - 1))
            shuf = list(t2)
            rng.shuffle(shuf)
            orders = list(dict.fromkeys(tuple(o) for o in (t2, t2[::-1], t2[k:] + t2[:k], shuf)))
            for order in map(list, orders):
                for top2 in variables:
                    tg, _, _ = judge(res, info, batch, stream + '-remarked', order, top2, g2._top, epi2,
                                     zero_key='zero-dropped', want_key=want_key, history=[s])
                    if tg == 'hang':
                        hangs += 1
                        if hangs > 3:
                            return


# ============================================================================================
# (1) bounded-exhaustive family over {a, b, c}

R = [':ARG0', ':ARG1-of']


def exh_graphs(tier):
    """-> list of (kind, base triples).  Well-formed connected graphs over <=3 variables with <=2 extra
    triples from a small role/constant alphabet (0 in the 1- and 3-variable graphs, 0.0 in the 2-variable ones)."""
    out = []
    # --- one variable
    e1 = [('a', R[0], 'a'), ('a', R[1], 'a'), ('a', ':quant', 0), ('a', ':quant', -1.5), ('a', ':quant', '"s"'),
          ('a', ':polarity', None), ('a', ':quant', 'k'), ('a', R[1], 'k')]
    for c in ['x', None, 'a', 0, 7]:
        for n in (0, 1, 2):
            for ex in itertools.combinations(e1, n):
                out.append(('v1', [('a', INSTANCE, c)] + list(ex)))
    # --- two variables
    e2 = [('a', R[0], 'b'), ('a', R[1], 'b'), ('b', R[0], 'a'), ('b', R[1], 'a'), ('a', R[0], 'a'),
          ('a', ':quant', 0.0), ('b', ':quant', '"s"'), ('a', ':polarity', None), ('b', R[1], 'k')]
    for ca, cb in [('x', 'y'), ('b', 'y'), (None, 'a'), (0.0, 'y')]:
        for e in e2[:4]:
            base = [('a', INSTANCE, ca), e, ('b', INSTANCE, cb)]
            rest = [x for x in e2 if x != e]
            for n in (0, 1, 2):
                for ex in itertools.combinations(rest, n):
                    out.append(('v2', base + list(ex)))
    # --- three variables: every spanning tree, every direction/role of its two edges
    def edge_opts(u, v):
        return [(u, R[0], v), (u, R[1], v), (v, R[0], u), (v, R[1], u)]
    e3 = [('a', R[0], 'c'), ('c', R[1], 'a'), ('b', R[0], 'b'), ('a', ':quant', 0), ('c', ':quant', '"s"'),
          ('b', ':polarity', None)]
    for (p1, p2) in [(('a', 'b'), ('b', 'c')), (('a', 'b'), ('a', 'c')), (('a', 'c'), ('b', 'c'))]:
        for x1 in edge_opts(*p1):
            for x2 in edge_opts(*p2):
                for concepts in [('x', 'y', None), ('b', 'c', 'a')]:
                    base = [('a', INSTANCE, concepts[0]), x1, ('b', INSTANCE, concepts[1]), x2,
                            ('c', INSTANCE, concepts[2])]
                    out.append(('v3', base))
                    for ex in e3:
                        if ex not in base:
                            out.append(('v3+1', base + [ex]))
                    if tier != 'quick':
                        for ex in itertools.combinations([x for x in e3 if x not in base], 2):
                            out.append(('v3+2', base + list(ex)))
    return K.dedupe_graphs(out)


def exh_worker(item):
    exe, model, graphs, seed, remark = item
    info = model_info(model)
    rng = random.Random(seed)
    res, batch = Result(), Batch(exe)
    seen_texts = set()
    for kind, base in graphs:
        variables = sorted(set(s for s, _, _ in base))
        before = res.n
        explore_graph(res, batch, info, rng, 'exh-' + kind, base, variables, seen_texts, remark=remark)
        res.stats['graphs-' + kind] += 1
        res.stats['cases-' + kind] += res.n - before
    res.stats['distinct-texts'] += len(seen_texts)
    n, mm = batch.run()
    res.corr += n
    res.mism += mm
    return res.pack()


# ============================================================================================
# (2) random larger graphs

def rand_worker(item):
    exe, seed, count, nvars_max, model_names = item
    rng = random.Random(seed)
    res, batch = Result(), Batch(exe)
    seen_texts = set()
    for i in range(count):
        info = model_info(model_names[i % len(model_names)])
        V, triples = K.random_wf_graph(rng, info, nvars_max)
        rng.shuffle(triples)
        res.stats['model-' + info.name] += 1
        res.stats['nvars-%d' % len(V)] += 1
        res.stats['ntriples-%02d' % min(len(triples), 15)] += 1
        if any(K.is_num(t[2]) and not t[2] for t in triples):
            res.stats['has-zero-constant'] += 1
        if any(t[1] == INSTANCE and t[2] in V for t in triples):
            res.stats['concept-spelled-like-variable'] += 1
        explore_graph(res, batch, info, rng, 'rand', triples, sorted(V), seen_texts, limit_all=4, nshuffle=10,
                      want_key=True)
    n, mm = batch.run()
    res.corr += n
    res.mism += mm
    return res.pack()


HAND = [
    # (triples, note)
    ([('a', INSTANCE, 'x'), ('a', ':quant', 0)], 'F5'),
    ([('a', INSTANCE, 'x'), ('a', ':quant', 0.0)], 'F5 float'),
    ([('a', INSTANCE, 'x'), ('a', ':mod', -0.0), ('a', ':ARG0', 'b'), ('b', INSTANCE, -0.0)], 'F5/F27 negative zero'),
    ([('a', INSTANCE, 0)], 'F27'),
    ([('a', INSTANCE, 0.0), ('a', ':ARG0', 'b'), ('b', INSTANCE, 7)], 'F27'),
    ([('b', INSTANCE, 'a'), ('a', INSTANCE, 'y'), ('a', ':', 'b'), ('a', ':op10', 'k'), ('a', ':op2', 'b')], 'F14 (role ":" is ill-formed here: totality only)'),
    ([('a', INSTANCE, 'b'), ('a', ':ARG0', 'b'), ('b', INSTANCE, 'y')], 'site replacement must skip the concept branch'),
    ([('a', INSTANCE, 'b'), ('b', INSTANCE, 'a'), ('b', ':ARG0-of', 'a'), ('a', ':ARG1', 'b')], 'concepts spelled like variables'),
    ([('a', INSTANCE, None), ('a', ':ARG0', 'a')], 'self loop'),
    ([('a', INSTANCE, ''), ('a', ':mod', ''), ('a', ':quant', None)], 'empty targets'),
]


def hand_worker(item):
    exe, model = item
    info = model_info(model)
    rng = random.Random(1)
    res, batch = Result(), Batch(exe)
    seen = set()
    for triples, note in HAND:
        explore_graph(res, batch, info, rng, 'hand', triples, sorted(set(s for s, _, _ in triples)), seen,
                      want_key=True, history=[note])
    n, mm = batch.run()
    res.corr += n
    res.mism += mm
    return res.pack()


# ============================================================================================

def run(chk):
    chk.rule = ('(1) exh-*: ALL well-formed connected graphs over variables {a}, {a,b} (base + <=2 extra triples) and '
                '{a,b,c} (every spanning tree, every direction and role of its edges, + <=1 extra triple quick / <=2 '
                'thorough) from roles {:ARG0, inverted :ARG1-of, :quant, :polarity}, constants {0 | 0.0, -1.5, "s", k, '
                'None}, concepts {symbol, None, numeric incl. 0, spelled like a variable}; EVERY permutation of the '
                'triple list for <=5 triples (else 30 shuffles) x EVERY variable as top x models {default, live AMR, '
                'mini-AMR; no-op on the one-variable family, rand and hand only, its trees being the default model\'s}. (2) rand: random graphs with <=6 variables (<=8 thorough), <=4 extra triples, per-model '
                'invertible roles incl. already-inverted ones, 10 orders x every top. (*-remarked) every distinct '
                'encoded text is decoded and the decoded graph (genuine Push/POP markers, explicit top) re-encoded from '
                'every top in 4 orders of its triples keeping the epidata. A case is distinct per (model, ordered '
                'triple list, markers, top). The content clause is asserted for the deinverting models; the no-op '
                'model takes part in the termination/error/tree-shape clauses and in the correspondence.')
    K.theorems_or_skip(chk, 'Properties.C03', THEOREMS, 'C06_SKIP_PROOFS')
    common.use_repo()
    for name in MODEL_NAMES:
        model_info(name)
    exe = K.driver_exe(chk)
    quick = chk.tier == 'quick'
    rng = chk.rng

    graphs = exh_graphs(chk.tier)
    by_kind = collections.defaultdict(list)
    for kind, base in graphs:
        by_kind[kind].append((kind, base))
    items = []
    for kind, gs in by_kind.items():
        per = {'v1': 60, 'v2': 12, 'v3': 8, 'v3+1': 6, 'v3+2': 4}[kind]
        for model in MODEL_NAMES:
            if kind == 'v3+2' and model not in ('default', 'mini'):
                continue
            if model == 'noop' and kind != 'v1':
                continue     # configure never consults deinvert: the no-op trees are the default model's
            for i in range(0, len(gs), per):
                # re-marked stage on every graph of the small families, on a third of the 6/7-triple ones in quick
                remark = (not quick) or kind in ('v1', 'v2', 'v3') or (i // per) % 3 == 0
                items.append((exe, model, gs[i:i + per], rng.getrandbits(32), remark))
    rng.shuffle(items)
    K.run_stream(chk, 'exh', exh_worker, items)
    chk.stat('exh:work-items', len(items))
    for kind, gs in by_kind.items():
        chk.stat(f'exh:family-{kind}-graphs', len(gs))

    K.run_stream(chk, 'hand', hand_worker, [(exe, m) for m in MODEL_NAMES])

    nitems = 64 if quick else 600
    items = [(exe, rng.getrandbits(48), 8 if quick else 20, 6 if (quick or i % 2) else 8, MODEL_NAMES)
             for i in range(nitems)]
    K.run_stream(chk, 'rand', rand_worker, items)

    chk.exhaustive = False
    chk.notes.append('exh-* enumerate their stated family completely (graphs, orders up to 5 triples, tops); orders of '
                     '6/7-triple graphs and the rand stream are samples; in the quick tier the re-marked stage runs on all '
                     'graphs of the <=5-triple families and on a third of the 6-triple ones')
    chk.notes.append('no-op model: outside the content clause (encode may invert an edge that a no-op decode does not '
                     'deinvert); its decoded triples are compared modulo edge orientation as an extra and only counted '
                     '(stat *:noop-content)')
    chk.assumptions.append('graph equality oracle: multiset of triples after ONE deinversion of edges computed from the '
                           'model TABLE (harness/models.py), cross-checked against the live Model on the roles used')


def replay(obj):
    return K.replay(obj)
