"""C09 — the same text means the same graphs in every container and stream framing.

proof:          coq/Properties/C09.v  (token framing over str / lines / lines with terminators /
                universal newlines, graph-sequence framing, concatenation with any separator,
                dumps/loads and the text written by dump)
correspondence: Impl.Codec (extracted, group `codec`): iterdecode over lines and over str, loads, dumps,
                the characters written by dump, lines_keepends / split_lines / universal_newlines
                vs penman.iterdecode / loads / dumps / dump and real temporary files, default model
                and (sample) the AMR model
oracle:         on the implementation alone: every container of one text yields the same graph sequence
                (triples, top, markers, metadata); every comment block stays with the FOLLOWING graph
                for every separator; loads(dumps(gs)) and load(dump(gs)) give gs back in order; dump
                writes dumps + LF; only LF / CRLF / CR end a line in str input
"""
import io
import json
import os
import re
import shutil
import tempfile

from harness import common, gen, models
from harness.common import e_str, d_str, timed, Timeout

THEOREMS = ['C09_framing_tokens', 'C09_framing', 'C09_concat', 'C09_dumps_loads', 'C09_dump_text']

INDENTS = [None, -1, 0, 2]
OPTIONS = [(i, c) for i in INDENTS for c in (False, True)]
SEPARATORS = ['\n\n', '\n', ' ', '']
BREAKS = '\u2028\u2029\x85\x0b\x0c\x1c\x1d\x1e'          # str.splitlines() breaks here; penman must not
CR_KEEPING = 'keeps-cr'

# ---- generators -------------------------------------------------------------------

MKEYS = ['id', 'snt', 'k', 'tok', 'é', 'a.b', 'x#', 'k:', 'save-date', '', 'k\t']
MVALS = ['1', 'foo bar', ' lead', 'a ; (b) "c" #d', '(x / y)', 'v\xa0w', 'v\u2028w', 'v\x85w', 'a\x0bb\x0cc',
         '\x1cfs\x1dgs\x1ers', 'x:', ':x', 'a: :b', 'tab\tx', '# not a comment', '"', 'é ü', 'v\u2029w']
STR_ATOMS = ['"s t"', '"(~)"', '"a\u2028b"', '"a\x0bb"', '"x\x85"', '"\x1c"', '"a;b#c"', '"\xa0"']


def g_meta(rng):
    """wf metadata: empty values are frequent (the shape `# ::k` + retained CR)."""
    md = {}
    for _ in range(rng.choice([0, 1, 1, 2, 3])):
        md[rng.choice(MKEYS)] = '' if rng.random() < .4 else rng.choice(MVALS)
    return list(md.items())


def g_tree(rng):
    from harness import c01
    r = rng.random()
    if r < .6:
        atoms = ['x', 'y', '-', '1', '2.5', 'dog'] + STR_ATOMS
        # roles the AMR model defines although they end in -of: the model given to load / loads / iterdecode matters
        roles = [':ARG0', ':ARG1', ':ARG0-of', ':op1', ':op2', ':mod', ':polarity', ':quant', ':domain-of', ':ARG1-of',
                 ':consist-of', ':prep-out-of'] if rng.random() < .5 else None
        node = gen.random_tree_node(rng, gen.fresh_vars(), maxdepth=rng.choice([1, 2, 4]), wf=True, atoms=atoms, roles=roles)
        kind = 'gen'
    elif r < .8:
        node = c01.g_node(rng, maxdepth=rng.choice([1, 2, 3]))
        kind = 'robust'
    else:
        from penman import parse
        node, kind = None, 'text'
        for _ in range(20):
            # metadata is generated here, not taken from the text
            s = re.sub(r'^(?:#[^\n]*\n)+', '', gen.random_penman_text(rng, p_bad=0))
            try:
                node = parse(s).node
                break
            except Exception:                                   # noqa
                continue
        if node is None:
            node = ('a', [('/', 'b')])
    return kind, node, g_meta(rng)


def ref_split_keepends(s):
    """Lines of s with their terminators (LF, CRLF, CR): what a file opened with newline='' yields."""
    lines, cur, i, n = [], [], 0, len(s)
    while i < n:
        c = s[i]
        cur.append(c)
        if c == '\n' or c == '\r':
            if c == '\r' and i + 1 < n and s[i + 1] == '\n':
                cur.append('\n')
                i += 1
            lines.append(''.join(cur))
            cur = []
        i += 1
    if cur:
        lines.append(''.join(cur))
    return lines


# ---- implementation side ------------------------------------------------------------

def _end_of(e):
    from penman.exceptions import DecodeError
    if isinstance(e, DecodeError):
        return ('DecodeError', e.lineno, e.offset)
    if isinstance(e, Timeout):
        return ('hang',)
    return (type(e).__name__,)


def patient(fn):
    """fn() under a generous alarm; a Timeout is retried once with a much longer limit, so that a loaded
    machine is not mistaken for a hang (a second Timeout is reported under the key `hang`)."""
    try:
        return timed(fn, seconds=20)
    except Timeout:
        return timed(fn, seconds=90)


def _collect(make_iter):
    """Graphs yielded by a generator + how it ended: {'graphs': [...], 'end': None | (cls, ...)}"""
    gs = []

    def go():
        del gs[:]
        for g in make_iter():
            gs.append(g)
    try:
        patient(go)
        return {'graphs': gs, 'end': None}
    except BaseException as e:                      # noqa: the way the generator ends is the observation
        if isinstance(e, (KeyboardInterrupt, SystemExit)):
            raise
        return {'graphs': gs, 'end': _end_of(e)}


def _call(fn):
    """A list-returning entry point (loads / load): all graphs or the exception."""
    try:
        return {'graphs': patient(fn), 'end': None}
    except BaseException as e:                      # noqa
        if isinstance(e, (KeyboardInterrupt, SystemExit)):
            raise
        return {'graphs': None, 'end': _end_of(e)}


def hung(res):
    return res['end'] is not None and res['end'][0] == 'hang'


def _canon(res):
    return {'graphs': None if res['graphs'] is None else [cg(g) for g in res['graphs']], 'end': res['end']}


def cg(g):
    c = common.canon_graph(g)
    c['metadata'] = list(g.metadata.items())
    return c


def same(a, b):
    """Container results agree: same graphs (when both known) and the same kind of ending."""
    ea = a['end'][0] if a['end'] else None
    eb = b['end'][0] if b['end'] else None
    if ea != eb:
        return False
    if a['graphs'] is None or b['graphs'] is None:
        return True
    return a['graphs'] == b['graphs']


def strip_cr_keys(res):
    if res['graphs'] is None:
        return res
    out = []
    for g in res['graphs']:
        g = dict(g)
        g['metadata'] = [(k.rstrip('\r') if v == '' else k, v) for k, v in g['metadata']]
        out.append(g)
    return {'graphs': out, 'end': res['end']}


def _write(path, text):
    with open(path, 'w', newline='', encoding='utf-8') as fh:
        fh.write(text)


def containers(T, tmp, model=None):
    """[(name, class, canonical result)] for every container of the LF-terminated text T."""
    import penman
    from pathlib import Path
    Tcrlf, Tcr = T.replace('\n', '\r\n'), T.replace('\n', '\r')
    base = os.path.join(tmp, 'f%d' % os.getpid())
    p_lf, p_crlf, p_cr = base + '.lf', base + '.crlf', base + '.cr'
    _write(p_lf, T)
    _write(p_crlf, Tcrlf)
    _write(p_cr, Tcr)
    kw = {'model': model} if model is not None else {}
    it = lambda x: (lambda: penman.iterdecode(x(), **kw))

    def from_file(path, newline):
        def gen_():
            with open(path, encoding='utf-8', newline=newline) as fh:
                yield from penman.iterdecode(fh, **kw)
        return gen_
    out = [
        ('loads(T)', 'str', _call(lambda: penman.loads(T, **kw))),
        ('iterdecode(T)', 'str', _collect(it(lambda: T))),
        ('iterdecode(T.split(LF))', 'lines', _collect(it(lambda: T.split('\n')))),
        ('iterdecode(lines+LF)', 'lines', _collect(it(lambda: ref_split_keepends(T)))),
        ('iterdecode(iter(lines+LF))', 'lines', _collect(it(lambda: iter(ref_split_keepends(T))))),
        ('iterdecode(lines+CRLF)', CR_KEEPING, _collect(it(lambda: ref_split_keepends(Tcrlf)))),
        ('iterdecode(lines+CR)', CR_KEEPING, _collect(it(lambda: ref_split_keepends(Tcr)))),
        ('load(StringIO(T))', 'stream', _call(lambda: penman.load(io.StringIO(T), **kw))),
        ('iterdecode(StringIO(T))', 'stream', _collect(it(lambda: io.StringIO(T)))),
        ('iterdecode(StringIO(CRLF text))', CR_KEEPING, _collect(it(lambda: io.StringIO(Tcrlf)))),
        ('load(StringIO(CRLF text, newline=""))', CR_KEEPING, _call(lambda: penman.load(io.StringIO(Tcrlf, newline=''), **kw))),
        ('iterdecode(StringIO(CR text, newline=""))', CR_KEEPING, _collect(it(lambda: io.StringIO(Tcr, newline='')))),
        ('load(StringIO(CRLF text, newline=None))', 'stream', _call(lambda: penman.load(io.StringIO(Tcrlf, newline=None), **kw))),
        ('load(LF file)', 'file', _call(lambda: penman.load(p_lf, encoding='utf-8', **kw))),
        ('load(Path(LF file))', 'file', _call(lambda: penman.load(Path(p_lf), encoding='utf-8', **kw))),
        ('iterdecode(open(LF file))', 'file', _collect(from_file(p_lf, None))),
        ('load(CRLF file)', 'file', _call(lambda: penman.load(p_crlf, encoding='utf-8', **kw))),
        ('load(CR file)', 'file', _call(lambda: penman.load(p_cr, encoding='utf-8', **kw))),
        ('iterdecode(open(CRLF file, newline=""))', CR_KEEPING, _collect(from_file(p_crlf, ''))),
        ('iterdecode(open(CR file, newline=""))', CR_KEEPING, _collect(from_file(p_cr, ''))),
        ('loads(CRLF text)', 'str', _call(lambda: penman.loads(Tcrlf, **kw))),
        ('loads(CR text)', 'str', _call(lambda: penman.loads(Tcr, **kw))),
    ]
    for p in (p_lf, p_crlf, p_cr):
        os.unlink(p)
    return [(n, k, _canon(r)) for n, k, r in out]


def _strip_meta(res):
    if res['graphs'] is None:
        return None
    return [{k: v for k, v in g.items() if k != 'metadata'} for g in res['graphs']]


def _short(res):
    if res['graphs'] is None:
        return {'end': res['end']}
    return {'n': len(res['graphs']), 'tops': [g['top'] for g in res['graphs']],
            'metadata': [g['metadata'] for g in res['graphs']], 'ntriples': [len(g['triples']) for g in res['graphs']],
            'end': res['end']}


def check_text(T, expected, tmp, fails, label):
    """Container oracle on one text.  expected: canonical graphs the text was generated from, or None
    (malformed stream: the no-terminator line list is the reference)."""
    cs = containers(T, tmp)
    byname = {n: r for n, _, r in cs}
    primary = byname['iterdecode(T)']
    lf_file = byname['load(LF file)']
    special = any(c in T for c in BREAKS)
    if expected is not None:
        E = {'graphs': expected, 'end': None}
        if not same(primary, E) and not hung(primary):
            if special and same(lf_file, E):
                fails.append(('linebreak', f'{label}: a str with U+2028/U+0085/VT/FF/FS..RS inside decodes differently from '
                              f'the same text in a file: {_short(primary)} vs {_short(lf_file)}'))
            elif primary['end'] is None and _strip_meta(primary) == _strip_meta(E):
                fails.append(('metadata-attach', f'{label}: metadata did not stay with the following graph: got '
                              f'{[g["metadata"] for g in primary["graphs"]]}, generated {[g["metadata"] for g in expected]}'))
            else:
                fails.append(('concat', f'{label}: the text of {len(expected)} graphs decodes to {_short(primary)}'))
    else:
        E = byname['iterdecode(T.split(LF))']
    for name, klass, r in cs:
        if hung(r) or hung(primary):
            fails.append(('hang', f'{label}: {name if hung(r) else "iterdecode(T)"} does not return'))
            continue
        if same(r, primary):
            continue            # (a consistent deviation from the generated graphs is reported above)
        if klass == CR_KEEPING and same(strip_cr_keys(r), primary):
            fails.append(('cr-in-key', f'{label}: {name} leaves the CR of a retained terminator in a metadata key '
                          f'whose value is empty: {[g["metadata"] for g in r["graphs"] or []]}'))
        elif special and ((klass == 'str' and same(lf_file, E)) or (klass != 'str' and same(r, E))):
            fails.append(('linebreak', f'{label}: {name} and the str container disagree on a text with '
                          f'U+2028/U+0085/VT/FF/FS..RS: {_short(r)} vs {_short(primary)}'))
        else:
            fails.append(('container', f'{label}: {name} gives {_short(r)} but iterdecode(T) gives {_short(primary)}'
                          + ('' if expected is None else f' (generated: {len(expected)} graphs)')))
    return cs


def _impl_case(item):
    """One sequence.  Returns dict(fails=[(key, what)], stats=[...], corr=[(request, kind, expected)])"""
    common.use_repo()
    import penman
    from penman import layout
    from penman.tree import Tree
    tmp = item['tmp']
    texts, metas = item['texts'], item['metas']
    fails, stats, corr = [], [], []
    wm = models.wire_model(models.DEFAULT)
    # ---- the graphs this sequence is made of: the generated (wf) trees interpreted directly -- no lexer, no
    #      line splitting and no parser is involved in what the containers are expected to return
    expected, graphs = [], []
    for node, md in zip(item['nodes'], metas):
        g = layout.interpret(Tree(_node_of(node), dict((k, v) for k, v in md)))
        graphs.append(g)
        expected.append(cg(g))
    for sep in item['seps']:
        check_text(sep.join(texts) + item['trail'], expected, tmp, fails, f'separator {sep!r}')
    T0 = item['sep'].join(texts) + item['trail']
    # ---- the same under a model given by the caller: every container must hand it to the reading of every graph
    if item['amr']:
        from penman.models.amr import model as amr
        exp_amr = {'graphs': [cg(layout.interpret(Tree(_node_of(node), dict((k, v) for k, v in md)), amr))
                              for node, md in zip(item['nodes'], metas)], 'end': None}
        for name, klass, r in containers(T0, tmp, model=amr):
            if hung(r):
                fails.append(('hang', f'{name} (model=AMR) does not return'))
            elif not same(r, exp_amr) and not (klass == CR_KEEPING and same(strip_cr_keys(r), exp_amr)):
                fails.append(('container', f'model=AMR: {name} gives {_short(r)}, the graphs interpreted under the AMR model are '
                              f'{_short(exp_amr)}'))
        stats.append('containers-under-amr-model')
    # ---- malformed variant of the chosen text: containers must still agree (graphs before the error, error kind)
    if item['mut'] is not None:
        frac, ch, dele = item['mut']
        i = int(frac * len(T0))
        Tm = T0[:i] + ch + T0[i + dele:]
        cs = check_text(Tm, None, tmp, fails, f'mutated text {Tm!r}')
        ends = {r['end'][0] if r['end'] else 'ok' for _, _, r in cs}
        stats.append('mutated-' + '/'.join(sorted(ends)))
        corr_T = Tm
    else:
        corr_T = T0
    # ---- linebreak: in str input only LF / CRLF / CR end a line -- the str and its explicit LF-split line list agree
    #      (a value holding U+2028, U+0085, VT, FF, FS, GS, RS stays ONE value)
    if any(c in T0 for c in BREAKS):
        stats.append('text-with-unicode-linebreak')
        r = _canon(_call(lambda: penman.loads(T0)))
        ls = _canon(_collect(lambda: penman.iterdecode(T0.split('\n'))))
        if hung(r) or hung(ls):
            fails.append(('hang', f'loads({T0!r}) does not return'))
        elif not same(r, ls):
            fails.append(('linebreak', f'loads(T) = {_short(r)} but the LF-split lines of T give {_short(ls)}: a character '
                          f'other than LF / CR ended a line; T = {T0!r}'))
    # ---- dumps / loads / dump / load
    for ind, cmp in item['dump_options']:
        lab = f'indent={ind}, compact={cmp}'
        wgs = [common.e_graph(g) for g in graphs] if item['corr'] else None
        D = _call(lambda: penman.dumps(graphs, indent=ind, compact=cmp))
        sio = io.StringIO()
        W = _call(lambda: penman.dump(graphs, sio, indent=ind, compact=cmp))
        if hung(D) or hung(W):
            fails.append(('hang', f'dumps/dump({lab}) does not return'))
            continue
        if item['corr']:
            corr.append(([15, wm, e_ind(ind), int(cmp), wgs], 'dumps', D['graphs'] if D['end'] is None else D['end'][:1]))
            corr.append(([16, wm, e_ind(ind), int(cmp), wgs], 'dump_text', [sio.getvalue(), W['end'] and W['end'][:1]]))
        try:
            enc = [patient(lambda: penman.encode(g, indent=ind, compact=cmp)) for g in graphs]
        except BaseException as e:                  # noqa
            if isinstance(e, (KeyboardInterrupt, SystemExit)):
                raise
            # a graph that cannot be laid out is outside "well-formed graphs" (content: C03/C06)
            stats.append('dumps: element not encodable (%s)' % type(e).__name__)
            if D['end'] is None or W['end'] is None:
                fails.append(('dumps-loads', f'encode raises {type(e).__name__} but dumps/dump({lab}) return'))
            continue
        if D['end'] is not None or W['end'] is not None:
            fails.append(('dumps-loads', f'dumps/dump({lab}) raise {D["end"]} / {W["end"]} although every graph encodes'))
            continue
        D = D['graphs']
        if D != '\n\n'.join(enc):
            fails.append(('dumps-loads', f'dumps({lab}) = {D!r} is not the encoded graphs joined by a blank line {enc!r}'))
        # dump to a stream and to a real file: dumps + LF, nothing for []
        want_text = D + '\n' if graphs else ''
        if sio.getvalue() != want_text:
            fails.append(('dumps-loads', f'dump({lab}) writes {sio.getvalue()!r}, dumps + LF is {want_text!r}'))
        p = os.path.join(tmp, 'd%d.txt' % os.getpid())
        penman.dump(graphs, p, indent=ind, compact=cmp, encoding='utf-8')
        with open(p, encoding='utf-8', newline='') as fh:
            written = fh.read()
        if written != want_text:
            fails.append(('dumps-loads', f'dump({lab}) to a file writes {written!r}, dumps + LF is {want_text!r}'))
        fback = _canon(_call(lambda: penman.load(p, encoding='utf-8')))
        os.unlink(p)
        back = _canon(_call(lambda: penman.loads(D)))
        each = [_canon(_call(lambda: [penman.decode(s)])) for s in enc]
        if any(hung(x) for x in [fback, back] + each):
            fails.append(('hang', f'loading the text of dumps/dump({lab}) does not return: {D!r}'))
            continue
        if not same(fback, back):
            fails.append(('dumps-loads', f'load(dump(gs, file, {lab})) = {_short(fback)} differs from loads(dumps(gs)) = {_short(back)}'))
        if any(x['end'] is not None for x in each):
            # e.g. a variable with two concepts is written "(a / x / y)": an ill-formed graph (content: C03/C06)
            stats.append('dumps: element text not decodable (ill-formed graph)')
            continue
        want_framing = {'graphs': [x['graphs'][0] for x in each], 'end': None}
        if not same(back, want_framing):
            fails.append(('dumps-loads', f'loads(dumps(gs, {lab})) = {_short(back)} is not the graphs of the individual '
                          f'texts {_short(want_framing)}; text {D!r}'))
        elif not same(back, {'graphs': expected, 'end': None}):
            # graphs of the well-formed generator without a repeated triple (markers of a duplicate triple are
            # dropped by interpret) must come back exactly; other shapes are the business of C02/C03/C06
            if all(k == 'gen' for k in item['kinds']) and all(len(set(g.triples)) == len(g.triples) for g in graphs):
                fails.append(('dumps-loads', f'loads(dumps(gs, {lab})) differs from gs: {_short(back)}; text {D!r}'))
            else:
                stats.append('dumps: element does not round-trip (robustness shapes; content is C03/C06)')
        else:
            stats.append('dumps: sequence round-trips')
    # ---- correspondence requests on the chosen text (possibly mutated)
    if item['corr']:
        Tc, Tr = corr_T.replace('\n', '\r\n'), corr_T.replace('\n', '\r')
        full = lambda r: [r['graphs'], r['end']]
        corr.append(([13, wm, e_str(corr_T)], 'gen', full(_canon(_collect(lambda: penman.iterdecode(corr_T))))))
        corr.append(([13, wm, e_str(Tc)], 'gen', full(_canon(_collect(lambda: penman.iterdecode(Tc))))))
        for lines in (corr_T.split('\n'), ref_split_keepends(corr_T), ref_split_keepends(Tc), ref_split_keepends(Tr)):
            corr.append(([12, wm, [e_str(x) for x in lines]], 'gen',
                         full(_canon(_collect(lambda: penman.iterdecode(lines))))))
        L = _canon(_call(lambda: penman.loads(Tr)))
        corr.append(([14, wm, e_str(Tr)], 'loads', [L['graphs'], L['end']]))
        if item['amr']:
            from penman.models.amr import model as amr
            wa = models.wire_model(models.amr_table())
            corr.append(([13, wa, e_str(corr_T)], 'gen',
                         full(_canon(_collect(lambda: penman.iterdecode(corr_T, model=amr))))))
            corr.append(([12, wa, [e_str(x) for x in ref_split_keepends(Tc)]], 'gen',
                         full(_canon(_collect(lambda: penman.iterdecode(ref_split_keepends(Tc), model=amr))))))
        # line containers
        mixed = item['mixed']
        for s in (corr_T, Tc, Tr, mixed):
            corr.append(([17, e_str(s)], 'lines', ref_split_keepends(s)))
            corr.append(([19, e_str(s)], 'lines', re.split(r'\r\n|\r|\n', s)))
        p = os.path.join(tmp, 'u%d.txt' % os.getpid())
        for s in (Tc, Tr, mixed):
            _write(p, s)
            with open(p, encoding='utf-8') as fh:           # text mode, universal newlines
                u = fh.read()
            with open(p, encoding='utf-8', newline='') as fh:
                kept = list(fh)
            os.unlink(p)
            corr.append(([18, e_str(s)], 'str', u))
            corr.append(([17, e_str(s)], 'lines', kept))
    # a call that did not return is reported as such, never as a correspondence difference
    kept = []
    for req, kind, exp in corr:
        if "'hang'" in repr(exp):
            fails.append(('hang', f'a call for the correspondence check ({kind}) does not return'))
        else:
            kept.append((req, kind, exp))
    corr = kept
    return {'fails': fails, 'stats': stats, 'corr': corr, 'skip': False,
            'ngraphs': len(graphs), 'ntriples': sum(len(g.triples) for g in graphs)}


def _node_of(x):
    """JSON form (lists) or tuples -> penman node (tuples)."""
    var, bs = x
    return (var, [(r, _node_of(t) if isinstance(t, (list, tuple)) else t) for r, t in bs])


def e_ind(i):
    return [] if i is None else [i]


# ---- model side decoding ---------------------------------------------------------------

def d_end(o):
    if o[0] == 0:
        return None
    if o[0] == 1:
        return ('DecodeError', o[1], o[2])
    names = {2: 'LayoutError', 3: 'ConstantError', 4: 'ModelError', 5: 'SurfaceError', 6: 'GraphError'}
    return (names.get(o[0], 'model-outcome-%d' % o[0]),)


def d_g(v):
    g = common.d_graph(v)
    g['metadata'] = list(g['metadata'].items())
    return g


def decode_model(kind, v):
    if kind == 'gen':
        return [[d_g(g) for g in v[0]], d_end(v[1])]
    if kind == 'loads':
        return [[d_g(g) for g in v[1]], None] if v[0] == 0 else [None, d_end(v)]
    if kind == 'dumps':
        return d_str(v[1]) if v[0] == 0 else d_end(v)
    if kind == 'dump_text':
        return [d_str(v[0]), d_end(v[1])]
    if kind == 'lines':
        return [d_str(x) for x in v]
    return d_str(v)


def norm_impl(x):
    """tuples -> lists all the way down, so the two sides compare structurally"""
    return json.loads(json.dumps(x, default=str))


# -----------------------------------------------------------------------------------------

def tree_pool(chk, rng, n):
    """n candidate trees, kept when the model's wf_tree holds (the domain guard of C01, so that
    parse(format(t)) = t is the proved expectation the containers are measured against)."""
    cands = [g_tree(rng) for _ in range(n)]
    wf = common.run_driver('codec', [[4, [common.e_node(node), [[e_str(k), e_str(v)] for k, v in meta]]]
                                     for _, node, meta in cands])
    chk.stat('candidate-trees', len(cands))
    chk.stat('candidate-trees-not-wf', sum(1 for w in wf if not w))
    return [c for c, w in zip(cands, wf) if w]


def make_item(rng, tmp, idx, pool):
    import penman
    from penman.tree import Tree
    k = rng.choice([0, 1, 1, 2, 2, 2, 3, 4])
    ind, cmp = rng.choice(OPTIONS)
    kinds, texts, metas, nodes = [], [], [], []
    for _ in range(min(k, len(pool))):
        kind, node, meta = pool.pop()
        kinds.append(kind)
        nodes.append(node)
        metas.append([list(kv) for kv in meta])
        texts.append(penman.format(Tree(node, dict(meta)), indent=ind, compact=cmp))
    mut = None
    if rng.random() < .12 and k:
        mut = (rng.random(), rng.choice(['(', ')', '"', ':', '/', '#', '~', 'x', ' ', '\n', '']), rng.choice([0, 1]))
    mixed = ''.join(rng.choice(['a', '#', ' ', '\r', '\n', '\r\n', '\n\r', '\u2028', '\x85', '\x0c'])
                    for _ in range(rng.randint(0, 12)))
    return {'idx': idx, 'tmp': tmp, 'nodes': nodes, 'texts': texts, 'metas': metas, 'kinds': kinds, 'indent': ind,
            'compact': cmp, 'seps': SEPARATORS, 'sep': rng.choice(SEPARATORS),
            'trail': rng.choice(['', '', '\n', '\n\n', ' \n']), 'mut': mut,
            'dump_options': OPTIONS if idx % 4 == 0 else [rng.choice(OPTIONS)],
            'corr': True, 'amr': idx % 6 == 0, 'mixed': mixed}


def case_of(item):
    return {k: item[k] for k in ('nodes', 'texts', 'metas', 'indent', 'compact', 'sep', 'trail', 'mut', 'dump_options', 'kinds', 'mixed')}


def run(chk):
    chk.rule = ('sequences of 0-4 graphs: trees from gen.random_tree_node(wf), the C01 robustness generator (empty node, '
                'missing concept/target, anonymous role, alignments) and parsed grammar-directed texts, kept when the '
                'model\'s wf_tree holds, each with 0-3 metadata keys (40% empty values; values with ; ( ) " # NBSP U+2028 '
                'U+2029 U+0085 VT FF FS GS RS, leading blank) rendered with penman.format under indent in {None,-1,0,2} '
                'x compact, joined by each separator in {blank line, LF, space, nothing}, with optional trailing LF; '
                'the expected graphs are layout.interpret of the generated trees (no lexer or parser involved); every '
                'text is read through 22 containers (str, line lists with no / LF / CRLF / CR terminators, iterator, '
                'StringIO with each newline mode, real files with LF / CRLF / CR terminators in text mode and with '
                'newline=""); 12% also with one random character edit (containers must agree on the graphs before the '
                'error and the kind of error).  A case is one sequence (distinct by its texts + options), non-trivial '
                'when it has a graph with metadata or at least two graphs.')
    chk.require_theorems('Properties.C09', THEOREMS)
    from harness import serialise_theorems
    chk.require_theorems('Properties.C09b', serialise_theorems.THEOREMS_C09)   # composition with the end-to-end theorems
    common.use_repo()
    rng = chk.rng
    quick = chk.tier == 'quick'
    n = 3000 if quick else 30000
    tmp = tempfile.mkdtemp(prefix='penman-c09-')
    try:
        for start in range(0, n, 3000):
            m = min(n, start + 3000) - start
            pool = tree_pool(chk, rng, 4 * m)
            items = [make_item(rng, tmp, i, pool) for i in range(start, start + m)]
            results = common.pmap(_impl_case, items, chunk=25)
            requests, expect = [], []
            for item, res in zip(items, results):
                case = case_of(item)
                for s in res['stats']:
                    chk.stat(s)
                if res['skip']:
                    for key, what in res['fails']:
                        chk.fail(key, what, case)
                    continue
                k = len(item['texts'])
                chk.count(json.dumps([item['texts'], item['indent'], item['compact'], item['trail']]),
                          nontrivial=k >= 2 or any(item['metas']))
                chk.stat(f'graphs={k}')
                chk.stat(f'indent={item["indent"]}')
                chk.stat(f'compact={item["compact"]}')
                chk.stat('triples<=5' if res['ntriples'] <= 5 else 'triples<=20' if res['ntriples'] <= 20 else 'triples>20')
                for kd in item['kinds']:
                    chk.stat('tree-' + kd)
                for md in item['metas']:
                    chk.stat('metadata-keys=%d' % len(md))
                    if any(v == '' for _, v in md):
                        chk.stat('metadata-empty-value')
                    if any(c in v for _, v in md for c in BREAKS):
                        chk.stat('metadata-unicode-linebreak')
                if item['mut'] is not None:
                    chk.stat('mutated-texts')
                if len(chk.samples) < 5 and k >= 2 and any(item['metas']):
                    chk.sample(case)
                seen = set()
                for key, what in res['fails']:
                    if key not in seen:                 # one report per key and case
                        seen.add(key)
                        chk.fail(key, what, case)
                for req, kind, exp in res['corr']:
                    requests.append(req)
                    expect.append((case, kind, exp))
            got = common.run_driver('codec', requests, shard=500)
            chk.corr_cases += len(requests)
            for (case, kind, exp), g in zip(expect, got):
                chk.stat('corr-' + kind)
                m = norm_impl(decode_model(kind, g))
                e = norm_impl(exp)
                if m != e:
                    chk.mismatch(f'{kind} differs', case, e, m)
        long_line_stream(chk, tmp)
    finally:
        shutil.rmtree(tmp, ignore_errors=True)


def long_line_stream(chk, tmp):
    """A line is a line however long it is (longer than any I/O buffer): a long metadata value, a long string and a
    long one-line graph come back the same from every container.  Implementation only (no model side)."""
    import penman
    rng = chk.rng
    for i in range(6 if chk.tier == 'quick' else 40):
        n = rng.choice([1700, 2100, 3400])
        kind = i % 3
        if kind == 0:
            T = '# ::snt long ' + 'wxyz ' * n + 'end\n# ::id %d\n(a / alpha :ARG0 (b / beta))\n\n(c / gamma)\n' % i
        elif kind == 1:
            T = '(a / alpha :name "' + 'wxyz ' * n + '" :ARG0 (b / beta))\n\n# ::id %d\n(c / gamma)\n' % i
        else:
            T = '(a / alpha' + ''.join(' :op%d (v%d / x%d)' % (j, j, j) for j in range(1, n // 3)) + ')\n\n(c / gamma)\n'
        chk.count(('long-line', T[:40], len(T)))
        cs = containers(T, tmp)
        primary = dict((nm, r) for nm, _, r in cs)['iterdecode(T)']
        if primary['end'] is not None or len(primary['graphs'] or []) != 2:
            chk.fail('container', f'a text with a {len(T.splitlines()[0])}-character line decodes to {_short(primary)}', {'text_head': T[:60], 'length': len(T)})
            continue
        for name, klass, r in cs:
            if not same(r, primary) and not (klass == CR_KEEPING and same(strip_cr_keys(r), primary)):
                chk.fail('container', f'long line ({max(map(len, T.splitlines()))} characters): {name} gives {_short(r)} but iterdecode(T) '
                         f'gives {_short(primary)}', {'text_head': T[:60], 'length': len(T)})
    chk.stat('long-line-texts', 6 if chk.tier == 'quick' else 40)


def replay(obj):
    """Re-run the failing case of a replay file on the implementation and print each container's result."""
    common.use_repo()
    case = obj.get('case') or {}
    print('replay case:', json.dumps(case, ensure_ascii=True))
    tmp = tempfile.mkdtemp(prefix='penman-c09-')
    try:
        item = dict(case, tmp=tmp, seps=SEPARATORS, corr=False, amr=False, idx=0)
        item['dump_options'] = [tuple(o) for o in case.get('dump_options', [])]
        item['mut'] = tuple(case['mut']) if case.get('mut') else None
        for sep in SEPARATORS:
            T = sep.join(item['texts']) + item['trail']
            print(f'--- separator {sep!r}: text {T!r}')
            for name, klass, r in containers(T, tmp):
                print(f'   {name:45s} {_short(r)}')
        res = _impl_case(item)
        for key, what in res['fails']:
            print('FAIL', key, ':', what)
        return 1 if res['fails'] else 0
    finally:
        shutil.rmtree(tmp, ignore_errors=True)
