"""C08 — tokens tile the input and follow the documented lexical grammar.

proof:          coq/Properties/C08.v  (tiling, per-class languages, ordered alternation, scanning
                relation, fuel sufficiency, line numbering, line splitting; any alternation order)
correspondence: Impl.Lexer (extracted, group `lex`) vs penman._lexer.lex for str input AND for
                list-of-lines input, PENMAN_RE and TRIPLE_RE plus two-class patterns built from
                PATTERNS; compared per token: type, text, lineno, offset
oracle:         on the implementation's tokens alone: tiling (ordered, non-overlapping, text is the
                slice of the line, gaps hold only the six ASCII blanks), line numbering/splitting
                (only LF, CR LF, CR), and the class of every token recomputed by small hand-written
                predicates (no penman regex involved)
"""
import itertools
import re

from harness import common, gen
from harness.common import timed, Timeout

THEOREMS = [
    'C08_tiles', 'C08_tiles_explicit', 'C08_fuel_suffices', 'C08_alts_have_unexpected',
    'C08_matcher_spec', 'C08_lexeme_unique', 'C08_first_match_spec', 'C08_class', 'C08_scan_spec',
    'C08_comment_to_eol', 'C08_nonascii_blank_is_content', 'C08_lines_concat', 'C08_lines',
    'C08_split_spec', 'C08_split_pieces', 'C08_split_join', 'C08_split_only_crlf',
    'C08_example_all_classes', 'C08_example_triple_pattern', 'C08_example_nonascii',
    'C08_example_split', 'C08_example_lineno', 'C08_example_comment_hyp',
]

NAMES = ['COMMENT', 'STRING', 'LPAREN', 'RPAREN', 'SLASH', 'ROLE', 'SYMBOL', 'ALIGNMENT', 'UNEXPECTED']
CODE = {n: i for i, n in enumerate(NAMES)}
PENMAN_ORDER = ['COMMENT', 'STRING', 'LPAREN', 'RPAREN', 'SLASH', 'ROLE', 'SYMBOL', 'ALIGNMENT', 'UNEXPECTED']
TRIPLE_ORDER = ['COMMENT', 'STRING', 'LPAREN', 'RPAREN', 'SYMBOL', 'UNEXPECTED']

# --------------------------------------------------------------------------
# the documented lexical grammar, written by hand (independent of penman's regexes)

WS = frozenset(' \t\r\n\x0b\x0c')                       # the six ASCII blanks
DELIM = WS | frozenset('"()/:~')
DIGITS = frozenset('0123456789')
LETTERS = frozenset('abcdefghijklmnopqrstuvwxyzABCDEFGHIJKLMNOPQRSTUVWXYZ')
SINGLE = {'LPAREN': '(', 'RPAREN': ')', 'SLASH': '/'}


def ref_split(s):
    """Lines of a str: split at LF, CR LF, lone CR and nothing else."""
    lines, cur, i, n = [], [], 0, len(s)
    while i < n:
        c = s[i]
        if c == '\n' or c == '\r':
            lines.append(''.join(cur))
            cur = []
            if c == '\r' and i + 1 < n and s[i + 1] == '\n':
                i += 1
        else:
            cur.append(c)
        i += 1
    lines.append(''.join(cur))
    return lines


def ref_split_keepends(s):
    """Same split, every line keeps its terminator (a file read with newline='')."""
    lines, cur, i, n = [], [], 0, len(s)
    while i < n:
        c = s[i]
        cur.append(c)
        if c == '\n' or c == '\r':
            if c == '\r' and i + 1 < n and s[i + 1] == '\n':
                cur.append('\n')
                i += 1
            lines.append(''.join(cur))
            cur = []
        i += 1
    if cur:
        lines.append(''.join(cur))
    return lines


def class_ok(k, w):
    """Is w a word of class k (shape only, no context)?"""
    if not w:
        return False
    if k == 'COMMENT':
        return w[0] == '#' and '\n' not in w
    if k == 'STRING':
        if len(w) < 2 or w[0] != '"' or w[-1] != '"':
            return False
        i, end = 1, len(w) - 1
        while i < end:
            if w[i] == '"':
                return False                         # unescaped dquote inside
            if w[i] == '\\':
                if i + 1 >= end or w[i + 1] == '\n':
                    return False                     # the escape would swallow the closing dquote
                i += 2
            else:
                i += 1
        return i == end
    if k in SINGLE:
        return w == SINGLE[k]
    if k == 'ROLE':
        return w[0] == ':' and not any(c in DELIM for c in w[1:])
    if k == 'SYMBOL':
        return not any(c in DELIM for c in w)
    if k == 'ALIGNMENT':
        if w[0] != '~':
            return False
        body = w[1:]
        if body and body[0] in LETTERS:
            body = body[1:]
            if body and body[0] == '.':
                body = body[1:]
        parts = body.split(',')
        return all(p and all(c in DIGITS for c in p) for p in parts)
    if k == 'UNEXPECTED':
        return len(w) == 1 and w not in WS
    return False


def ref_end(k, s, i):
    """End index of THE lexeme of class k starting at s[i], or -1 when the class has none there
    (greedy classes maximal; a comment must reach the end of the line or a final LF)."""
    n = len(s)
    c = s[i]
    if k == 'COMMENT':
        if c != '#':
            return -1
        j = s.find('\n', i)
        if j < 0:
            return n
        return j if j == n - 1 else -1
    if k == 'STRING':
        if c != '"':
            return -1
        j = i + 1
        while j < n:
            d = s[j]
            if d == '"':
                return j + 1
            if d == '\\':
                if j + 1 >= n or s[j + 1] == '\n':
                    return -1
                j += 2
            else:
                j += 1
        return -1
    if k in SINGLE:
        return i + 1 if c == SINGLE[k] else -1
    if k == 'ROLE':
        if c != ':':
            return -1
        j = i + 1
        while j < n and s[j] not in DELIM:
            j += 1
        return j
    if k == 'SYMBOL':
        j = i
        while j < n and s[j] not in DELIM:
            j += 1
        return j if j > i else -1
    if k == 'ALIGNMENT':
        if c != '~':
            return -1
        j = i + 1
        if j < n and s[j] in LETTERS:
            if j + 2 < n and s[j + 1] == '.' and s[j + 2] in DIGITS:
                j += 2
            elif j + 1 < n and s[j + 1] in DIGITS:
                j += 1
            else:
                return -1
        if not (j < n and s[j] in DIGITS):
            return -1
        while True:
            while j < n and s[j] in DIGITS:
                j += 1
            if j + 1 < n and s[j] == ',' and s[j + 1] in DIGITS:
                j += 1
            else:
                return j
    if k == 'UNEXPECTED':
        return i + 1 if c not in WS else -1
    return -1


def check_line(line, toks, order):
    """toks: [(type, text, offset)] of ONE line, in the order produced.  Yields (key, what)."""
    pos = 0
    for ty, tx, off in toks:
        if not isinstance(off, int) or off < pos or off > len(line):
            yield 'tiling', f'token {ty} {tx!r} at column {off} overlaps or precedes the previous token (ending at {pos})'
            continue
        if not tx:
            yield 'tiling', f'empty token {ty} at column {off}'
        if line[off:off + len(tx)] != tx:
            yield 'tiling', f'token text {tx!r} is not line[{off}:{off + len(tx)}] = {line[off:off + len(tx)]!r}'
        for j in range(pos, off):
            if line[j] not in WS:
                yield 'skipped-nonblank', f'character U+{ord(line[j]):04X} at column {j} is not an ASCII blank but no token covers it'
                break
        if ty not in order:
            yield 'class', f'token type {ty!r} is not a class of this pattern'
        elif tx and off < len(line):
            if not class_ok(ty, tx):
                yield 'class', f'{tx!r} is not a word of class {ty}'
            e = ref_end(ty, line, off)
            if e != off + len(tx):
                yield 'class', (f'{ty} token {tx!r} at column {off} is not the {ty} lexeme there '
                                f'(expected {line[off:e]!r})' if e >= 0 else
                                f'{ty} token {tx!r} at column {off}: class {ty} has no lexeme there')
            for k2 in order:
                if k2 == ty:
                    break
                if ref_end(k2, line, off) >= 0:
                    yield 'class', f'{tx!r} at column {off} lexed as {ty} although the earlier class {k2} matches there'
                    break
        pos = off + len(tx)
    for j in range(pos, len(line)):
        if line[j] not in WS:
            yield 'skipped-nonblank', f'character U+{ord(line[j]):04X} at column {j} is not an ASCII blank but no token covers it'
            break


def oracle(inp, toks, order):
    """inp: str or list of lines; toks: implementation Token tuples.  Returns [(key, what)]."""
    lines = ref_split(inp) if isinstance(inp, str) else list(inp)
    out = []
    per_line = [[] for _ in lines]
    last = 0
    for t in toks:
        ln = t.lineno
        if not isinstance(ln, int) or ln < 1 or ln > len(lines):
            out.append(('lineno', f'token {t.text!r} reports line {ln} but the input has {len(lines)} line(s) '
                                  f'(lines end only at LF, CR LF, CR)'))
            continue
        if ln < last:
            out.append(('lineno', f'line numbers decrease: {last} then {ln}'))
        last = ln
        if t.line != lines[ln - 1]:
            out.append(('lineno', f'token {t.text!r} on line {ln} carries line text {t.line!r}, expected {lines[ln - 1]!r}'))
            continue
        per_line[ln - 1].append((t.type, t.text, t.offset))
    if not out or all(k != 'lineno' for k, _ in out):
        for line, lt in zip(lines, per_line):
            out.extend(check_line(line, lt, order))
    return out


# --------------------------------------------------------------------------
# worker (runs in forked processes)

_G = {}     # set up by run() before forking: lex, patterns, driver executable


def _pattern_sets():
    """[(label, wire alts, order, compiled regex)]"""
    L = _G['lexer']
    sets = [('PENMAN', 0, PENMAN_ORDER, L.PENMAN_RE), ('TRIPLE', 1, TRIPLE_ORDER, L.TRIPLE_RE)]
    extra = []
    for names in [['UNEXPECTED']] + [[k, 'UNEXPECTED'] for k in NAMES[:-1]]:
        pat = '\n|'.join(f'(?P<{n}>{L.PATTERNS[n]})' for n in names)
        extra.append(('+'.join(names), [CODE[n] for n in names], names, re.compile(pat, flags=re.VERBOSE)))
    return sets, extra


def _inputs(s, with_lists, thin=False):
    """The containers in which the text s is handed to lex.  thin: skip [s] when s has no CR/LF
    (same single line as the str input; deterministic thinning of the longest exhaustive layer)."""
    yield 'str', s
    if with_lists:
        eol = '\n' in s or '\r' in s
        if eol or not thin:
            yield 'one-line-list', [s]
        if eol:
            yield 'keepends-list', ref_split_keepends(s)
            yield 'split-list', ref_split(s)


def _wire_str(s):
    return '(' + ' '.join([str(ord(c)) for c in s]) + ')'


def _request(inp, alts):
    a = str(alts) if isinstance(alts, int) else '(' + ' '.join(map(str, alts)) + ')'
    if isinstance(inp, str):
        return f'(1 {a} {_wire_str(inp)})'
    return f'(2 {a} (' + ' '.join(_wire_str(x) for x in inp) + '))'


def _expected(toks):
    return '(' + ' '.join(f'({CODE.get(t.type, 99)} {_wire_str(t.text)} {t.lineno} {t.offset})' for t in toks) + ')'


def _strings_of(task):
    kind = task[0]
    if kind == 'exh':
        _, prefix, maxlen = task
        rest = maxlen - len(prefix)
        for k in range(rest + 1):
            for tup in itertools.product(gen.ALPHABET, repeat=k):
                yield prefix + ''.join(tup)
    elif kind == 'short':
        _, maxlen = task
        yield from gen.strings_upto(gen.ALPHABET, maxlen)
    else:
        yield from task[1]


def _work_inner(task, per_call_alarm=False):
    lex = _G['lexer'].lex
    sets = _G['extra'] if task[0].endswith('-extra') else _G['sets']
    with_lists = not task[0].endswith('-extra')
    kind = task[0].replace('-extra', '')
    res = {'n': 0, 'nontrivial': 0, 'failures': [], 'mismatches': [], 'stats': {}, 'samples': []}
    reqs, exps, cases = [], [], []
    stats = res['stats']
    for s in _strings_of((kind,) + tuple(task[1:])):
        res['n'] += 1
        if any(c not in WS for c in s):
            res['nontrivial'] += 1
        thin = kind == 'exh' and _G.get('thin_at') is not None and len(s) >= _G['thin_at']
        for container, inp in _inputs(s, with_lists, thin):
            for label, alts, order, rx in sets:
                case = {'input': inp, 'pattern': label}
                try:
                    if per_call_alarm:
                        toks = timed(lambda: list(lex(inp, pattern=rx)), seconds=2)
                    else:
                        toks = list(lex(inp, pattern=rx))
                except Timeout:
                    if per_call_alarm:
                        res['failures'].append({'key': 'hang', 'what': 'lex does not terminate', 'case': case})
                        continue
                    raise
                except Exception as e:   # lex never raises on any text
                    res['failures'].append({'key': 'exception', 'what': f'lex raised {type(e).__name__}: {e}', 'case': case})
                    continue
                key = f'{kind}/{container}/{label if label in ("PENMAN", "TRIPLE") else "two-class"}'
                stats[key] = stats.get(key, 0) + 1
                for t in toks:
                    stats['tok/' + str(t.type)] = stats.get('tok/' + str(t.type), 0) + 1
                if len(res['failures']) < 20:
                    for fk, what in oracle(inp, toks, order):
                        res['failures'].append({'key': fk, 'what': what, 'case': case})
                        break
                reqs.append(_request(inp, alts))
                exps.append(_expected(toks))
                cases.append(case)
    if reqs:
        outs = common._drv_worker((_G['exe'], reqs))
        for o, e, case in zip(outs, exps, cases):
            if o != e and len(res['mismatches']) < 5:
                res['mismatches'].append({'what': 'tokens differ (type, text, lineno, offset)', 'case': case,
                                          'impl': _decode(e), 'model': _decode(o)})
    res['corr'] = len(reqs)
    if cases and task[0] in ('rand', 'gram'):
        res['samples'].append((task[0], cases[len(cases) // 2]))
    return res


def _decode(line):
    try:
        v = common.sx_loads(line)
        return [[NAMES[t[0]] if 0 <= t[0] < len(NAMES) else t[0], common.d_str(t[1]), t[2], t[3]] for t in v]
    except Exception:
        return line


def _work(task):
    try:
        return timed(_work_inner, task, seconds=600)
    except Timeout:
        return _work_inner(task, per_call_alarm=True)


def _chunks(xs, n):
    return [xs[i:i + n] for i in range(0, len(xs), n)]


class _Counted(set):
    """distinct-case counter: bounded-exhaustive strings are distinct by construction, so the
    workers only report how many they saw."""
    extra = 0

    def __len__(self):
        return set.__len__(self) + self.extra


def run(chk):
    quick = chk.tier == 'quick'
    maxlen = 4 if quick else 5
    maxlen_extra = 3 if quick else 4
    chk.rule = (f'every string of length <= {maxlen} over the 28-symbol alphabet gen.ALPHABET (all delimiters, dquote, '
                'backslash, #, comma, period, digits, upper/lower letters, the six ASCII blanks, NBSP, U+3000, U+2028, '
                'U+0085) x {PENMAN_RE, TRIPLE_RE} x containers {str, [s], lines keeping terminators, lines without}; '
                f'every string of length <= {maxlen_extra} x the 9 two-class patterns (k|UNEXPECTED) built from PATTERNS; '
                'random strings of length 6-60 over the alphabet; grammar-directed PENMAN texts with noise '
                '(gen.random_penman_text). A case is one text; distinct by construction/text, non-trivial when it '
                'holds a non-blank character')
    chk.require_theorems('Properties.C08', THEOREMS)
    penman = common.use_repo()
    from penman import _lexer
    _G['lexer'] = _lexer
    _G['sets'], _G['extra'] = _pattern_sets()
    _G['exe'] = str(common.build_driver('lex'))
    _G['thin_at'] = None if quick else maxlen
    chk.distinct = _Counted()

    tasks = []
    # bounded-exhaustive: one task per prefix of length maxlen-2 (813 strings each) + the shorter strings
    tasks.append(('short', maxlen - 3))
    for tup in itertools.product(gen.ALPHABET, repeat=maxlen - 2):
        tasks.append(('exh', ''.join(tup), maxlen))
    tasks.append(('short-extra', max(0, maxlen_extra - 3)))
    for tup in itertools.product(gen.ALPHABET, repeat=max(1, maxlen_extra - 2)):
        tasks.append(('exh-extra', ''.join(tup), maxlen_extra))
    # random strings and grammar-directed texts
    nrand = 20000 if quick else 200000
    ngram = 4000 if quick else 40000
    seen = set()
    rand = []
    for _ in range(nrand):
        s = ''.join(chk.rng.choice(gen.ALPHABET) for _ in range(chk.rng.randint(6, 60)))
        if s not in seen:
            seen.add(s)
            rand.append(s)
    gram = []
    for _ in range(ngram):
        s = gen.random_penman_text(chk.rng)
        if chk.rng.random() < .15:                                  # alignment / escape / line-end noise
            s = s.replace(' ', chk.rng.choice(['\r\n', '\r', '\x0b', '\xa0', '\x0c', ' ', ' ~E.1 ', ' ~e.1,2 ', ' "\\" " ']), 1)
        if s not in seen:
            seen.add(s)
            gram.append(s)
    for part in _chunks(rand, 400):
        tasks.append(('rand', part))
    for part in _chunks(gram, 200):
        tasks.append(('gram', part))
    for part in _chunks(rand[:len(rand) // 4] + gram[:len(gram) // 4], 200):
        tasks.append(('rand-extra', part))

    # heavy tasks first, then parallel map (one task per chunk so that all cores are used)
    results = common.pmap(_work, tasks, chunk=1) if len(tasks) >= 2 else [_work(t) for t in tasks]
    picked, fails, mism = [], [], []
    for r in results:
        chk.evaluations += r['n']
        chk.distinct.extra += r['nontrivial']
        chk.corr_cases += r['corr']
        for k, v in r['stats'].items():
            chk.stat(k, v)
        fails += r['failures']
        mism += r['mismatches']
        for kind, s in r['samples']:
            if sum(1 for k, _ in picked if k == kind) < 4:
                picked.append((kind, s))
    for _, s in picked:
        chk.sample(s)
    # report the smallest failing inputs first (each worker already capped its own list)
    size = lambda x: (len(x['case']['input']) if isinstance(x['case']['input'], str)
                      else 1 + sum(len(l) + 1 for l in x['case']['input']), str(x['case']))
    for f in sorted(fails, key=size)[:200]:
        chk.fail(f['key'], f['what'], f['case'])
    for m in sorted(mism, key=size)[:50]:
        chk.mismatch(m['what'], m['case'], m['impl'], m['model'])
    chk.notes.append(f'bounded-exhaustive up to length {maxlen} (two shipped patterns) / {maxlen_extra} (two-class patterns)'
                     + ('' if quick else f'; at length {maxlen} the container [s] is used only for texts holding CR or LF'))
    chk.assumptions.append('alternation orders of PENMAN_RE / TRIPLE_RE are those of Impl.Lexer.PENMAN_ALTS / TRIPLE_ALTS '
                           '(any change shows up as a correspondence mismatch)')
    indirect_stream(chk)


def indirect_stream(chk):
    """The lexer observed INDIRECTLY (as the property says: parse results and DecodeError positions): for a str input,
    penman.parse / iterparse / parse_triples must see exactly the tokens of the lines split at LF, CRLF and lone CR,
    i.e. behave as on the list of those lines, and token text inside strings/comments must be the input text."""
    import penman
    rng = chk.rng
    n = 1500 if chk.tier == 'quick' else 15000

    def outcome(fn, arg):
        try:
            r = common.timed(fn, arg, seconds=5)
            return ('ok', r)
        except penman.DecodeError as e:
            return ('DecodeError', e.lineno, e.offset)
        except Exception as e:       # noqa
            return (type(e).__name__,)

    def trees(arg):
        out = []
        try:
            for t in penman.iterparse(arg):
                out.append((repr(t.node), sorted(t.metadata.items())))
            return out, None
        except penman.DecodeError as e:
            return out, (e.lineno, e.offset)

    for i in range(n):
        s = gen.random_penman_text(rng, p_bad=0.25)
        if rng.random() < .5:
            s = '\n'.join(gen.random_penman_text(rng, maxdepth=2, p_bad=0.1) for _ in range(rng.randint(1, 3)))
        s = s.replace('\n', rng.choice(['\r', '\r\n', '\n', '\r', '\n\r']))
        if rng.random() < .3:
            s = s.replace(' ', '\t', 2)
        if rng.random() < .3:
            s = s.replace('(', '( "a\tb" ', 1) if rng.random() < .5 else '# ::k v\tw\r' + s
        case = {'stream': 'indirect', 'input': s}
        chk.count(('indirect', s))
        lines = ref_split(s)
        a, b = common.timed(trees, s, seconds=5), common.timed(trees, lines, seconds=5)
        if a != b:
            chk.fail('lineno', f'iterparse(str) {str(a)[:150]} differs from iterparse(lines split at LF/CRLF/CR) {str(b)[:150]}', case)
        # token text is the input text: a tab inside a string or comment stays a tab
        try:
            toks = list(penman._lexer.lex(s))
        except Exception:       # noqa
            continue
        for t in toks:
            if t.type in ('STRING', 'COMMENT', 'SYMBOL') and t.text != t.line[t.offset:t.offset + len(t.text)]:
                chk.fail('tiling', f'token text {t.text!r} is not the input text at its position', case)
                break
            # ... and the INPUT's own characters (not a rewritten copy of the line)
            if 1 <= t.lineno <= len(lines) and t.text != lines[t.lineno - 1][t.offset:t.offset + len(t.text)]:
                chk.fail('tiling', f'token text {t.text!r} differs from the characters of the input it covers '
                         f'({lines[t.lineno - 1][t.offset:t.offset + len(t.text)]!r})', case)
                break
            if ('\t' in lines[t.lineno - 1][t.offset:t.offset + len(t.text)]) != ('\t' in t.text):
                chk.fail('tiling', f'token {t.text!r} does not carry the characters of the span it covers', case)
                break
    chk.stat('indirect-texts', n)
    configuration_stream(chk)
    position_stream(chk)


def configuration_stream(chk):
    """The token stream does not depend on how the lexer is called or on the process configuration: the pattern given as
    text or compiled, and the logging level of the `penman` logger (the command's -v flags), give the same tokens."""
    import logging
    import penman
    from penman import _lexer
    rng = chk.rng
    n = 300 if chk.tier == 'quick' else 3000

    def toks(s, **kw):
        try:
            return [(t.type, t.text, t.lineno, t.offset) for t in common.timed(lambda: list(_lexer.lex(s, **kw)), seconds=5)]
        except Exception as e:       # noqa
            return ('EXC', type(e).__name__)
    logger = logging.getLogger('penman')
    old_level = logger.level
    handler = logging.NullHandler()
    logger.addHandler(handler)
    logger.propagate = False                 # nothing is printed: the records end in the NullHandler
    old_disable = logging.root.manager.disable
    logging.disable(logging.NOTSET)          # the harness silences penman's warnings globally; not in this stream
    try:
        for i in range(n):
            s = gen.random_penman_text(rng, maxdepth=2, p_bad=0.2)
            case = {'stream': 'configuration', 'input': s}
            chk.count(('configuration', s))
            for rx in (_lexer.PENMAN_RE, _lexer.TRIPLE_RE):
                base = toks(s, pattern=rx)
                if toks(s, pattern=rx.pattern) != base:
                    chk.fail('tiling', 'lex(s, pattern=<text>) and lex(s, pattern=<compiled>) give different tokens', case)
                for level in (logging.DEBUG, logging.INFO):
                    logger.setLevel(level)
                    try:
                        got = toks(s, pattern=rx)
                    finally:
                        logger.setLevel(old_level)
                    if got != base:
                        chk.fail('tiling', f'with the penman logger at level {logging.getLevelName(level)} the lexer gives '
                                 f'{str(got)[:120]} instead of {str(base)[:120]}', dict(case, level=level))
            if i % 10 == 0:
                logger.setLevel(logging.DEBUG)
                try:
                    a = entry_parse(penman, s)
                finally:
                    logger.setLevel(old_level)
                if a != entry_parse(penman, s):
                    chk.fail('tiling', 'penman.parse gives a different outcome with DEBUG logging on', case)
    finally:
        logger.setLevel(old_level)
        logger.removeHandler(handler)
        logger.propagate = True
        logging.disable(old_disable)
    chk.stat('configuration-texts', n)


def entry_parse(penman, s):
    try:
        return ('ok', repr(common.timed(penman.parse, s, seconds=5).node))
    except penman.DecodeError as e:
        return ('DecodeError', e.lineno, e.offset)
    except Exception as e:       # noqa
        return (type(e).__name__,)


def position_stream(chk):
    """Error positions are positions IN THE INPUT GIVEN: every entry point reports the same (line, column, line text)
    for one text, and putting k blank lines (or k blanks on a one-line text) in front shifts the reported line
    (column) by exactly k and changes nothing else."""
    import penman
    from harness import entrypoints
    rng = chk.rng
    n = 1200 if chk.tier == 'quick' else 12000

    def outcome(fn, arg):
        try:
            r = common.timed(fn, arg, seconds=5)
            return ('ok', repr(getattr(r, 'node', r)))
        except penman.DecodeError as e:
            return ('DecodeError', e.lineno, e.offset, e.text)
        except Exception as e:       # noqa
            return (type(e).__name__,)

    def shifted(o, dl, dc):
        if o[0] != 'DecodeError' or o[1] is None:
            return o
        if o[3] is None:             # end of input before any token: position (0, 0), no line
            return o
        return ('DecodeError', o[1] + dl, o[2] + dc, (' ' * dc + o[3]) if dc else o[3])

    bad = 0
    for i in range(n):
        if rng.random() < .5:
            s = gen.random_penman_text(rng, maxdepth=2, p_bad=0.6)
            fns = [('parse', penman.parse)]
        else:
            k = rng.randint(1, 3)
            s = ' ^ '.join('%s(%s, %s)' % (rng.choice(['instance', 'ARG0', 'op1', 'mod-of']), rng.choice('abc'), rng.choice(['b', 'x', '"s"', '1']))
                           for _ in range(k))
            j = rng.randint(0, len(s))
            s = s[:j] + rng.choice([':', '/', '~', ')', '(', '"', ',', ' ^', '\n', 'x']) + s[j:]
            fns = [('parse_triples', penman.parse_triples)]
        s = s.lstrip(' \t\r\n\v\f')
        if not s:
            continue
        case = {'stream': 'positions', 'input': s}
        chk.count(('positions', s))
        if fns[0][0] == 'parse':
            d = entrypoints.disagreement(entrypoints.parse_variants(s))
            if d:
                chk.fail('lineno', 'entry points disagree on the outcome / error position: ' + d, case)
        for name, fn in fns:
            base = outcome(fn, s)
            bad += base[0] == 'DecodeError'
            k = rng.randint(1, 4)
            nl = rng.choice(['\n', '\r\n', '\r'])
            got = outcome(fn, nl * k + s)
            if got != shifted(base, k, 0):
                chk.fail('lineno', f'{name}: {k} blank lines in front of the text turn {str(base)[:120]} into {str(got)[:120]}', dict(case, blank_lines=k))
            if '\n' not in s and '\r' not in s:
                got = outcome(fn, ' ' * k + s)
                if got != shifted(base, 0, k):
                    chk.fail('lineno', f'{name}: {k} blanks in front of the text turn {str(base)[:120]} into {str(got)[:120]}', dict(case, blanks=k))
    chk.stat('position-texts', n)
    chk.stat('position-texts-with-error', bad)
    cli_position_stream(chk)


def cli_position_stream(chk):
    """The same at the command line: with several FILE arguments the position of an error is a position in the file
    that contains it (each file is lexed on its own, line numbers start again at 1, an unfinished graph at the end of
    one file is not continued by the next)."""
    import os
    import tempfile
    import penman
    from harness import c20
    rng = chk.rng
    n = 60 if chk.tier == 'quick' else 600
    done = 0
    for i in range(n):
        nfiles = rng.randint(2, 3)
        k = rng.randrange(nfiles)
        texts = []
        for j in range(nfiles):
            if j == k:
                t = rng.choice(['(a / alpha\n  :ARG0 (b / beta', '(a / alpha\n  :ARG0 b))\n(c / d ~', '\n\n(a / b :x "q)\n', '# ::id 1\n(a / b\n ~1)',
                                gen.random_penman_text(rng, maxdepth=2, p_bad=1.0)])
            else:
                t = '\n\n'.join(gen.random_penman_text(rng, maxdepth=2, p_bad=0) for _ in range(rng.randint(1, 2))) + '\n'
            texts.append(t)
        d = tempfile.mkdtemp(prefix='c08cli_')
        try:
            paths = []
            for j, t in enumerate(texts):
                pth = os.path.join(d, f'f{j}.txt')
                with open(pth, 'w', encoding='utf-8', newline='') as f:
                    f.write(t)
                paths.append(pth)

            def alone(pth):
                """the command on this file alone: ('exit', status) or how it ends"""
                try:
                    return ('exit', c20.run_cli_inprocess([], None, [pth])[1])
                except penman.DecodeError as e:
                    return ('DecodeError', e.lineno, e.offset, e.text)
                except Exception as e:     # noqa
                    return (type(e).__name__,)
            refs = [alone(pth) for pth in paths]
            first_bad = next((j for j, r in enumerate(refs) if r != ('exit', 0)), None)
            if first_bad is None or refs[first_bad][0] != 'DecodeError':
                continue                # (a text can parse and still not be laid out: not the case studied here)
            case = {'stream': 'cli-positions', 'files': texts}
            chk.count(('cli-positions', tuple(texts)))
            try:
                out, code, err = c20.run_cli_inprocess([], None, paths)
                got = ('exit', code)
            except penman.DecodeError as e:
                got = ('DecodeError', e.lineno, e.offset, e.text)
            except Exception as e:     # noqa
                got = (type(e).__name__,)
            done += 1
            if got != refs[first_bad]:
                chk.fail('lineno', f'penman f0 .. f{nfiles - 1}: the command ends with {str(got)[:140]} but file f{first_bad} on its own '
                         f'gives {str(refs[first_bad])[:140]}', case)
        finally:
            for f in os.listdir(d):
                os.unlink(os.path.join(d, f))
            os.rmdir(d)
    chk.stat('cli-position-runs', done)


def replay(obj):
    """Re-run the failing case of a replay file on the implementation and show the behaviour."""
    common.use_repo()
    from penman import _lexer
    _G['lexer'] = _lexer
    sets, extra = _pattern_sets()
    case = obj.get('case') or {}
    print('replay case:', case)
    inp = case.get('input')
    label = case.get('pattern', 'PENMAN')
    for lab, alts, order, rx in sets + extra:
        if lab == label:
            break
    else:
        print('unknown pattern', label)
        return 2
    toks = list(_lexer.lex(inp, pattern=rx))
    for t in toks:
        print('  token', t.type, repr(t.text), 'line', t.lineno, 'col', t.offset, 'of', repr(t.line))
    problems = oracle(inp, toks, order)
    for k, what in problems:
        print('  PROBLEM', k, ':', what)
    if not problems:
        print('  (oracle finds no problem on this input now)')
    return 1 if problems else 0
