"""C13 — role inversion and canonicalisation obey their algebra under every model.

proof:          coq/Properties/C13.v (arbitrary role predicate, arbitrary tables)
                + Gen/AmrInstance.v (hypotheses re-checked on the CURRENT amr.py)
correspondence: Impl.Model / Impl.CanonRoles (extracted) vs penman.model.Model and
                transform.canonicalize_roles on the property's role/model grid
oracle:         every law of the statement evaluated on the implementation alone
"""
import itertools

from harness import common, models
from harness.common import e_str, d_str, d_opt, timed, Timeout

THEOREMS = [
    'C13_defined_never_inverted', 'C13_canon_terminates', 'C13_canon_adds_colon',
    'C13_canon_norm_last', 'C13_canon_pairs', 'C13_canon_inv_idem', 'C13_canon_idem',
    'C13_canon_idem_refuted_for_chained_normalisations', 'C13_invert_involutive',
    'C13_invert_flips', 'C13_invert_triple_swaps', 'C13_deinvert_inverted',
    'C13_deinvert_plain', 'C13_noop_deinvert_id', 'C13_canon_tree_shape', 'C13_canon_tree_idem',
]
AMR_THEOREMS = ['amr_of_free', 'amr_norm_closed', 'amr_canon_terminates', 'amr_canon_idem',
                'amr_invert_involutive', 'amr_invert_flips', 'mini_amr_of_free', 'default_of_free', 'noop_of_free']


def role_universe(tbl, rng, kmax):
    bases = set([':ARG0', ':ARG1', ':mod', ':domain', ':consist', ':consist-of', ':prep-on-behalf',
                 ':prep-on-behalf-of', ':prep-out', ':prep-out-of', ':op1', ':op12', ':opx', ':op', ':TOP',
                 ':instance', ':a', ':b', ':c', ':d', ':x-y', ':s1', ':p-of3', ':', '', 'ARG0', 'mod', 'a',
                 '/', '-of', ':-of', ':of', ':ARG0-', ':a-o', 'domain-of', ':polarity', ':quant', ':wiki'])
    for p in tbl['roles']:
        # one or two instantiations of each pattern
        lit = p.replace('[0-9]+', '7').replace('[0-9]', '3')
        bases.add(lit)
        if lit.endswith('-of'):
            bases.add(lit[:-3])
        if '[0-9]+' in p:
            bases.add(p.replace('[0-9]+', '10'))
    for k, v in tbl['norms'].items():
        bases.add(k)
        bases.add(v)
    out = []
    for b in sorted(bases):
        for k in range(kmax + 1):
            out.append(b + '-of' * k)
    return out


def colon(r):
    return r if r == '/' or r.startswith(':') else ':' + r


def impl_obs(m, role):
    return {'canon': m.canonicalize_role(role), 'has': m.has_role(role),
            'inv': m.is_role_inverted(role), 'invert': m.invert_role(role)}


def shape(node):
    var, bs = node
    out = []
    for role, tgt in bs:
        _, tilde, aln = role.partition('~')
        out.append((tilde, aln, shape(tgt) if isinstance(tgt, tuple) else ('atom', tgt)))
    return (var, out)


def random_node(rng, roles, depth=0):
    var = rng.choice(['a', 'b', 'c', None]) if depth else rng.choice(['a', 'b'])
    bs = []
    if rng.random() < .7:
        bs.append(('/', rng.choice(['x', None, 'y~1', '"s~t"'])))
    for _ in range(rng.randint(0, 3)):
        role = rng.choice(roles) + rng.choice(['', '', '~1', '~e.2,3', '~', '~~1'])
        if depth < 3 and rng.random() < .4:
            tgt = random_node(rng, roles, depth + 1)
        else:
            tgt = rng.choice(['a', 'b', '"q"', None, '-', 'x~2'])
        bs.append((role, tgt))
    return (var, bs)


def run(chk):
    chk.rule = ('roles base+k*"-of" (k<=4 quick, <=6 thorough) over bases drawn from each model\'s literal and '
                'pattern roles, -of-final defined roles, empty/colon-less roles x models {default, AMR(live), no-op, '
                'test mini-AMR, random tables incl. normalisation chains}; a case is distinct per (model table, role) '
                'and non-trivial when the role is non-empty')
    chk.require_theorems('Properties.C13', THEOREMS)
    chk.require_theorems('Gen.AmrInstance', AMR_THEOREMS)
    common.use_repo()
    from penman import transform
    from penman.tree import Tree
    kmax = 4 if chk.tier == 'quick' else 6
    nrandom = 40 if chk.tier == 'quick' else 400
    tables = [('default', models.DEFAULT, False), ('amr', models.amr_table(), True),
              ('noop', models.NOOP, False), ('mini', models.MINI_AMR, False)]
    for i in range(nrandom):
        tables.append((f'random{i}', models.random_table(chk.rng), False))

    requests, expect = [], []
    for name, tbl, live in tables:
        try:
            m = models.impl_model(tbl, live_amr=live)
            m0 = models.impl_model(dict(tbl, norms={}))           # same roles, no normalisation
            wm = models.wire_model(tbl)
        except ValueError:
            continue
        closed = models.norm_closed(tbl)
        chk.stat('tables')
        chk.stat('tables_norm_closed' if closed else 'tables_norm_open')
        universe = role_universe(tbl, chk.rng, kmax)
        for role in universe:
            case = {'model': name, 'table': tbl if not live else 'penman.models.amr', 'role': role}
            chk.count((name, role), nontrivial=bool(role))
            if len(chk.samples) < 6 and role.endswith('-of-of'):
                chk.sample(case)
            try:
                obs = timed(impl_obs, m, role, seconds=3)
            except Timeout:
                chk.fail('hang', f'canonicalize_role({role!r}) does not terminate under model {name}', case)
                continue
            # ---------------- oracle: the laws, on the implementation -----------------
            c = obs['canon']
            ci = m0.canonicalize_role(role)
            dfn = models.defined(tbl, role)
            if dfn and obs['inv']:
                chk.fail('defined-inverted', f'{role!r} is defined by the model but reported inverted', case)
            if role != '/' and not ci.startswith(':'):
                chk.fail('no-colon', f'canonical {ci!r} of {role!r} lacks the leading colon', case)
            if c != tbl['norms'].get(ci, ci):
                chk.fail('norm-not-last', f'canonicalize_role({role!r})={c!r} is not normalisation of {ci!r}', case)
            cr = colon(role)
            pairs_ok = (cr.startswith(ci) and set([cr[len(ci):][i:i + 3] for i in range(0, len(cr) - len(ci), 3)]) <= {'-of'}
                        and ((len(cr) - len(ci)) // 3) % 2 == 0 and (len(cr) - len(ci)) % 3 == 0)
            added_ok = (ci == cr + '-of-of' and not models.defined(tbl, cr) and not cr.endswith('-of')
                        and models.defined(tbl, cr + '-of'))
            if not (pairs_ok or added_ok):
                chk.fail('pairs', f'canonical inversion form {ci!r} of {role!r} does not differ by pairs of -of', case)
            if m0.canonicalize_role(ci) != ci:
                chk.fail('inv-idem', f'inversion canonicalisation not idempotent on {role!r}: {ci!r} -> {m0.canonicalize_role(ci)!r}', case)
            cc = m.canonicalize_role(c)
            if cc != c:
                key = 'F19-chained-normalisation' if not closed else 'idem'
                chk.fail(key, f'canonicalize_role not idempotent on {role!r}: {c!r} -> {cc!r}', case)
            # involution / flip on canonical roles where the of_free instance holds
            if ci == cr:   # cr is canonical
                r = cr
                of_free_here = not (models.defined(tbl, r) and models.defined(tbl, r + '-of'))
                if of_free_here:
                    ir = m.invert_role(r)
                    if m.invert_role(ir) != r:
                        chk.fail('involution', f'invert_role not an involution on canonical {r!r}', case)
                    if m.is_role_inverted(ir) == m.is_role_inverted(r):
                        chk.fail('flip', f'invert_role does not flip inverted-ness of canonical {r!r}', case)
            tr = ('s', role, 't')
            if m.invert(tr) != ('t', m.invert_role(role), 's'):
                chk.fail('swap', f'invert does not swap source/target for role {role!r}', case)
            want = tr if (tbl['noop'] or not obs['inv']) else m.invert(tr)
            if m.deinvert(tr) != want:
                chk.fail('deinvert', f'deinvert wrong for role {role!r} (noop={tbl["noop"]})', case)
            # the same laws on a self-loop and on a constant target (the laws do not look at the ends)
            for tr2 in (('a', role, 'a'), ('a', role, None), ('a', role, '"s"')):
                if m.invert(tr2) != (tr2[2], m.invert_role(role), tr2[0]):
                    chk.fail('swap', f'invert does not swap source/target of {tr2!r}', case)
                want2 = tr2 if (tbl['noop'] or not obs['inv']) else m.invert(tr2)
                if m.deinvert(tr2) != want2:
                    chk.fail('deinvert', f'deinvert({tr2!r}) wrong (noop={tbl["noop"]})', case)
            # ---------------- correspondence requests -----------------------------------
            requests.append([1, wm, e_str(role)])
            expect.append((case, 'canon', c))
            requests.append([2, wm, e_str(role)])
            expect.append((case, 'obs', [obs['has'], obs['inv'], obs['invert']]))
        # trees
        ntrees = 30 if chk.tier == 'quick' else 200
        for _ in range(ntrees):
            node = random_node(chk.rng, universe)
            case = {'model': name, 'table': tbl if not live else 'penman.models.amr', 'tree': node}
            chk.count(('tree', name, repr(node)))
            t2 = transform.canonicalize_roles(Tree(node), m)
            if closed and shape(t2.node) != shape(node):
                chk.fail('tree-shape', 'canonicalize_roles changed more than role text', case)
            t3 = transform.canonicalize_roles(t2, m)
            if t3.node != t2.node:
                chk.fail('F19-chained-normalisation' if not closed else 'tree-idem', 'canonicalize_roles not idempotent on a tree', case)
            requests.append([4, wm, common.e_node(node)])
            expect.append((case, 'tree', t2.node))

    results = common.run_driver('model', requests)
    chk.corr_cases = len(requests)
    kernel_crosscheck(chk, requests, results)
    cli_stream(chk)
    for (case, kind, exp), got in zip(expect, results):
        if kind == 'canon':
            g = d_opt(d_str, got)
        elif kind == 'obs':
            g = [bool(got[0]), bool(got[1]), d_str(got[2])]
        else:
            g = d_opt(common.d_node, got)
        if g != exp and not (kind == 'tree' and g is not None and norm_node(g) == norm_node(exp)):
            chk.mismatch(f'{kind} differs', case, exp, g)


def cli_stream(chk):
    """The property is also observed at `penman --canonicalize-roles`: canonicalisation happens on the TREE, before the
    graph is interpreted, so every later stage (triples output, reification) sees canonical roles."""
    import penman
    from penman import layout, transform
    from penman.model import Model
    from penman.models.amr import model as amr
    from penman.tree import Tree
    from harness import c20, gen
    n = 80 if chk.tier == 'quick' else 800
    roles = [':ARG0', ':ARG0-of', ':ARG0-of-of', ':ARG1-of-of-of', ':mod', ':mod-of', ':domain-of', ':domain-of-of-of', 'ARG2',
             ':consist-of', ':consist-of-of', ':quant', ':polarity']
    for i in range(n):
        node = gen.random_tree_node(chk.rng, gen.fresh_vars(), maxdepth=chk.rng.choice([1, 2, 3]), wf=True, roles=roles,
                                    atoms=['x', 'y', '7', '-', '"s"'])
        if any(not r.startswith(':') and r != '/' for r, _ in node[1]):
            pass
        text = penman.format(Tree(node), indent=None) + '\n'
        for flags, m in ((['--amr'], amr), ([], Model())):
            for extra in (['--triples'], ['--reify-edges'], []):
                case = {'stream': 'cli', 'text': text, 'flags': flags + ['--canonicalize-roles'] + extra}
                chk.count(('cli', text, tuple(flags + extra)))
                try:
                    t = transform.canonicalize_roles(penman.parse(text), m)
                    g = layout.interpret(t, m)
                    if extra == ['--reify-edges']:
                        g = transform.reify_edges(g, m)
                    want = (penman.format_triples(g.triples) if extra == ['--triples'] else penman.encode(g, model=m)) + '\n'
                except Exception:       # noqa
                    continue
                runner = c20.run_cli_subprocess if i % 40 == 0 else c20.run_cli_inprocess
                out, code, err = runner(flags + ['--canonicalize-roles'] + extra, text, [])
                if out != want:
                    chk.fail('cli', 'penman --canonicalize-roles does not canonicalise the tree before interpreting it: output differs '
                                    'from the library pipeline', dict(case, got=out, want=want))
    chk.stat('cli-texts', n)


def coq_str(codes):
    return '[' + ';'.join(str(c) for c in codes) + ']%N' if codes else '(@nil N)'


def coq_table(wm):
    roles, dv, norms, reifs, tr, tv = wm
    def pat(p):
        return '[' + ';'.join(('PChar %d' % it[1]) if it[0] == 0 else ('%s %d %d' % ('PRange' if it[0] == 1 else 'PRangePlus', it[1], it[2]))
                              for it in p) + ']%N' if p else '(@nil pitem)'
    return ('(mkTable [%s] %s [%s] [%s] %s %s)' % (
        ';'.join(pat(p) for p in roles), 'true' if dv else 'false',
        ';'.join('(%s,%s)' % (coq_str(k), coq_str(v)) for k, v in norms),
        ';'.join('(%s,%s,%s,%s)' % tuple(coq_str(x) for x in r) for r in reifs), coq_str(tr), coq_str(tv)))


def kernel_crosscheck(chk, requests, results):
    """The same cases evaluated INSIDE Coq (vm_compute) must equal the extracted OCaml results:
    keeps the extraction mechanism out of the unchecked trusted base (DESIGN §1.2 item 2)."""
    import re
    idx = [i for i, r in enumerate(requests) if r[0] == 1]
    chk.rng.shuffle(idx)
    idx = idx[:200]
    exprs = ['canonicalize_role (model_of_table %s) %s' % (coq_table(requests[i][1]), coq_str(requests[i][2])) for i in idx]
    outs = common.run_in_kernel('C13', 'From PM Require Import Impl.Model.', exprs)
    if len(outs) != len(idx):
        chk.broken.append({'obligation': 'in-kernel cross-check', 'detail': f'{len(outs)} results for {len(idx)} cases'})
        return
    for i, o in zip(idx, outs):
        got = None if o.startswith('None') else ''.join(chr(int(x)) for x in re.findall(r'\d+', o))
        want = d_opt(d_str, results[i])
        if got != want:
            chk.mismatch('extracted OCaml result differs from in-kernel vm_compute', {'request': requests[i][2]}, want, got)
    chk.stat('in_kernel_crosscheck_cases', len(idx))


def norm_node(n):
    var, bs = n
    return (common.atom_key(var), [(r, norm_node(t) if isinstance(t, tuple) else common.atom_key(t)) for r, t in bs])


def replay(obj):
    """Re-run the failing case of a replay file on the implementation and show the behaviour."""
    common.use_repo()
    case = obj.get('case') or {}
    print('replay case:', case)
    tbl = case.get('table')
    m = models.impl_model(models.amr_table(), live_amr=True) if tbl == 'penman.models.amr' else models.impl_model(tbl)
    if 'role' in case:
        r = case['role']
        c = m.canonicalize_role(r)
        print('canonicalize_role:', repr(r), '->', repr(c), '->', repr(m.canonicalize_role(c)))
        print('invert_role:', repr(m.invert_role(r)), 'inverted:', m.is_role_inverted(r), 'has_role:', m.has_role(r))
    return 0
