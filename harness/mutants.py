"""Run the checks against the seeded changes in /verif/seeded/<id>/ (patch.diff, demo.py, meta.json).

  python -m harness.mutants verify <id>...     confirm a candidate: tests pass, demo fails with / passes without
  python -m harness.mutants run [<id>...]       run the targeted property's quick check against each kept change
  python -m harness.mutants import <dir> <id>   copy a candidate (patch.diff, demo.py, meta.json) into seeded/<id>

Every run uses a scratch COPY of /repo (PENMAN_REPO), never /repo itself, and removes it afterwards.
"""
import json
import os
import shutil
import subprocess
import sys
import tempfile
from pathlib import Path

VERIF = Path(__file__).resolve().parent.parent
SEEDED = VERIF / 'seeded'
PY = '/venv/bin/python'


def scratch_repo(patch=None):
    d = Path(tempfile.mkdtemp(prefix='mutrepo_', dir='/tmp'))
    subprocess.check_call(['git', 'clone', '-q', '--no-hardlinks', '/repo', str(d / 'repo')])
    repo = d / 'repo'
    if patch:
        r = subprocess.run(['git', '-C', str(repo), 'apply', '--whitespace=nowarn', str(patch)], capture_output=True, text=True)
        if r.returncode:
            shutil.rmtree(d)
            raise RuntimeError('patch does not apply: ' + r.stderr[-500:])
    return d, repo


def run_demo(repo, demo):
    env = dict(os.environ, PYTHONPATH=str(repo), PYTHONHASHSEED='0')
    r = subprocess.run([PY, str(demo)], cwd=str(repo), env=env, capture_output=True, text=True, timeout=300)
    return r.returncode, (r.stdout + r.stderr)[-600:]


def run_tests(repo):
    env = dict(os.environ, PYTHONPATH=str(repo))
    r = subprocess.run([PY, '-m', 'pytest', '-q', '-p', 'no:cacheprovider', '-x'], cwd=str(repo), env=env,
                       capture_output=True, text=True, timeout=900)
    return ' passed' in r.stdout and 'failed' not in r.stdout and 'error' not in r.stdout.lower().split('\n')[-2], r.stdout[-300:]


def run_check(repo, prop, tier='quick', seed='0'):
    env = dict(os.environ, PENMAN_REPO=str(repo), PYTHONPATH=f'{repo}:{VERIF}', PYTHONHASHSEED='0',
               VERIF_TIER=tier, VERIF_SEED=seed, PYTHONDONTWRITEBYTECODE='1')
    ev = VERIF / 'evidence' / f'{prop}.json'
    keep = ev.read_text() if ev.exists() else None
    try:
        r = subprocess.run([PY, '-m', 'harness.run', prop], cwd=str(VERIF), env=env, capture_output=True, text=True, timeout=3600)
    finally:
        if keep is not None:
            ev.write_text(keep)       # evidence must describe runs against /repo itself
    out = r.stdout + r.stderr
    viol = [l for l in out.split('\n') if l.startswith('VIOLATION')]
    return r.returncode, viol, out[-1500:]


def verify(ids):
    for i in ids:
        d = SEEDED / i
        tmp, repo = scratch_repo(d / 'patch.diff')
        try:
            ok_tests, t_out = run_tests(repo)
            rc_mut, o_mut = run_demo(repo, d / 'demo.py')
        finally:
            shutil.rmtree(tmp)
        tmp, repo = scratch_repo(None)
        try:
            rc_clean, o_clean = run_demo(repo, d / 'demo.py')
        finally:
            shutil.rmtree(tmp)
        ok = ok_tests and rc_mut != 0 and rc_clean == 0
        print(f'{i}: tests_pass={ok_tests} demo_with_change={rc_mut} demo_clean={rc_clean} -> {"CONFIRMED" if ok else "REJECTED"}')
        if not ok:
            print('   ', t_out.strip().split('\n')[-1], '|', o_mut.strip()[-200:], '|', o_clean.strip()[-200:])
        meta = json.loads((d / 'meta.json').read_text())
        meta['confirmed'] = {'tests_pass': ok_tests, 'demo_exit_with_change': rc_mut, 'demo_exit_clean': rc_clean}
        (d / 'meta.json').write_text(json.dumps(meta, indent=1))


def run(ids, extra_props=()):
    ids = ids or sorted(p.name for p in SEEDED.iterdir() if (p / 'patch.diff').exists())
    rows = []
    for i in ids:
        d = SEEDED / i
        meta = json.loads((d / 'meta.json').read_text())
        props = [meta['property']] + [p for p in extra_props if p != meta['property']]
        tmp, repo = scratch_repo(d / 'patch.diff')
        try:
            res = {}
            for p in props:
                rc, viol, tail = run_check(repo, p)
                res[p] = {'exit': rc, 'violation_lines': viol}
                print(f'{i}: {p} exit={rc} {viol[:1]}')
                if rc == 0:
                    print('    MISSED; tail:', tail.strip().split('\n')[-1])
        finally:
            shutil.rmtree(tmp)
        meta['checks_run'] = res
        meta['detected'] = any(v['exit'] == 1 and v['violation_lines'] for v in res.values())
        (d / 'meta.json').write_text(json.dumps(meta, indent=1))
        rows.append((i, meta['detected']))
    print('\nSUMMARY:', sum(1 for _, d in rows if d), 'of', len(rows), 'detected; missed:', [i for i, d in rows if not d])


def import_candidate(src, ident):
    d = SEEDED / ident
    d.mkdir(parents=True, exist_ok=True)
    for f in ('patch.diff', 'demo.py', 'meta.json'):
        shutil.copy(Path(src) / f, d / f)
    print('imported', ident)


if __name__ == '__main__':
    cmd = sys.argv[1]
    if cmd == 'verify':
        verify(sys.argv[2:])
    elif cmd == 'run':
        extra = [a[2:] for a in sys.argv[2:] if a.startswith('+C')]
        run([a for a in sys.argv[2:] if not a.startswith('+')], ['C' + e for e in extra])
    elif cmd == 'import':
        import_candidate(sys.argv[2], sys.argv[3])
