"""C10 — relabelling variables is a graph isomorphism.

proof:          coq/Properties/C10.v (arbitrary is_alpha / lower, arbitrary format pieces)
correspondence: Impl.ResetVars (extracted; is_alpha/lower = Latin-1 table validated against CPython on every run,
                CPython-supplied entries for every other character of the input) vs Tree.reset_variables
oracle:         on the implementation alone: expected names recomputed independently (prefix, first free index, DFS
                order), old->new map a bijection, references (incl. aligned ones) follow the map, nothing else
                changes, interpret commutes with the renaming when no constant collides; every call under a 2 s alarm
"""
import copy
import time

from harness import common, models, gen
from harness.common import e_str, d_str, timed, Timeout

THEOREMS = [
    'C10_parse_fmt_fuel', 'C10_render_injective', 'C10_terminates', 'C10_no_index_raises_or_unique',
    'C10_bijection', 'C10_consistent', 'C10_nothing_else', 'C10_iso',
    'C10_index_format_nonvacuous', 'C10_no_index_collision_raises', 'C10_iso_nonvacuous',
]

FORMATS = ['{prefix}{j}', '{prefix}{i}', 'a{i}', '{i}', 'x{j}{i}', 'v{j}', '{prefix}_{i}{{}}', '{prefix}', '{j}']
CONCEPTS = ['x', 'y', 'dog', 'dog', 'bark-01', 'a', 'b', 'v1', 'd2', 'é', 'Ωmega', '日本', '1abc', '"quoted"', 'İx', 'ǅz',
            '_', '--', '123', 'Été', 'ÀB', 'ß', 'µ', 'x~1', '"a b"', 'X']
CONSTANTS = ['x', 'y', '-', '"s t"', '1', '2.5', 'dog', 'a', 'b', 'c', 'd', 'd2', 'x0', 'a0', 'v', 'v2', '0', '_', '"a"', 'a~1',
             'zz~e.5', '"q"~2']
ROLES = [':ARG0', ':ARG1', ':ARG0-of', ':op1', ':op2', ':mod', ':polarity', ':quant', ':domain-of', ':ARG1-of', ':foo']


# ---------------------------------------------------------------------------
# independent helpers

def parse_format(fmt):
    """pieces of a format in the modelled class, else None"""
    out, i = [], 0
    while i < len(fmt):
        c = fmt[i]
        if fmt.startswith('{{', i) or fmt.startswith('}}', i):
            out.append(('lit', c))
            i += 2
        elif c == '{':
            j = fmt.find('}', i)
            name = fmt[i + 1:j] if j >= 0 else None
            if name not in ('prefix', 'i', 'j'):
                return None
            out.append((name,))
            i = j + 1
        elif c == '}':
            return None
        else:
            out.append(('lit', c))
            i += 1
    return out


def my_render(pieces, pre, i):
    s = ''
    for p in pieces:
        s += p[1] if p[0] == 'lit' else pre if p[0] == 'prefix' else str(i) if p[0] == 'i' else ('' if i == 0 else str(i + 1))
    return s


def my_prefix(concept):
    if isinstance(concept, str):
        for c in concept:
            if c.isalpha():
                return c.lower()
    return '_'


def dfs_nodes(node):
    var, bs = node
    out = [node]
    for _, t in bs:
        if isinstance(t, tuple):
            out += dfs_nodes(t)
    return out


def expected_names(pieces, node):
    """old var -> new var by the documented rule; None when the format cannot disambiguate"""
    uses_index = any(p[0] in ('i', 'j') for p in pieces)
    used, sigma = set(), {}
    for var, bs in dfs_nodes(node):
        if var in sigma:
            continue
        concept = next((t for r, t in bs if r == '/'), None)
        pre = my_prefix(concept)
        i = 0
        while my_render(pieces, pre, i) in used:
            if not uses_index:
                return None
            i += 1
        nv = my_render(pieces, pre, i)
        used.add(nv)
        sigma[var] = nv
    return sigma


def compare(old, new, sigma, fails, path=()):
    """walk both trees: definitions, references, everything else"""
    (ov, obs), (nv, nbs) = old, new
    if sigma.get(ov) != nv:
        fails.append(('bijection', f'node {ov!r} at {path} became {nv!r}, map says {sigma.get(ov)!r}'))
    if len(obs) != len(nbs):
        fails.append(('touched-other', f'branch count changed at {path}'))
        return
    for k, ((orole, otgt), (nrole, ntgt)) in enumerate(zip(obs, nbs)):
        if orole != nrole:
            fails.append(('touched-other', f'role {orole!r} became {nrole!r} at {path + (k,)}'))
        if isinstance(otgt, tuple) != isinstance(ntgt, tuple):
            fails.append(('touched-other', f'target kind changed at {path + (k,)}'))
        elif isinstance(otgt, tuple):
            compare(otgt, ntgt, sigma, fails, path + (k,))
        elif orole != '/' and isinstance(otgt, str) and otgt.partition('~')[0] in sigma:
            v, tilde, aln = otgt.partition('~')
            if ntgt != sigma[v] + tilde + aln:
                fails.append(('reference', f'reference {otgt!r} at {path + (k,)} became {ntgt!r}, expected {sigma[v] + tilde + aln!r}'))
        elif type(otgt) is not type(ntgt) or otgt != ntgt:
            what = 'concept' if orole == '/' else 'constant'
            fails.append(('touched-other', f'{what} {otgt!r} at {path + (k,)} became {ntgt!r}'))


def constants_of(node, sigma):
    """non-concept atomic str targets that are not references (variable part, full text)"""
    out = []
    for var, bs in dfs_nodes(node):
        for role, t in bs:
            if role != '/' and isinstance(t, str) and t.partition('~')[0] not in sigma:
                out.append(t)
    return out


def rename_graph(cg, sigma):
    """canon_graph form with sigma applied to sources, to targets of non-instance triples, the top and Push markers"""
    def rt(t):
        s, r, o = t
        return (sigma.get(s, s), r, sigma.get(o, o) if r != ':instance' and isinstance(o, str) else o)

    def re_(e):
        return ('Push', sigma.get(e[1], e[1])) if e[0] == 'Push' else e
    return {'triples': [rt(t) for t in cg['triples']], 'top': sigma.get(cg['top'], cg['top']),
            'epidata': [(rt(t), [re_(e) for e in es]) for t, es in cg['epidata']], 'metadata': cg['metadata']}


def overrides(node):
    chars = set()
    for var, bs in dfs_nodes(node):
        for _, t in bs:
            if isinstance(t, str):
                chars.update(c for c in t if ord(c) > 0xFF)
    return [[ord(c), 1 if c.isalpha() else 0, e_str(c.lower())] for c in sorted(chars)]


def random_tree(rng):
    pool = gen.fresh_vars(12) + ['_', '_2', '0', '1', '10', 'é1']    # names a first relabelling ({i}, EDS-style _N) leaves behind
    rng.shuffle(pool)
    consts = rng.sample(CONSTANTS, rng.randint(3, 8))
    concepts = rng.sample(CONCEPTS, rng.randint(1, 5))      # few concepts -> prefix collisions
    for _ in range(6):       # prefer trees with several nodes
        node = gen.random_tree_node(rng, list(pool), maxdepth=rng.choice([1, 2, 3, 4]), wf=True, roles=ROLES, atoms=consts)
        if len(dfs_nodes(node)) >= 2 or rng.random() < .1:
            break
    # replace concepts: gen draws them from `atoms`; redraw from the concept pool (and sometimes a variable name)
    allvars = [v for v, _ in dfs_nodes(node)]

    def redo(n):
        var, bs = n
        out = []
        for role, t in bs:
            if role == '/':
                t = rng.choice(concepts) if rng.random() < .85 else rng.choice(allvars)
            elif isinstance(t, tuple):
                t = redo(t)
            elif isinstance(t, str) and t in allvars and rng.random() < .35:
                t += rng.choice(['~e.5', '~3', '~e.1,2'])     # aligned re-entrancy
            out.append((role, t))
        return (var, out)
    return redo(node)


def run(chk):
    chk.rule = ('well-formed trees (fresh variable per node, shuffled pool) of depth <= 4 with concepts drawn from a small pool '
                '(prefix collisions; non-ASCII, digit-first, quoted, alignment-carrying concepts; concepts spelled like variables), '
                'constants spelled like old and like new variable names, aligned re-entrancies, concept-less nodes x the 8 '
                'formats of the property; a case is distinct per (tree, format), non-trivial when the tree has >= 2 nodes')
    t0 = time.time()
    chk.require_theorems('Properties.C10', THEOREMS)
    from harness import extra_theorems
    chk.require_theorems('Properties.C10b', extra_theorems.THEOREMS_C10)
    chk.notes.append(f'phase build+obligations: {time.time() - t0:.1f}s')
    chk.assumptions += [
        'str.format is modelled for literal text, {{ }} escapes and the plain fields {prefix} {i} {j}; other formats are rejected by parse_fmt (outside the model)',
        'str.isalpha / str.lower are parameters of the model; the extracted instance is a Latin-1 table (validated below) plus CPython-supplied entries for the other characters of each input',
        'C10_iso hypotheses: old variables and new names contain no "~" and no leading quote, every node has a variable, the concept role is written "/" and no other branch produces an instance triple, no constant is spelled like a new name',
    ]
    common.use_repo()
    import penman
    from penman.tree import Tree, _default_variable_prefix
    from penman import layout
    from penman.model import Model
    model = Model()

    # ---- the Latin-1 table of the extracted instance against CPython, code points 0..0x24F ----
    tab = common.run_driver('errvars', [[12, 0x250]])[0]
    applies = checked = 0
    for cp, (ap, al, lo) in enumerate(tab):
        c = chr(cp)
        if ap:
            applies += 1
            if bool(al) != c.isalpha() or d_str(lo) != c.lower():
                chk.mismatch('Latin-1 is_alpha/lower table differs from CPython', {'code_point': cp},
                             [c.isalpha(), c.lower()], [bool(al), d_str(lo)])
        checked += 1
    chk.notes.append(f'is_alpha/lower table: {checked} code points 0..0x24F swept, table applies to {applies} (0..0xFF), '
                     f'the rest is supplied per input by CPython')

    # ---- formats: the harness parser and the Coq parser agree on which formats are modelled ----
    fmt_probe = FORMATS + ['{i!r}', '{i:03}', '{}', '{0}', '{x}', '{i', '}', 'a}b', '{{', '}}{{', '', '{prefix}{prefix}', '{ j}']
    res = common.run_driver('errvars', [[10, e_str(f)] for f in fmt_probe])
    for f, r in zip(fmt_probe, res):
        mine = parse_format(f)
        theirs = None if r == [] else [('lit', d_str(p[1])) if p[0] == 0 else (['prefix', 'i', 'j'][p[0] - 1],) for p in r[0]]
        merged = []
        for p in (mine or []):
            if p[0] == 'lit' and merged and merged[-1][0] == 'lit':
                merged[-1] = ('lit', merged[-1][1] + p[1])
            else:
                merged.append(p)
        if (mine is None) != (theirs is None) or (mine is not None and merged != theirs):
            chk.mismatch('parse_fmt differs from the harness parser', {'fmt': f}, mine, theirs)
        if mine is not None:
            # and from CPython's str.format on a probe
            want = f.format(prefix='p', i=3, j=4)
            if my_render(mine, 'p', 3) != want:
                chk.mismatch('render differs from str.format', {'fmt': f}, want, my_render(mine, 'p', 3))
    chk.corr_cases += len(fmt_probe)

    ntrees = 6000 if chk.tier == 'quick' else 60000
    requests, expect = [], []
    t0 = time.time()
    hangs = 0
    for _ in range(ntrees):
        node = random_tree(chk.rng)
        nnodes = len(dfs_nodes(node))
        for fmt in FORMATS:
            if hangs >= 3 and not any(p[0] in ('i', 'j') for p in parse_format(fmt)):
                chk.stat('skipped after 3 hangs (format without index)')
                continue
            if hangs >= 8:
                chk.stat('skipped after 8 hangs')
                continue
            pieces = parse_format(fmt)
            case = {'tree': node, 'fmt': fmt}
            chk.count((repr(node), fmt), nontrivial=nnodes >= 2)
            chk.stat(f'nodes={min(nnodes, 6)}{"+" if nnodes >= 6 else ""}')
            t = Tree(copy.deepcopy(node))
            kept = t.node                      # the caller may still hold the old node structure (e.g. another Tree)
            try:
                timed(t.reset_variables, fmt, seconds=2)
                outcome = ('ok', t.node)
                if kept != node:
                    chk.fail('touched-other', f'reset_variables({fmt!r}) rewrote the OLD node structure in place '
                             '(a second Tree sharing it, or a kept reference, is half-relabelled)', case)
            except Timeout:
                chk.fail('hang', f'reset_variables({fmt!r}) did not return within 2 s', case)
                hangs += 1
                continue
            except ValueError:
                outcome = ('err', 5)
            except KeyError:
                outcome = ('err', 2)
            sigma = expected_names(pieces, node)
            if outcome[0] == 'ok' and chk.rng.random() < .25:
                # history: a query (nodes()) BEFORE an in-place rearrange must not change what the later relabelling
                # does (an answer cached across the in-place change would), and relabelling twice must work
                try:
                    ta, tb = Tree(copy.deepcopy(node)), Tree(copy.deepcopy(node))
                    ta.nodes()
                    try:
                        layout.interpret(ta, model)
                    except Exception:       # noqa: malformed alignment text in a constant; only the side effect matters
                        pass
                    layout.rearrange(ta, key=model.canonical_order)
                    layout.rearrange(tb, key=model.canonical_order)
                    timed(ta.reset_variables, fmt, seconds=2)
                    timed(tb.reset_variables, fmt, seconds=2)
                    if ta.node != tb.node:
                        chk.fail('history', f'reset_variables({fmt!r}) after rearrange depends on an earlier nodes()/interpret call', case)
                    timed(ta.reset_variables, '{prefix}{i}', seconds=2)
                    chk.stat('history-checked')
                except Timeout:
                    chk.fail('hang', 'relabelling after rearrange did not return', case)
                except Exception as e:      # noqa
                    if not isinstance(e, ValueError):
                        chk.fail('history', f'{type(e).__name__} when relabelling a tree a second time / after rearrange', case)
            if len(chk.samples) < 4 and nnodes >= 3 and outcome[0] == 'ok' and any('~' in str(x) for x in constants_of(node, {}) ):
                chk.sample(dict(case, result=outcome[1]))
            # ---------------- oracle ----------------
            if outcome[0] == 'err':
                if sigma is None and outcome[1] == 5:
                    chk.stat('ValueError (format cannot disambiguate; allowed)')
                else:
                    chk.fail('bijection', f'reset_variables({fmt!r}) raised {"ValueError" if outcome[1] == 5 else "KeyError"} '
                             f'although unique names exist: {sigma!r}', case)
            elif sigma is None:
                chk.fail('bijection', f'reset_variables({fmt!r}) returned although two nodes get the same name', case)
            else:
                chk.stat('relabelled')
                if len(set(sigma.values())) != len(sigma):
                    chk.fail('bijection', 'internal: expected names not distinct', case)
                fails = []
                compare(node, outcome[1], sigma, fails)
                for key, what in fails[:3]:
                    chk.fail(key, f'reset_variables({fmt!r}): {what}', case)
                new_names = set(sigma.values())
                consts = constants_of(node, sigma)
                collide = any(c in new_names or c.partition('~')[0] in new_names for c in consts)
                if collide:
                    chk.stat('constant spelled like a new name (iso clause not applicable)')
                else:
                    chk.stat('iso-checked')
                    try:
                        g_old = layout.interpret(Tree(copy.deepcopy(node)), model)
                        g_new = layout.interpret(Tree(copy.deepcopy(outcome[1])), model)
                    except Exception as e:
                        chk.stat(f'interpret raised {type(e).__name__} (malformed alignment text in a constant)')
                    else:
                        want = rename_graph(common.canon_graph(g_old), sigma)
                        got = common.canon_graph(g_new)
                        if want != got:
                            diff = [k for k in want if want[k] != got[k]]
                            chk.fail('iso', f'interpret(reset({fmt!r})) differs from the renamed interpretation in {diff}', case)
            # ---------------- correspondence ----------------
            requests.append([11, overrides(node), e_str(fmt), common.e_tree(Tree(node))])
            expect.append((case, outcome))
        # prefix function, Latin-1 concepts only, no overrides
        for var, bs in dfs_nodes(node):
            concept = next((t for r, t in bs if r == '/'), None)
            if isinstance(concept, str) and all(ord(c) <= 0xFF for c in concept):
                requests.append([13, [], [common.e_target(concept)]])
                expect.append(({'concept': concept}, ('prefix', _default_variable_prefix(concept))))
    chk.notes.append(f'phase implementation+oracle: {time.time() - t0:.1f}s')
    t0 = time.time()
    res = common.run_driver('errvars', requests)
    chk.corr_cases += len(requests)
    for (case, exp), r in zip(expect, res):
        if exp[0] == 'prefix':
            got = ('prefix', d_str(r))
        elif r and r[0] == 0:
            got = ('ok', norm(common.d_tree(r[1])[0]))
            exp = ('ok', norm(exp[1]))
        elif r and r[0] == 7:
            got = ('err', r[1])
        else:
            got = ('model-outcome', r)
        if got != exp:
            chk.mismatch('reset_variables differs', case, exp, got)
    chk.notes.append(f'phase model driver: {time.time() - t0:.1f}s')
    cli_stream(chk)


def norm(n):
    var, bs = n
    return (common.atom_key(var), [(r, norm(t) if isinstance(t, tuple) else common.atom_key(t)) for r, t in bs])


def to_node(x):
    if isinstance(x, (list, tuple)) and len(x) == 2 and isinstance(x[1], list):
        return (x[0], [(r, to_node(t)) for r, t in x[1]])
    return x


def cli_stream(chk):
    """Observed at `penman --make-variables`: the tool relabels AFTER rearranging, so names follow the depth-first order of
    the tree that is written."""
    import penman
    from penman import layout
    from penman.model import Model
    from penman.tree import Tree
    from harness import c20
    m = Model()
    n = 60 if chk.tier == 'quick' else 600
    for i in range(n):
        node = gen.random_tree_node(chk.rng, gen.fresh_vars(), maxdepth=chk.rng.choice([2, 3]), wf=True,
                                    roles=[':ARG1', ':ARG0', ':op2', ':op1', ':mod', ':ARG0-of', ':quant'],
                                    atoms=['apple', 'boy', 'ant', 'bark', 'x', '7'])
        text = penman.format(Tree(node), indent=None) + '\n'
        for fmt in ('{prefix}{j}', 'a{i}'):
            for key in ('canonical', 'alphanumeric'):
                case = {'stream': 'cli', 'text': text, 'fmt': fmt, 'rearrange': key}
                chk.count(('cli', text, fmt, key))
                try:
                    t = layout.configure(layout.interpret(penman.parse(text), m), model=m)
                    layout.rearrange(t, key=getattr(m, key + '_order'))
                    t.reset_variables(fmt)
                    want = penman.format(t) + '\n'
                except Exception:       # noqa
                    continue
                runner = c20.run_cli_subprocess if i % 30 == 0 else c20.run_cli_inprocess
                out, code, err = runner(['--rearrange', key, '--make-variables', fmt], text, [])
                if out != want:
                    chk.fail('cli', 'penman --rearrange K --make-variables FMT does not name the nodes in the depth-first order of the '
                                    'rearranged tree', dict(case, got=out, want=want))
    chk.stat('cli-texts', n)


def replay(obj):
    common.use_repo()
    from penman.tree import Tree
    case = obj.get('case') or {}
    node = to_node(case['tree'])
    fmt = case['fmt']
    print('tree:', node)
    print('format:', fmt)
    t = Tree(copy.deepcopy(node))
    try:
        timed(t.reset_variables, fmt, seconds=2)
        print('result:', t.node)
    except Timeout:
        print('reset_variables did not return within 2 s')
    except Exception as e:
        print('raised', repr(e))
    print('expected names:', expected_names(parse_format(fmt), node))
    return 0
