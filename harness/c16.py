"""C16 — model checking is sound and complete, and --check reports it in the exit status.

proof:          coq/Properties/C16.v (arbitrary model, arbitrary graph; _dfs fuel proved sufficient)
correspondence: Impl.Errors (extracted: errors / check_graph / cli_exit_code) vs penman.model.Model.errors
                (dict ORDER and messages) and vs `python -m penman --check` (exit status, error-N metadata)
oracle:         on the implementation alone: role messages against an independent `defined` (regex fullmatch
                incl. one inversion), reachability against an independent union-find, general messages by
                definition, decoded texts -> role errors only, CLI exit status / metadata by construction
"""
import itertools
import os
import time
import subprocess
import tempfile
from concurrent.futures import ThreadPoolExecutor

from harness import common, models, gen
from harness.common import e_str, d_str, d_opt

THEOREMS = [
    'C16_invalid_role_iff', 'C16_has_role_defined', 'C16_dfs_is_component', 'C16_errors_total',
    'C16_unreachable_iff', 'C16_general_messages_iff', 'C16_decoded_only_role_errors',
    'C16_decoded_connected', 'C16_exit_code_iff', 'C16_exit_code_stdin_iff', 'C16_check_records_all',
    'C16_error_keys_distinct', 'C16_decoded_guard_is_needed', 'C16_decoded_nonvacuous',
    'C16_general_nonvacuous',
]

MSG = {'graph is empty': 0, 'top is not set': 1, 'top is not a variable in the graph': 2,
       'invalid role': 3, 'unreachable': 4}
MSG_TXT = {v: k for k, v in MSG.items()}
VARS = ['a', 'b', 'c']
ROLES = [':instance', ':ARG0', ':ARG0-of', ':foo', ':foo-of-of']
TARGETS = ['a', 'b', 'c', 'x', None]
TOPS = [None, 'a', 'b', 'c', 'z', '']
ALL_TRIPLES = [(s, r, t) for s in VARS for r in ROLES for t in TARGETS]

_TABLES = None


def tables():
    global _TABLES
    if _TABLES is None:
        _TABLES = [('default', models.DEFAULT, False), ('amr', models.amr_table(), True),
                   ('mini', models.MINI_AMR, False)]
    return _TABLES


# ---------------------------------------------------------------------------
# the oracle (never calls Model.errors / has_role / _dfs)

def role_ok(tbl, role):
    return models.defined(tbl, role) or (role.endswith('-of') and models.defined(tbl, role[:-3]))


def components(triples):
    """union-find over the sources; edges = non-instance triples whose target is a source"""
    parent = {}
    for s, _, _ in triples:
        parent.setdefault(s, s)

    def find(x):
        while parent[x] != x:
            parent[x] = parent[parent[x]]
            x = parent[x]
        return x
    for s, r, t in triples:
        if r != ':instance' and t in parent:
            parent[find(s)] = find(t)
    return {v: find(v) for v in parent}


def expected_report(tbl, triples, explicit_top):
    """context -> set of messages, by the property's definitions"""
    exp = {}
    if not triples:
        return {None: {'graph is empty'}}
    for t in triples:
        if not role_ok(tbl, t[1]):
            exp.setdefault(t, set()).add('invalid role')
    top = explicit_top if explicit_top is not None else triples[0][0]
    comp = components(triples)
    if top is None or top == '':
        exp.setdefault(None, set()).add('top is not set')
    elif top not in comp:
        exp.setdefault(None, set()).add('top is not a variable in the graph')
    else:
        for t in triples:
            if comp[t[0]] != comp[top]:
                exp.setdefault(t, set()).add('unreachable')
    return exp


def canon_err(e):
    return [(None if k is None else common.canon_triple(k), [MSG[m] for m in v]) for k, v in e.items()]


def d_err(v):
    """wire option errdict -> comparable form"""
    if v == []:
        return 'OutOfFuel'
    return [(d_opt(common.d_triple, k), list(ms)) for k, ms in v[0]]


def judge(exp, got):
    """compare the oracle's expectation with the implementation's report; returns list of (key, what)"""
    out = []
    gotset = {k: set(v) for k, v in got.items()}
    for k in set(exp) | set(gotset):
        e, g = exp.get(k, set()), gotset.get(k, set())
        if e == g:
            continue
        for msg in e ^ g:
            key = {'invalid role': 'invalid-role', 'unreachable': 'unreachable'}.get(msg, 'general')
            out.append((key, f'context {k!r}: expected {sorted(e)} got {sorted(g)}'))
    return out


_CACHE = {}


def model_of(ti):
    """(name, table, live penman Model, wire table) -- built once per process"""
    if ti not in _CACHE:
        name, tbl, live = tables()[ti]
        _CACHE[ti] = (name, tbl, models.impl_model(tbl, live_amr=live), models.wire_model(tbl))
    return _CACHE[ti]


def lib_case(args):
    """one library case, run in a worker: returns (failures, wire request, canonical impl result)"""
    ti, ts, top = args
    name, tbl, m, wm = model_of(ti)
    from penman.graph import Graph
    g = Graph(list(ts), top=top)
    got = m.errors(g)
    fails = judge(expected_report(tbl, list(ts), top), got)
    return (fails, [1, wm, common.e_graph(g)], canon_err(got))


# ---------------------------------------------------------------------------
# decoded texts

DECODED_FIXED = [
    '(a / b :ARG0 (b / a))', '(a / a)', '(a :ARG0 ())', '(a / x :ARG0 (b / y :ARG0-of a))',
    '(a :ARG0-of (b :instance-of a))', '(a / x :ARG0~1 (b / y))', '(a :ARG0 b)', '(a)',
    '(a / x :foo-of-of (b / a :foo c) :ARG0-of (c / b))', '(a / b :ARG0 b)', '(a / x :instance-of b)',
    '(a :instance (b / x))', '(a :instance ())', '(a :instance-of (b / x))', '(a :instance~1 (b / x))',
    '(a / x :ARG0 (b / y :instance~e.2 (c / z)))', '(a / x :ARG1 (b :instance-of~3 (c / z)))',
    '(a / x :mod-of (b / y))', '(a / x :domain (b / y :domain-of (c / a)))',
    '(a / x :ARG0 (b / y) :ARG1 (c / z :ARG0 b :ARG0-of a))',
]


def instance_node_branch(tbl, node):
    """N8: some node-target branch writes an instance triple"""
    _, bs = node
    for role, tgt in bs:
        if isinstance(tgt, tuple):
            base = role.partition('~')[0]
            if base == '/':
                base = ':instance'
            inverted = (not models.defined(tbl, base)) and base.endswith('-of')
            final = base[:-3] if inverted and not tbl['noop'] else base
            if not final.startswith(':'):
                final = ':' + final
            if final == ':instance' or instance_node_branch(tbl, tgt):
                return True
    return False


def random_decodable(rng):
    roles = [':ARG0', ':ARG1', ':ARG0-of', ':mod', ':domain-of', ':foo', ':foo-of-of', ':op1', ':instance', ':instance-of',
             ':polarity', ':consist-of', ':consist']
    atoms = ['x', 'y', 'a', 'b', '-', '"s t"', '1', 'dog']
    node = gen.random_tree_node(rng, ['a', 'b', 'c', 'd', 'e', 'f'], maxdepth=3, wf=True, roles=roles, atoms=atoms)
    return node


# ---------------------------------------------------------------------------
# CLI

GOOD = {
    False: ['(a / alpha)', '# ::id 7\n(b / beta)', '(c / c)'],
    True: ['(a / alpha :ARG0 (b / beta))', '# ::id 7\n(b / beta :mod (c / d) :op1 "x")', '(c / c :ARG1-of (d / e :ARG0 c))',
           '(a / alpha)'],
}
BAD = {
    False: ['(a / alpha :ARG0 (b / beta))', '# ::snt x y\n(a / alpha :ARG0 b :ARG1 c)', '()', '(a :TOP-of-of b)',
            '(a / b :foo (b / a) :foo b)'],
    True: ['(a / alpha :foo (b / beta))', '# ::snt x y\n(a / alpha :ARG0 b :bar c :baz-of (d / e))', '()',
           '(a / alpha :ARG0-of-of (b / beta))', '(a / b :foo (b / a) :foo b)'],
}
NONE_ONLY = '()'


def run_cli(job):
    """job = (amr, [file texts] or None, stdin text or None[, other options]) -> (returncode, stdout, stderr)"""
    amr, files, stdin = job[:3]
    extra = list(job[3]) if len(job) > 3 else []
    env = dict(os.environ, PYTHONPATH=str(common.REPO), PYTHONHASHSEED='0', PYTHONIOENCODING='utf-8')
    cmd = ['/venv/bin/python', '-m', 'penman', '--check'] + (['--amr'] if amr else []) + extra
    with tempfile.TemporaryDirectory(prefix='c16-') as d:
        paths = []
        for i, text in enumerate(files or []):
            p = os.path.join(d, f'f{i}.txt')
            with open(p, 'w', encoding='utf-8') as f:
                f.write(text)
            paths.append(p)
        try:
            r = subprocess.run(cmd + paths, input=stdin if files is None else None, capture_output=True,
                               text=True, timeout=60, env=env, cwd=d, encoding='utf-8')
        except subprocess.TimeoutExpired:
            return (None, '', 'timeout')
    return (r.returncode, r.stdout, r.stderr)


def history_stream(chk):
    """The report is a function of the graph AS IT IS NOW: a graph that was inspected before (top, errors, repr, encode)
    and then edited in place through its public triple list gets the same report as a graph built afresh from the
    same data (nothing remembered from before the edit, e.g. an implicit top)."""
    import penman
    from penman.graph import Graph
    from penman.model import Model
    from penman.models.amr import model as amr
    rng = chk.rng
    n = 600 if chk.tier == 'quick' else 6000
    roles = [':instance', ':ARG0', ':ARG1', ':ARG0-of', ':foo', ':mod']
    for i in range(n):
        m = amr if i % 2 else Model()
        vs = ['a', 'b', 'c', 'd'][:rng.randint(2, 4)]
        ts = []
        for v in vs:
            ts.append((v, ':instance', rng.choice(['x', 'y', None])))
        for _ in range(rng.randint(1, 4)):
            ts.append((rng.choice(vs), rng.choice(roles[1:]), rng.choice(vs + ['k', 7])))
        rng.shuffle(ts)
        g = Graph(list(ts))
        try:
            _ = (g.top, m.errors(g), repr(g), g.reentrancies(), g == Graph(list(ts)))
            try:
                common.timed(penman.encode, g, seconds=5)
            except Exception:       # noqa
                pass
            how = rng.choice(['drop-first', 'rotate', 'reverse', 'isub-first'])
            if how == 'drop-first':
                new = ts[1:]
                del g.triples[0]
            elif how == 'rotate':
                new = ts[1:] + ts[:1]
                g.triples[:] = new
            elif how == 'reverse':
                new = ts[::-1]
                g.triples.reverse()
            else:
                new = [t for t in ts if t != ts[0]]
                g -= Graph([ts[0]])
                if g._top is not None:
                    continue            # -= keeps/sets an explicit top by its own rule (C15): not the case studied here
            fresh = Graph(list(new))
            a = [(k, list(v)) for k, v in m.errors(g).items()]
            b = [(k, list(v)) for k, v in m.errors(fresh).items()]
        except Exception as e:       # noqa
            chk.fail('history', f'{type(e).__name__} while inspecting / editing a graph', {'kind': 'history', 'triples': [list(t) for t in ts]})
            continue
        chk.count(('history', tuple(ts), how))
        if a != b or g.top != fresh.top:
            chk.fail('history', f'after {how} on a graph that was inspected before, errors() = {str(a)[:160]} (top {g.top!r}); a graph built '
                     f'from the same triples gives {str(b)[:160]} (top {fresh.top!r})',
                     {'kind': 'history', 'triples': [list(t) for t in ts], 'edit': how, 'amr': bool(i % 2)})
    chk.stat('history-cases', n)


def cli_jobs(chk):
    """every ordering of <= 3 files over contents of 0-2 graphs of kinds good / bad / none-context-only"""
    kinds = ['G', 'B', 'E']
    contents = [()] + [(k,) for k in kinds] + list(itertools.product(kinds, repeat=2))
    seqs = [s for n in (1, 2) for s in itertools.product(contents, repeat=n)]
    three = list(itertools.product(contents, repeat=3))
    if chk.tier == 'quick':
        three = chk.rng.sample(three, 150)
    seqs += three
    jobs = []
    for amr in (False, True):
        def text_of(content):
            parts = []
            for k in content:
                parts.append(chk.rng.choice(GOOD[amr]) if k == 'G' else NONE_ONLY if k == 'E' else chk.rng.choice(BAD[amr]))
            sep = chk.rng.choice(['\n\n', '\n', ' '])
            return sep.join(parts) + ('\n' if parts else '')
        for s in seqs:
            jobs.append((amr, [text_of(c) for c in s], None, s))
        for c in contents:
            jobs.append((amr, None, text_of(c), (c,)))
        # boundary: graphs with exactly 255 / 256 / 257 / 512 offending triples (an exit status is 8 bits wide)
        def many(n):
            return '(a / alpha' + ''.join(f' :zz{i} k{i}' for i in range(n)) + ')\n'
        for n in (255, 256, 257, 512):
            jobs.append((amr, [many(n)], None, ('many', n)))
        jobs.append((amr, [many(256), many(512)], None, ('many', 256, 512)))
        jobs.append((amr, None, many(256), ('many-stdin', 256)))
        jobs.append((amr, [many(256), text_of(('G',))], None, ('many', 256, 'G')))
        # --check next to the layout / formatting options: the report (status and error-N metadata) is the same
        for extra in (('--reconfigure', 'canonical'), ('--reconfigure', 'original'), ('--rearrange', 'canonical,attributes-first'),
                      ('--indent', '0', '--compact'), ('--reconfigure', 'canonical', '--rearrange', 'alphanumeric')):
            for c in chk.rng.sample(contents[1:], 4):
                jobs.append((amr, [text_of(c), text_of(chk.rng.choice(contents))], None, ('extra', extra, c), extra))
                jobs.append((amr, None, text_of(c), ('extra-stdin', extra, c), extra))
    return jobs


def run(chk):
    chk.rule = ('library: every triple list of <= 2 triples over sources {a,b,c} x roles {:instance,:ARG0,:ARG0-of,:foo,:foo-of-of} x '
                'targets {a,b,c,x,None} (concepts spelled like variables included) x tops {None,a,b,c,z,""} x models '
                '{default, live AMR, mini-AMR}, plus random lists of 3..4 (quick) / 3..5 (thorough) triples; a case is distinct '
                'per (model, triples, top), non-trivial when it has a triple. decoded: fixed + random well-formed trees '
                'formatted to text and decoded. CLI: every ordering of <= 3 FILE arguments (quick: all of length <= 2 and 150 '
                'of length 3) and stdin, each holding 0-2 graphs of kind good / bad / top-less "()", default and --amr')
    t0 = time.time()
    chk.require_theorems('Properties.C16', THEOREMS)
    chk.notes.append(f'phase build+obligations: {time.time() - t0:.1f}s')
    t0 = time.time()
    chk.assumptions += [
        'Model.errors is modelled for graphs whose sources are str (sorted(unreachable) would raise TypeError otherwise); '
        'the generated graphs have str sources only',
        'domain restriction N8: a text writing the concept role literally (:instance / :instance-of) on a NODE-target branch is '
        'outside "graph decoded from a text" for the role-errors-only clause (counted, not judged)',
        'argparse, sys.exit and file reading of the command-line tool are not modelled: tied by running the real tool in subprocesses',
    ]
    common.use_repo()
    import penman
    from penman.codec import PENMANCodec
    from penman.tree import Tree
    quick = chk.tier == 'quick'

    # ---------------- library: oracle + correspondence --------------------------------------
    cases = []
    for n in (0, 1, 2):
        for ts in itertools.product(ALL_TRIPLES, repeat=n):
            for top in TOPS:
                for ti in range(3):
                    cases.append((ti, ts, top))
    nrand = 60000 if quick else 500000
    maxn = 4 if quick else 5
    for _ in range(nrand):
        n = chk.rng.randint(3, maxn)
        # bias towards few distinct sources/targets so that components and duplicates both occur
        pool = ALL_TRIPLES if chk.rng.random() < .5 else chk.rng.sample(ALL_TRIPLES, 6)
        ts = tuple(chk.rng.choice(pool) for _ in range(n))
        cases.append((chk.rng.randrange(3), ts, chk.rng.choice(TOPS)))
    results = common.pmap(lib_case, cases, chunk=2000)
    requests, expect = [], []
    for (ti, ts, top), (fails, req, got) in zip(cases, results):
        name = tables()[ti][0]
        case = {'kind': 'library', 'model': name, 'triples': [list(t) for t in ts], 'top': top}
        chk.count((name, ts, top), nontrivial=bool(ts))
        chk.stat(f'triples={len(ts)}')
        if any(4 in ms for _, ms in got):
            chk.stat('has-unreachable')
        if any(3 in ms for _, ms in got):
            chk.stat('has-invalid-role')
        if not got:
            chk.stat('no-errors')
        if len(chk.samples) < 3 and len(ts) == 3 and len(got) >= 2:
            chk.sample(dict(case, report=got))
        for key, what in fails:
            chk.fail(key, f'Model({name}).errors: {what}', case)
        requests.append(req)
        expect.append((case, got))

    chk.notes.append(f'phase library (implementation+oracle): {time.time() - t0:.1f}s')
    t0 = time.time()
    # ---------------- decoded texts --------------------------------------------------------
    dec_cases = []
    for s in DECODED_FIXED:
        for ti in range(3):
            dec_cases.append((ti, s))
    ndec = 3000 if quick else 20000
    codec0 = PENMANCodec()
    for _ in range(ndec):
        node = random_decodable(chk.rng)
        try:
            text = codec0.format(Tree(node))
        except Exception:
            continue
        dec_cases.append((chk.rng.randrange(3), text))
    for ti, text in dec_cases:
        name, tbl, m, wm = model_of(ti)
        case = {'kind': 'decoded', 'model': name, 'text': text}
        try:
            tree = penman.parse(text)
            g = penman.interpret(tree, model=m)
        except Exception:
            chk.stat('decoded-undecodable')
            continue
        chk.count(('decoded', name, text))
        got = m.errors(g)
        # every way of decoding the text with this model must lead to the same report
        for how, f in (('decode', lambda: penman.decode(text, model=m)), ('loads', lambda: penman.loads(text, model=m)[0]),
                       ('iterdecode', lambda: next(iter(penman.iterdecode(text, model=m))))):
            try:
                got2 = m.errors(common.timed(f, seconds=5))
            except Exception as e:       # noqa
                got2 = type(e).__name__
            if got2 != got:
                chk.fail('decoded', f'errors(penman.{how}(text, model={name})) = {got2!r} differs from errors(interpret(parse(text), model)) = {got!r}',
                         dict(case, entry=how))
        if not g.top:
            chk.stat('decoded-empty-top (outside clause)')
        elif instance_node_branch(tbl, tree.node):
            chk.stat('decoded-instance-node-branch (outside domain)')
        else:
            chk.stat('decoded-in-domain')
            other = {k: v for k, v in got.items() if any(x != 'invalid role' for x in v) or k is None}
            if other:
                chk.fail('decoded', f'decoded text {text!r} received a non-role error under model {name}: {other!r}', case)
            # the role errors themselves are judged like any other graph
            for key, what in judge(expected_report(tbl, list(g.triples), g._top), got):
                chk.fail(key, f'Model({name}).errors on decode({text!r}): {what}', case)
        requests.append([5, wm, common.e_tree(tree)])
        expect.append((case, canon_err(got)))

    chk.notes.append(f'phase decoded: {time.time() - t0:.1f}s')
    t0 = time.time()
    # batched: one model table per request line, up to 400 inputs
    groups = {}
    for idx, req in enumerate(requests):
        groups.setdefault((req[0], expect[idx][0]['model']), []).append(idx)
    batched, owners = [], []
    names = [t[0] for t in tables()]
    for (cmd, name), idxs in groups.items():
        wm = model_of(names.index(name))[3]
        for i in range(0, len(idxs), 400):
            part = idxs[i:i + 400]
            batched.append([6 if cmd == 1 else 7, wm, [requests[j][2] for j in part]])
            owners.append(part)
    res = [None] * len(requests)
    for part, out in zip(owners, common.run_driver('errvars', batched, shard=8)):
        for j, r in zip(part, out):
            res[j] = r
    chk.corr_cases = len(requests)
    for (case, got), r in zip(expect, res):
        if case['kind'] == 'decoded':
            mod = d_err(r[1]) if r and r[0] == 0 else ('outcome', r)
        else:
            mod = d_err(r)
        if mod != got:
            chk.mismatch('errors differ (order / messages)', case, got, mod)

    chk.notes.append(f'phase model driver (library+decoded): {time.time() - t0:.1f}s')
    t0 = time.time()
    history_stream(chk)
    # ---------------- command-line tool ----------------------------------------------------
    jobs = cli_jobs(chk)
    with ThreadPoolExecutor(max_workers=common.NPROC) as ex:
        outs = list(ex.map(run_cli, [(j[0], j[1], j[2]) + ((j[4],) if len(j) > 4 else ()) for j in jobs]))
    chk.notes.append(f'phase CLI subprocesses: {time.time() - t0:.1f}s')
    cli_requests, cli_expect = [], []
    for job, (rc, out, err) in zip(jobs, outs):
        amr, files, stdin, shape = job[:4]
        name, tbl, m, wm = model_of(1 if amr else 0)
        codec = PENMANCodec(model=m)
        case = {'kind': 'cli', 'amr': amr, 'files': files, 'stdin': stdin}
        if len(job) > 4:
            case['options'] = list(job[4])
            chk.stat('cli-with-layout-options')
        chk.count(('cli', amr, repr(files), stdin, repr(case.get('options'))))
        chk.stat('cli-runs')
        chk.stat(f'cli-{"stdin" if files is None else str(len(files)) + "-files"}')
        if rc is None:
            chk.fail('hang', 'penman --check did not finish in 60 s', case)
            continue
        # expected offending contexts per graph, by the oracle
        in_graphs = [[g for g in codec.iterdecode(text)] for text in (files if files is not None else [stdin])]
        flat = [g for f in in_graphs for g in f]
        exp_reports = [expected_report(tbl, list(g.triples), g._top) for g in flat]
        any_error = any(bool(e) for e in exp_reports)
        chk.stat('cli-expected-nonzero' if any_error else 'cli-expected-zero')
        if 'Traceback' in err:
            chk.fail('exit-status', f'penman --check crashed: {err.strip().splitlines()[-1]}', case)
            continue
        if (rc != 0) != any_error:
            chk.fail('exit-status', f'penman --check exited {rc} but ' +
                     ('some graph has an error' if any_error else 'no graph has an error'), case)
        try:
            out_graphs = list(codec.iterdecode(out))
        except Exception as e:
            chk.fail('error-metadata', f'output of --check cannot be decoded: {e!r}', case)
            continue
        if len(out_graphs) != len(flat):
            chk.fail('error-metadata', f'{len(flat)} graphs in, {len(out_graphs)} graphs out', case)
            continue
        for gi, (gin, gout, exp) in enumerate(zip(flat, out_graphs, exp_reports)):
            recorded = {k: v for k, v in gout.metadata.items() if k.startswith('error-')}
            if sorted(recorded) != sorted(f'error-{i + 1}' for i in range(len(exp))):
                chk.fail('error-metadata', f'graph {gi}: {len(exp)} offending contexts but metadata keys {sorted(recorded)}', case)
                continue
            for ctxt, msgs in exp.items():
                prefix = '' if ctxt is None else '({}) '.format(' '.join(map(str, ctxt)))
                if not any(v.startswith(prefix) and v[len(prefix):] in msgs for v in recorded.values()):
                    chk.fail('error-metadata', f'graph {gi}: offending context {ctxt!r} is not recorded in {recorded!r}', case)
            # correspondence: model _check on the same input graph
            cli_requests.append([2, wm, common.e_graph(gin)])
            cli_expect.append((case, 'check', [bool(exp), dict(gout.metadata)]))
        wire_files = [[common.e_graph(g) for g in f] for f in in_graphs]
        cli_requests.append([3, wm, wire_files] if files is not None else [4, wm, wire_files[0]])
        cli_expect.append((case, 'exit', rc != 0))
    res = common.run_driver('errvars', cli_requests)
    chk.corr_cases += len(cli_requests)
    for (case, kind, exp), r in zip(cli_expect, res):
        got = bool(r) if kind == 'exit' else [bool(r[0]), common.d_meta(r[1])]
        if kind == 'check':
            # the tool's status per graph is not observable; compare metadata, and status via the oracle's view
            if got[1] != exp[1] or got[0] != exp[0]:
                chk.mismatch('_check metadata/status differ', case, exp, got)
        elif got != exp:
            chk.mismatch('exit status differs', case, exp, got)


def replay(obj):
    common.use_repo()
    import penman
    case = obj.get('case') or {}
    print('replay case:', case)
    if case.get('kind') == 'cli':
        rc, out, err = run_cli((case['amr'], case['files'], case['stdin'], case.get('options') or []))
        print('exit status:', rc)
        print(out)
        print(err[-2000:])
        return 0
    tbls = {n: (t, l) for n, t, l in tables()}
    tbl, live = tbls[case['model']]
    m = models.impl_model(tbl, live_amr=live)
    if case.get('kind') == 'decoded':
        g = penman.decode(case['text'], model=m)
    else:
        from penman.graph import Graph
        g = Graph([tuple(t) for t in case['triples']], top=case['top'])
    print('triples:', g.triples, 'top:', g.top)
    print('errors:', m.errors(g))
    print('oracle expects:', expected_report(tbl, list(g.triples), g._top))
    return 0
