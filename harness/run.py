"""Entry point: python -m harness.run Cxx [--tier T] [--replay FILE]"""
import argparse
import importlib
import json
import os
import sys
import traceback

from harness import common


def main():
    ap = argparse.ArgumentParser()
    ap.add_argument('prop')
    ap.add_argument('--tier', default=None)
    ap.add_argument('--replay', default=None)
    args = ap.parse_args()
    if args.tier:
        os.environ['VERIF_TIER'] = args.tier
    prop = args.prop.upper()
    mod = importlib.import_module(f'harness.{prop.lower()}')
    common.use_repo()
    if args.replay:
        obj = json.load(open(args.replay))
        return mod.replay(obj)
    chk = common.Check(prop)
    try:
        mod.run(chk)
    except common.BuildError as e:
        chk.broken.append({'obligation': 'build', 'detail': str(e)[-3000:]})
    except Exception:
        # a crash of the machinery is not a verdict about penman: report loudly, fail closed
        traceback.print_exc()
        chk.broken.append({'obligation': 'harness', 'detail': traceback.format_exc()[-3000:]})
    return chk.finish()


if __name__ == '__main__':
    sys.exit(main())
