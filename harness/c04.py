"""C04 — decoding yields exactly the documented reading of the notation.

proof:          coq/Properties/C04.v: Impl.interpret = Spec.Reading.reading for ALL trees, all models
correspondence: Impl.Interpret.interpret (extracted) vs penman.layout.interpret: the whole graph
                (triples, _top, epidata with marker order, metadata) and the exception class
oracle:         penman.layout.interpret / PENMANCodec.decode compared against the EXTRACTED SPEC
                [reading] (not the model of interpret): top, ordered triples, variables(),
                surface.alignments, surface.role_alignments, Push/POP markers
"""
import itertools

from harness import common, models, gen
from harness.common import (e_tree, d_atom, d_str, d_opt, d_triple, atom_key, canon_triple,
                            canon_epi, timed, Timeout)

THEOREMS = [
    'C04_interpret_is_reading', 'C04_interpret_is_reading_graph', 'C04_triple_count',
    'C04_noop_never_deinverts', 'C04_orientation', 'C04_tilde_in_string_is_content',
    'C04_tilde_in_string_impl', 'C04_layout_markers', 'C04_closes_land_on_last', 'C04_nonvacuous',
]


def patient(fn, *args, seconds=5):
    """timed(), but a first expiry is retried once with a long budget: on a loaded machine a
    millisecond call can be descheduled for seconds; only a second expiry counts as a hang"""
    try:
        return timed(fn, *args, seconds=seconds)
    except Timeout:
        return timed(fn, *args, seconds=120)

# ---------------------------------------------------------------------------------------
# wire decoding of the spec's reading


def d_marker(v):
    return (tuple(v[0]), d_opt(d_str, v[1]))


def d_item(v):
    return {'triple': d_triple(v[0]), 'ralign': d_opt(d_marker, v[1]), 'talign': d_opt(d_marker, v[2]),
            'ctx': atom_key(d_atom(v[3])), 'opened': d_opt(lambda a: ('some', atom_key(d_atom(a))), v[4]),
            'winv': bool(v[5]), 'closes': v[6]}


def d_reading(v):
    """outcome reading_result -> ('ok', dict) | ('SurfaceError',) | ('TypeError',) | ('?', raw)"""
    if v[0] == 0:
        r = v[1]
        return ('ok', {'top': atom_key(d_atom(r[0])), 'triples': [d_triple(t) for t in r[1]],
                       'aligns': [(d_triple(t), d_marker(k)) for t, k in r[2]],
                       'raligns': [(d_triple(t), d_marker(k)) for t, k in r[3]],
                       'vars': [atom_key(d_atom(a)) for a in r[4]],
                       'items': [d_item(i) for i in r[5]]})
    if v[0] == 5:
        return ('SurfaceError',)
    if v[0] == 7 and v[1] == 6:
        return ('TypeError',)
    return ('?', v)


def expected_markers(items):
    """first occurrence of each triple -> its layout markers, in epigraph order"""
    out, seen = [], set()
    for it in items:
        if it['triple'] in seen:
            continue
        seen.add(it['triple'])
        ms = ([('Push', it['opened'][1])] if it['opened'] else []) + [('POP',)] * it['closes']
        out.append((it['triple'], ms))
    return out


# ---------------------------------------------------------------------------------------
# implementation side


def impl_interpret(node, meta, m):
    from penman.tree import Tree
    from penman import layout, surface
    from penman.exceptions import SurfaceError
    try:
        g = layout.interpret(Tree(node, metadata=meta), m)
    except SurfaceError:
        return ('SurfaceError',)
    except TypeError:
        return ('TypeError',)
    except Exception as e:                                   # anything else is reported as such
        return ('raises:' + type(e).__name__,)
    return ('ok', observe(g), common.canon_graph(g))


def observe(g):
    from penman import layout, surface
    alns = [(canon_triple(t), (tuple(a.indices), a.prefix)) for t, a in surface.alignments(g).items()]
    ralns = [(canon_triple(t), (tuple(a.indices), a.prefix)) for t, a in surface.role_alignments(g).items()]
    markers = [(canon_triple(t), [canon_epi(e) for e in es if isinstance(e, layout.LayoutMarker)])
               for t, es in g.epidata.items()]
    return {'top': atom_key(g.top), '_top': atom_key(g._top),
            'triples': [canon_triple(t) for t in g.triples],
            'vars': sorted(map(repr, {atom_key(v) for v in g.variables()})),
            'aligns': alns, 'raligns': ralns, 'markers': markers}


# ---------------------------------------------------------------------------------------
# generators

H_ROLES = [':ARG0', ':ARG1', ':ARG0-of', ':ARG0-of-of', ':ARG1-of', 'ARG0', 'ARG1-of', '/', ':instance',
           ':instance-of', ':mod', ':domain-of', ':', '', ':consist-of', ':consist', ':op1', ':polarity', ':-of']
H_ATOMS = ['a', 'b', 'c', 'x', '"s"', '"a~b"', '"a~b"~1', '"a"~e.2', 'x~1', 'b~2', 'a~e.3,4', None, '-',
           '"~"', '"(~1)"', '"x"~E.9', '1', '0.5', '"a~b"~', 'x~', '"q"x~1', '~1', 'x~e.']
R_ALNS = ['~1', '~e.2,3', '~E.7', '~', '~x']


def hand_node(rng, depth=0, numbers=False):
    """hand-built (tuple) tree node with every ill-formed shape the parser also lets through, and some it
    does not (colon-less roles, ':instance' spelled out, concept twice / not first, None variables)."""
    var = rng.choice(['a', 'b', 'c', 'd', 'a', 'b']) if rng.random() < .93 else None
    bs = []
    r = rng.random()
    if r < .45:
        bs.append(('/', rng.choice(['x', 'y~1', '"s~t"', '"s"~2', None, 'a'])))
    for _ in range(rng.choice([0, 1, 1, 2, 2, 3, 4])):
        role = rng.choice(H_ROLES)
        if rng.random() < .12:
            role += rng.choice(R_ALNS[:3]) if rng.random() < .85 else rng.choice(R_ALNS)
        if depth < 3 and rng.random() < .35:
            bs.append((role, hand_node(rng, depth + 1, numbers)))
        else:
            pool = H_ATOMS[:17] if rng.random() < .93 else H_ATOMS
            tgt = rng.choice(pool)
            if numbers and rng.random() < .2:
                tgt = rng.choice([0, 7, -1.5])
            bs.append((role, tgt))
    if r > .9:
        bs.append(('/', rng.choice(['z', 'x~3'])))          # concept written late / twice
    return (var, bs)


EX_ROLES = ['/', ':R', ':R-of', ':R-of-of', 'R', ':instance', ':R~1', ':R-of~e.2']
EX_TARGETS = ['a', 'b', 'x', 'x~1', 'b~2', '"s~t"', '"s"~3', None, ('b', []), ('b', [('/', 'y')]),
              ('b', [(':R-of', 'a')]), ('a', [(':R', 'b~1')])]


def exhaustive_nodes():
    """every root 'a' with <= 2 branches over EX_ROLES x EX_TARGETS (nested nodes one level)"""
    branches = [(r, t) for r in EX_ROLES for t in EX_TARGETS]
    yield ('a', [])
    for b in branches:
        yield ('a', [b])
    for b1, b2 in itertools.product(branches, repeat=2):
        yield ('a', [b1, b2])


def has_mixed_zero(node):
    """0 and 0.0 are one dict key in Python but two texts in the model: keep them apart"""
    seen = set()

    def walk(n):
        for _, t in n[1]:
            if isinstance(t, tuple):
                walk(t)
            elif isinstance(t, (int, float)) and not isinstance(t, bool):
                seen.add(repr(t))
    walk(node)
    return len(seen) > 1


def to_node(x):
    """JSON (lists) -> tuple tree node"""
    var, bs = x
    return (var, [(r, to_node(t) if isinstance(t, (list, tuple)) else t) for r, t in bs])


# ---------------------------------------------------------------------------------------


def model_pool(chk):
    pool = [('default', models.DEFAULT, False), ('amr', models.amr_table(), True),
            ('noop', models.NOOP, False), ('mini', models.MINI_AMR, False)]
    n = 3 if chk.tier == 'quick' else 12
    i = 0
    while len(pool) < 4 + n and i < 200:
        i += 1
        tbl = models.random_table(chk.rng)
        try:
            models.impl_model(tbl)
            models.wire_model(tbl)
        except ValueError:
            continue
        pool.append((f'random{i}', tbl, False))
    return [(name, tbl, live, models.impl_model(tbl, live_amr=live), models.wire_model(tbl))
            for name, tbl, live in pool]


def run(chk):
    chk.rule = ('trees = parse(gen.random_penman_text) (parseable ones; ill-formed kept: duplicate definitions, '
                'duplicate triples, over-inverted roles, inverted roles on constants, alignments everywhere, ~ in '
                'strings) + hand-built tuple trees (colon-less roles, ":instance" spelled out, concept twice / late, '
                'None variables, bad alignment suffixes) + ALL roots with <=2 branches over 8 roles x 12 targets; '
                'x models {default, live AMR, no-op, mini-AMR, random tables}; a case is distinct per (model, tree) '
                'and non-trivial when the tree has at least one branch')
    chk.require_theorems('Properties.C04', THEOREMS)
    common.use_repo()
    import penman
    from penman.codec import PENMANCodec
    from penman.exceptions import DecodeError, SurfaceError
    pool = model_pool(chk)
    quick = chk.tier == 'quick'
    n_text = 12000 if quick else 90000
    n_hand = 12000 if quick else 90000
    rng = chk.rng

    cases = []        # (case dict, node, meta, model index, text or None)
    # -- parsed texts
    codec = PENMANCodec()
    for _ in range(n_text):
        text = gen.random_penman_text(rng, p_bad=0.03)
        try:
            t = patient(codec.parse, text)
        except DecodeError:
            chk.stat('text-unparseable')
            continue
        except Timeout:
            chk.stat('text-parse-timeout')
            continue
        mi = rng.randrange(len(pool))
        chk.stat('tree-from-text')
        cases.append(({'model': pool[mi][0], 'text': text}, t.node, dict(t.metadata), mi, text))
    # -- hand-built trees
    for i in range(n_hand):
        node = hand_node(rng, numbers=(i % 25 == 0))
        if has_mixed_zero(node):
            continue
        mi = rng.randrange(len(pool))
        chk.stat('tree-hand-built')
        cases.append(({'model': pool[mi][0], 'tree': node}, node, {}, mi, None))
    # -- bounded exhaustive (default + noop always, others by rotation)
    for j, node in enumerate(exhaustive_nodes()):
        for mi in ([0, 2] if quick else [0, 1, 2, 3]) + [4 + j % (len(pool) - 4)]:
            chk.stat('tree-exhaustive')
            cases.append(({'model': pool[mi][0], 'tree': node}, node, {}, mi, None))

    from penman.tree import Tree
    requests = []
    for case, node, meta, mi, text in cases:
        case['table'] = pool[mi][1] if not pool[mi][2] else 'penman.models.amr'
        wt = e_tree(Tree(node, metadata=meta))
        requests.append([1, pool[mi][4], wt])
        requests.append([2, pool[mi][4], wt])
    results = common.run_driver('interp', requests)
    chk.corr_cases = len(cases)

    codecs = {}
    for idx, (case, node, meta, mi, text) in enumerate(cases):
        name, tbl, live, m, _ = pool[mi]
        spec = d_reading(results[2 * idx])
        mod = results[2 * idx + 1]
        chk.count((name, repr(node)), nontrivial=bool(node[1]))
        try:
            impl = patient(impl_interpret, node, meta, m)
        except Timeout:
            chk.fail('error-kind', 'interpret does not terminate', case)
            continue
        chk.stat('outcome-' + impl[0])
        # ---------------- correspondence: Impl.interpret vs the implementation (whole graph) -------
        if mod[0] == 0:
            modv = ('ok', common.d_graph(mod[1]))
        elif mod[0] == 5:
            modv = ('SurfaceError',)
        elif mod[0] == 7 and mod[1] == 6:
            modv = ('TypeError',)
        else:
            modv = ('?', mod)
        implv = ('ok', impl[2]) if impl[0] == 'ok' else impl
        if implv != modv:
            chk.mismatch('Impl.interpret differs from layout.interpret', case, implv, modv)
        # ---------------- oracle: the implementation against the SPEC reading ---------------------
        if spec[0] != 'ok' or impl[0] != 'ok':
            if spec[0] != impl[0]:
                chk.fail('error-kind', f'interpret ends with {impl[0]} where the documented reading gives {spec[0]}', case)
            continue
        r, o = spec[1], impl[1]
        if len(chk.samples) < 6 and len(r['items']) >= 5 and (r['aligns'] or r['raligns']) and any(i['winv'] for i in r['items']):
            chk.sample(dict(case, reading_triples=r['triples']))
        if o['triples'] != r['triples']:
            chk.fail('triples', f"triples differ from the documented reading: got {o['triples']}, reading {r['triples']}", case)
        if (o['top'] != r['top']) if r['top'] is not None else (o['_top'] is not None):
            chk.fail('top', f"top {o['top']!r} is not the root variable {r['top']!r}", case)
        if o['vars'] != sorted(map(repr, set(r['vars']))):
            chk.fail('triples', f"variables() {o['vars']} are not the node variables {sorted(map(repr, set(r['vars'])))}", case)
        if o['aligns'] != r['aligns']:
            chk.fail('alignments', f"surface.alignments {o['aligns']} differ from the reading's {r['aligns']}", case)
        if o['raligns'] != r['raligns']:
            chk.fail('alignments', f"surface.role_alignments {o['raligns']} differ from the reading's {r['raligns']}", case)
        exp = expected_markers(r['items'])
        if o['markers'] != exp:
            chk.fail('markers', f"Push/POP markers {o['markers']} differ from the reading's {exp}", case)
        # ---------------- decode(text) is interpret(parse(text)) ---------------------------------
        if text is not None:
            if mi not in codecs:
                codecs[mi] = PENMANCodec(model=m)
            try:
                g2 = patient(codecs[mi].decode, text)
                o2 = observe(g2)
            except Exception as e:
                o2 = type(e).__name__
            if o2 != o:
                chk.fail('triples', 'decode(text) differs from interpret(parse(text))', case)
            # every decoding entry point must give the same reading under the SAME model
            import penman as _p
            for how, f in (('penman.decode', lambda: _p.decode(text, model=m)),
                           ('penman.loads', lambda: _p.loads(text, model=m)[0]),
                           ('penman.iterdecode', lambda: next(iter(_p.iterdecode(text, model=m)))),
                           ('codec.iterdecode(lines)', lambda: next(iter(codecs[mi].iterdecode(text.split('\n')))))):
                try:
                    o3 = observe(patient(f))
                except _p.DecodeError:
                    if how == 'penman.loads':
                        continue         # trailing garbage after the first graph: loads must fail, decode must not
                    o3 = 'DecodeError'
                except Exception as e:       # noqa
                    o3 = type(e).__name__
                if o3 != o:
                    chk.fail('triples', f'{how}(text, model) differs from interpret(parse(text), model)', dict(case, entry=how))
            chk.count()


def replay(obj):
    common.use_repo()
    from penman.codec import PENMANCodec
    from penman.tree import Tree
    case = obj.get('case') or {}
    print('replay case:', case)
    tbl = case.get('table')
    live = tbl == 'penman.models.amr'
    tbl = models.amr_table() if live else tbl
    m = models.impl_model(tbl, live_amr=live)
    if 'text' in case:
        t = PENMANCodec().parse(case['text'])
        node, meta = t.node, dict(t.metadata)
    else:
        node, meta = to_node(case['tree']), {}
    print('tree:', node)
    impl = impl_interpret(node, meta, m)
    print('layout.interpret:', impl[0])
    if impl[0] == 'ok':
        for k, v in impl[1].items():
            print('  ', k, '=', v)
    spec = d_reading(common.run_driver('interp', [[1, models.wire_model(tbl), e_tree(Tree(node, metadata=meta))]])[0])
    print('documented reading (extracted Spec.Reading.reading):', spec[0])
    if spec[0] == 'ok':
        r = spec[1]
        print('   top =', r['top'])
        print('   triples =', r['triples'])
        print('   aligns =', r['aligns'], ' raligns =', r['raligns'])
        print('   markers =', expected_markers(r['items']))
    return 0
