"""C01 — text <-> tree is lossless under every formatting option.

proof:          coq/Properties/C01.v  (format lexes to tokens_of, parse of tokens_of, round trip with
                metadata, option-independence up to blanks, parser range inside wf_tree, fixed point)
correspondence: Impl.Format.format / Impl.Parse.parse / Impl.Lexer.lex_str (extracted, group `codec`)
                vs penman.format / penman.parse / penman._lexer.lex on the same (tree, indent, compact)
                and on the same strings: text, tree + metadata in order, error position, tokens
oracle:         on the implementation alone: parse(format(t,i,c)) == t with metadata for every tree in
                the domain (the model's wf_tree is only the DOMAIN GUARD for constructed trees) and every
                option; one token stream for all options (= tokens_of t), only ' ' and LF between tokens;
                parse/format/parse/format fixed point for every accepted input string
"""
import hashlib
import itertools
import json

from harness import common, gen
from harness.common import e_str, d_str, timed, Timeout

THEOREMS = ['C01_format_lexes', 'C01_parse_tokens', 'C01_roundtrip', 'C01_options_whitespace',
            'C01_parse_wf', 'C01_fixpoint']

INDENTS = [None, -1, 0, 1, 2, 3, 7]
OPTIONS = [(i, c) for i in INDENTS for c in (False, True)]
TOKTYPES = ['COMMENT', 'STRING', 'LPAREN', 'RPAREN', 'SLASH', 'ROLE', 'SYMBOL', 'ALIGNMENT', 'UNEXPECTED']
CODE = {n: i for i, n in enumerate(TOKTYPES)}


# --------------------------------------------------------------------------
# generators (all randomness from the rng handed in)

SYMC = list('abxy01-+_.,^#é\xa0\u2028*')
STRC = ['a', ' ', '(', ')', '/', ':', '~', '#', '\\"', '\\\\', '\\n', '\t', '\xa0', '\u2028', '1', ',', '\x0b', '\x0c']
ROLE_NAMES = ['ARG0', 'ARG1-of', 'op1', 'mod', '', 'x#y', 'é', ',', '^', '-']
MK = ['id', 'snt', 'k', '', 'a:b', 'k\t', 'x#', 'é', 'k:', 'a.b', '(', '"']
MV = ['', '1', 'foo bar', ' lead', 'a ; (b) "c" #d', 'v\xa0w', 'v\u2028w', 'v\x85w', 'a\x0bb\x0cc', ':x', 'x:',
      'a: :b', 'tab\tx', '~', '# ::', '\x1cfs\x1d\x1e', '(a / b)']


def g_sym(rng):
    s = ''.join(rng.choice(SYMC) for _ in range(rng.choice([1, 1, 2, 3, 5])))
    return 'h' + s if s[0] == '#' else s


def g_string(rng):
    return '"' + ''.join(rng.choice(STRC) for _ in range(rng.choice([0, 1, 2, 4]))) + '"'


def g_align(rng):
    return ('~' + rng.choice(['', 'e', 'e.', 'E', 'Z.', 'E.'])
            + ','.join(str(rng.choice([0, 1, 2, 23, 456])) for _ in range(rng.choice([1, 1, 2, 3]))))


def g_atom(rng):
    a = g_sym(rng) if rng.random() < .6 else g_string(rng)
    return a + g_align(rng) if rng.random() < .3 else a


def g_role(rng):
    r = ':' + rng.choice(ROLE_NAMES)
    return r + g_align(rng) if rng.random() < .25 else r


def g_node(rng, depth=0, maxdepth=4):
    """A constructed tree node with every robustness shape of the grammar."""
    if rng.random() < .05:
        return (None, [])
    var = g_sym(rng)
    bs = []
    r = rng.random()
    if r < .6:
        bs.append(('/', g_atom(rng)))
    elif r < .75:
        bs.append(('/', None))
    for _ in range(rng.choice([0, 1, 1, 2, 3, 4]) if depth < maxdepth else rng.choice([0, 1])):
        q = rng.random()
        if q < .35 and depth < maxdepth:
            tgt = g_node(rng, depth + 1, maxdepth)
        elif q < .5:
            tgt = var if rng.random() < .5 else g_sym(rng)
        elif q < .9:
            tgt = g_atom(rng)
        else:
            tgt = None
        bs.append((g_role(rng), tgt))
    return (var, bs)


def g_meta(rng):
    md = {}
    for _ in range(rng.choice([0, 0, 1, 2, 3])):
        v = rng.choice(MV)
        if '::' in v:
            v = 'q'
        md[rng.choice(MK)] = v
    return list(md.items())


BADC = list('()/:~" \t\n\r#a1,.e\x0b')


def mutstr(rng, s):
    if s is None:
        return rng.choice(['', 'x'])
    i = rng.randint(0, len(s))
    return s[:i] + rng.choice(BADC) + s[i + rng.choice([0, 1]):]


def mutate_node(rng, n):
    """One grammar-breaking edit somewhere in the node (most results are NOT wf)."""
    var, bs = n
    k = rng.randint(0, 3)
    if k == 0:
        var = mutstr(rng, var)
    bs = list(bs)
    if bs:
        i = rng.randrange(len(bs))
        r, t = bs[i]
        if isinstance(t, tuple) and rng.random() < .7:
            t = mutate_node(rng, t)
        elif k == 1:
            r = mutstr(rng, r)
        elif k == 2 and not isinstance(t, tuple):
            t = mutstr(rng, t)
        elif k == 3:
            if rng.random() < .5:
                bs.append(('/', 'z'))
            else:
                r = r.lstrip(':')
        bs[i] = (r, t)
    return (var, bs)


def g_nonwf(rng):
    n = g_node(rng, maxdepth=2)
    md = dict(g_meta(rng))
    if rng.random() < .7:
        n = mutate_node(rng, n)
    else:
        md[mutstr(rng, rng.choice(MK))] = mutstr(rng, rng.choice(MV))
    return n, list(md.items())


# bounded-exhaustive family: <= 3 nodes, <= 3 edges, 2 roles, few atoms
S_CONCEPTS = ['<none>', None, 'x', '"s"~1']
S_ROLES = [':r', ':']
S_ATOMS = [None, 'a', '"(/)"~e.2']          # 'a' is the root variable: a re-entrancy ends the compact line
S_VARS = ['a', 'b', 'c']
S_METAS = [[], [('k', '')], [('id', '1'), ('snt', 'a b')]]


def _small(nvars, nodes_left, edges_left):
    """All nodes using variables S_VARS[nvars:], at most nodes_left nodes and edges_left edges.
    Yields (node, nodes_used, edges_used)."""
    if nodes_left <= 0:
        return
    yield (None, []), 1, 0
    var = S_VARS[nvars]
    for c in S_CONCEPTS:
        head = [] if c == '<none>' else [('/', c)]
        for edges, nu, eu in _small_edges(nvars + 1, nodes_left - 1, edges_left):
            yield (var, head + edges), 1 + nu, eu


def _small_edges(nvars, nodes_left, edges_left):
    yield [], 0, 0
    if edges_left <= 0:
        return
    for role in S_ROLES:
        targets = [(a, 0, 0) for a in S_ATOMS] + list(_small(nvars, nodes_left, edges_left - 1))
        for tgt, nu, eu in targets:
            for rest, nu2, eu2 in _small_edges(nvars + nu, nodes_left - nu, edges_left - 1 - eu):
                yield [(role, tgt)] + rest, nu + nu2, 1 + eu + eu2


def small_trees():
    for i, (node, _, _) in enumerate(_small(0, 3, 3)):
        yield node, S_METAS[i % len(S_METAS)]


def comment_strings(rng, nsample):
    """Short strings around comments / metadata: exhaustive to length 3, sampled at 4 and 5."""
    A = ['#', ':', ' ', 'k', '\t', '\r', '\n', '(', ')', 'a', '/', '~', '1', '"', '\xa0']
    tups = [t for n in range(1, 4) for t in itertools.product(A, repeat=n)]
    tups += [tuple(rng.choice(A) for _ in range(rng.choice([4, 5]))) for _ in range(nsample)]
    for tup in tups:
        s = ''.join(tup)
        yield '#' + s + '\n(a)'
        yield s
        yield '(a ' + s + ')'
        yield '# ::' + s + '\n# ::' + s[::-1] + '\n(a)'


TRAIL = ['# ::k v  \n(a / b)', '# ::k v\t \n# ::j  \n(a)', '# ::k \n(a)', '# ::id 1 ::snt x y  \n(a :r b)',
         '(a / b) # ::k v  ', '# ::k v \xa0\n(a)', '# x ::k  v  w  \n(a)', '#::k v \r\n(a)', '# ::k v \r(a)']


# --------------------------------------------------------------------------
# implementation side (module-level workers for common.pmap)

def _node_of(x):
    """JSON form (lists) -> penman node (tuples)."""
    var, bs = x
    return (var, [(r, _node_of(t) if isinstance(t, (list, tuple)) else t) for r, t in bs])


def patient(fn, *args):
    """fn(*args) under a generous alarm; a Timeout is retried once with a much longer limit, so that a loaded
    machine is not mistaken for a hang (the second Timeout propagates and is reported under the key `hang`)."""
    try:
        return timed(fn, *args, seconds=20)
    except Timeout:
        return timed(fn, *args, seconds=90)


def _canon_parse(fn, s):
    """('ok', node, metadata items) | ('DecodeError', lineno, offset) | ('hang',) | ('exc', name)"""
    from penman.exceptions import DecodeError
    try:
        t = patient(fn, s)
    except DecodeError as e:
        return ('DecodeError', e.lineno, e.offset)
    except Timeout:
        return ('hang',)
    except Exception as e:                      # noqa: any other exception is itself an observation
        return ('exc', type(e).__name__)
    return ('ok', t.node, list(t.metadata.items()))


def _canon_iterparse(s):
    """The trees penman.iterparse yields for the text s, and how the generator ended."""
    import penman
    out = []

    def go():
        del out[:]
        for t in penman.iterparse(s):
            out.append(('ok', t.node, list(t.metadata.items())))
    try:
        patient(go)
        return out, None
    except Timeout:
        return out, ('hang',)
    except Exception as e:                      # noqa
        return out, (type(e).__name__,)


def _residue(text, toks):
    """What is left of text outside the token spans: '' when only ' ' and LF, else a description."""
    lines = text.split('\n')
    pos = {}
    for tk in toks:
        ln = tk.lineno
        if not (1 <= ln <= len(lines)):
            return f'token on line {ln} of a text with {len(lines)} LF-separated lines'
        line = lines[ln - 1]
        p = pos.get(ln, 0)
        if tk.offset < p or line[tk.offset:tk.offset + len(tk.text)] != tk.text:
            return f'token {tk.type} {tk.text!r} does not sit at line {ln} column {tk.offset}'
        gap = line[p:tk.offset]
        if gap.strip(' '):
            return f'{gap!r} between tokens on line {ln}'
        pos[ln] = tk.offset + len(tk.text)
    for ln, line in enumerate(lines, 1):
        gap = line[pos.get(ln, 0):]
        if gap.strip(' '):
            return f'{gap!r} after the last token of line {ln}'
    return ''


def _impl_tree(item):
    """(node, metadata items) -> per option: text, canonical reparse, [(type code, text)] tokens, residue."""
    common.use_repo()
    import penman
    from penman._lexer import lex
    from penman.tree import Tree
    node, meta = item
    out = []
    for ind, cmp in OPTIONS:
        t = Tree(node, dict(meta))
        try:
            s = patient(penman.format, t, ind, cmp)
        except Timeout:
            out.append(('hang', 'format'))
            continue
        except Exception as e:                  # noqa
            out.append(('exc', type(e).__name__))
            continue
        rt = _canon_parse(penman.parse, s)
        try:
            toks = patient(lambda: list(lex(s)))
            res = _residue(s, toks)
            full = [(CODE[k.type], k.text, k.lineno, k.offset) for k in toks]
        except Timeout:
            full, res = 'hang', ''
        except Exception as e:                  # noqa
            full, res = None, 'lexer raised ' + type(e).__name__
        # the same text through the multi-graph entry point (every option when there is metadata)
        itp = _canon_iterparse(s) if (meta or (ind, cmp) == (-1, False)) else None
        out.append(('ok', s, rt, full, res, itp))
    return out


def _impl_string(s):
    """parse(s); for an accepted s the fixed-point clause under every option -> (canon, problems)."""
    common.use_repo()
    import penman
    r = _canon_parse(penman.parse, s)
    if r[0] != 'ok':
        return r, []
    from penman.tree import Tree
    probs = []
    for ind, cmp in OPTIONS:
        t = Tree(r[1], dict(r[2]))
        try:
            s1 = patient(penman.format, t, ind, cmp)
        except Timeout:
            probs.append((ind, cmp, 'HANG: format does not return'))
            continue
        except Exception as e:                  # noqa
            probs.append((ind, cmp, f'format raised {type(e).__name__}'))
            continue
        r1 = _canon_parse(penman.parse, s1)
        if r1[0] == 'hang':
            probs.append((ind, cmp, f'HANG: parse({s1!r}) does not return'))
            continue
        if r1[0] != 'ok':
            probs.append((ind, cmp, f'formatted text {s1!r} is rejected: {r1}'))
            continue
        if r1[1] != r[1]:
            probs.append((ind, cmp, f'reparse of {s1!r} gives node {r1[1]!r}, not {r[1]!r}'))
        if r1[2] != r[2]:
            probs.append((ind, cmp, f'reparse of {s1!r} gives metadata {r1[2]!r}, not {r[2]!r}'))
        s2 = penman.format(Tree(r1[1], dict(r1[2])), ind, cmp)
        if s2 != s1:
            probs.append((ind, cmp, f'format(parse({s1!r})) = {s2!r} is not a fixed point'))
    return r, probs


# --------------------------------------------------------------------------
# bookkeeping helpers

def depth_of(node):
    return 1 + max([depth_of(t) for _, t in node[1] if isinstance(t, tuple)] or [0])


def nbranches(node):
    return len(node[1]) + sum(nbranches(t) for _, t in node[1] if isinstance(t, tuple))


def shapes(node, meta):
    tags = set()

    def walk(n):
        var, bs = n
        if var is None:
            tags.add('empty-node')
        if not bs and var is not None:
            tags.add('var-only-node')
        for r, t in bs:
            if r == '/':
                if t is None:
                    tags.add('missing-concept')
                elif '~' in t and not t.startswith('"'):
                    tags.add('concept-alignment')
            else:
                if r.partition('~')[0] == ':':
                    tags.add('anonymous-role')
                if '~' in r:
                    tags.add('role-alignment')
                if t is None:
                    tags.add('missing-target')
            if isinstance(t, tuple):
                tags.add('nested')
                walk(t)
            elif isinstance(t, str):
                if t.startswith('"'):
                    tags.add('string')
                    if any(c in t[1:t.rfind('"')] for c in '()/:~#'):
                        tags.add('string-with-delimiters')
                    if '\\' in t:
                        tags.add('string-with-escape')
                    if t[t.rfind('"') + 1:]:
                        tags.add('string-alignment')
                elif '~' in t and r != '/':
                    tags.add('target-alignment')
                if any(ord(c) > 127 for c in t):
                    tags.add('non-ascii-atom')
    walk(node)
    if len(meta) > 1:
        tags.add('meta-multi-key')
    for k, v in meta:
        tags.add('meta')
        if v == '':
            tags.add('meta-empty-value')
        if k == '':
            tags.add('meta-empty-key')
        if k.endswith(':'):
            tags.add('meta-key-colon')
        if any(c in v for c in '\u2028\x85\x0b\x0c\xa0\x1c'):
            tags.add('meta-value-unicode-break')
    return tags


def digest(node, meta):
    return hashlib.md5(repr((node, meta)).encode('utf-8', 'surrogatepass')).hexdigest()[:16]


def model_parse_canon(v):
    if v[0] == 0:
        n, md = common.d_tree(v[1])
        return ('ok', n, list(md.items()))
    if v[0] == 1:
        return ('DecodeError', v[1], v[2])
    return ('model-outcome', v[0]) + tuple(v[1:])


def d_tk(v):
    return (v[0], d_str(v[1]))


def e_ind(i):
    return [] if i is None else [i]


def case_of(node, meta, ind=None, cmp=None, kind=None):
    c = {'node': node, 'metadata': [list(kv) for kv in meta]}
    if kind:
        c['kind'] = kind
    if cmp is not None:
        c['indent'], c['compact'] = ind, cmp
    return c


# --------------------------------------------------------------------------

def process_trees(chk, trees, lex_sample_every=7):
    """trees: [(kind, node, meta items)]; kind in parsed|constructed|gen|small|nonwf.
    The oracle applies to parsed trees unconditionally, to constructed ones under the model's wf_tree."""
    reqs = []
    for kind, node, meta in trees:
        wt = [common.e_node(node), [[e_str(k), e_str(v)] for k, v in meta]]
        for ind, cmp in OPTIONS:
            reqs.append([6, e_ind(ind), 1 if cmp else 0, wt])
    model = common.run_driver('codec', reqs)
    impl = common.pmap(_impl_tree, [(node, meta) for _, node, meta in trees], chunk=50)
    chk.corr_cases += len(reqs)
    lexreqs, lexexp = [], []
    nopt = len(OPTIONS)
    for ti, (kind, node, meta) in enumerate(trees):
        mres = model[ti * nopt:(ti + 1) * nopt]
        ires = impl[ti]
        wf = bool(mres[0][0])
        in_domain = wf or kind == 'parsed'
        mtoks = [d_tk(x) for x in mres[0][1]]
        h = digest(node, meta)
        chk.stat('trees-' + kind)
        if kind == 'nonwf':
            chk.stat('nonwf-stream-wf' if wf else 'nonwf-stream-not-wf')
        elif not wf:
            chk.stat('not-wf')
            if kind == 'parsed':
                chk.mismatch('parser-produced tree is outside the model\'s wf_tree (domain of C01_roundtrip)',
                             case_of(node, meta, kind=kind), 'produced by penman.parse', 'wf_tree = false')
        if in_domain and kind != 'nonwf':
            chk.stat('depth-%d' % min(depth_of(node), 7))
            nb = nbranches(node)
            chk.stat('branches-%s' % (nb if nb < 4 else '4-7' if nb < 8 else '8-15' if nb < 16 else '16+'))
            for tag in shapes(node, meta):
                chk.stat('shape-' + tag)
            if len(chk.samples) < 4 and depth_of(node) >= 3 and meta:
                chk.sample(case_of(node, meta, kind=kind))
        streams = []
        rt_all = True
        for oi, (ind, cmp) in enumerate(OPTIONS):
            case = case_of(node, meta, ind, cmp, kind)
            m = mres[oi]
            r = ires[oi]
            mtext = d_str(m[2])
            if kind != 'nonwf':
                chk.count((h, oi), nontrivial=in_domain and bool(node[1]))
                chk.stat(f'indent={ind}')
                chk.stat(f'compact={cmp}')
            if r[0] == 'hang':
                chk.fail('hang', f'format(indent={ind}, compact={cmp}) does not return', case)
                rt_all = False
                continue
            if r[0] != 'ok':
                if in_domain:
                    chk.fail('roundtrip', f'format does not return ({r})', case)
                else:
                    chk.mismatch('format does not return on the implementation', case, r, mtext)
                rt_all = False
                continue
            _, s, rt, full, res, itp = r
            if itp is not None and itp[1] == ('hang',):
                chk.fail('hang', f'iterparse({s!r}) does not return', dict(case, text=s))
                itp = None
            if rt[0] == 'hang' or full == 'hang':
                chk.fail('hang', f'{"parse" if rt[0] == "hang" else "lex"}({s!r}) does not return', dict(case, text=s))
                rt_all = False
                continue
            # ---- correspondence: format, parse(format), lex(format) ----
            if s != mtext:
                chk.mismatch('format differs', case, s, mtext)
            else:
                mp = model_parse_canon(m[4])
                if rt != mp:
                    chk.mismatch('parse of the formatted text differs', dict(case, text=s), rt, mp)
                if full is not None and [(a, b) for a, b, _, _ in full] != [d_tk(x) for x in m[3]]:
                    chk.mismatch('tokens of the formatted text differ', dict(case, text=s),
                                 [(a, b) for a, b, _, _ in full], [d_tk(x) for x in m[3]])
                if full is not None and (ti + oi) % lex_sample_every == 0:
                    lexreqs.append([1, e_str(s)])
                    lexexp.append((dict(case, text=s), [list(x) for x in full]))
            ok = rt[0] == 'ok' and rt[1] == node and rt[2] == list(meta)
            rt_all = rt_all and ok
            if not in_domain or kind == 'nonwf':
                continue
            # ---- oracle ----
            if rt[0] != 'ok':
                chk.fail('roundtrip', f'format(indent={ind}, compact={cmp}) = {s!r} is rejected by parse: {rt}', case)
            else:
                if rt[1] != node:
                    chk.fail('roundtrip', f'parse(format(t, indent={ind}, compact={cmp})) = {rt[1]!r} differs from '
                             f'the tree {node!r}; text {s!r}', case)
                if rt[2] != list(meta):
                    chk.fail('metadata', f'metadata {rt[2]!r} read back from {s!r} differs from {list(meta)!r}', case)
            if itp is not None and itp != ([('ok', node, list(meta))], None):
                chk.fail('roundtrip', f'iterparse of the formatted text {s!r} yields {itp!r}, not exactly the tree', case)
            if res:
                chk.fail('options-whitespace', f'text {s!r} (indent={ind}, compact={cmp}) has more than spaces and '
                         f'line feeds between its tokens: {res}', case)
            streams.append(((ind, cmp), None if full is None else [(a, b) for a, b, _, _ in full]))
        if kind == 'nonwf':
            chk.stat('nonwf: wf=%s roundtrips=%s' % (wf, rt_all))
            continue
        if not in_domain:
            chk.stat('not-wf-but-roundtrips' if rt_all else 'not-wf-and-fails')
            continue
        if streams:
            (o0, t0) = streams[0]
            for o, tk in streams[1:]:
                if tk != t0:
                    chk.fail('options-whitespace', f'token stream under indent={o[0]}, compact={o[1]} differs from '
                             f'the one under indent={o0[0]}, compact={o0[1]}: {tk!r} vs {t0!r}',
                             case_of(node, meta, o[0], o[1], kind))
                    break
            if wf and t0 is not None and [(CODE_NAME(a), b) for a, b in t0] != [(CODE_NAME(a), b) for a, b in mtoks]:
                chk.fail('options-whitespace', f'token stream of the formatted text {t0!r} is not the token stream '
                         f'the tree denotes {mtoks!r}', case_of(node, meta, o0[0], o0[1], kind))
    if lexreqs:
        got = common.run_driver('codec', lexreqs)
        chk.corr_cases += len(lexreqs)
        for (case, exp), g in zip(lexexp, got):
            gg = [[x[0], d_str(x[1]), x[2], x[3]] for x in g]
            if gg != exp:
                chk.mismatch('lex_str differs (type, text, lineno, offset)', case, exp, gg)


def CODE_NAME(c):
    return TOKTYPES[c] if 0 <= c < len(TOKTYPES) else c


def process_strings(chk, strings, keep_trees):
    """Fixed-point clause on accepted strings + parse correspondence.  Returns accepted distinct trees."""
    model = common.run_driver('codec', [[2, e_str(s)] for s in strings])
    impl = common.pmap(_impl_string, strings, chunk=200)
    chk.corr_cases += len(strings)
    seen, trees = set(), []
    for s, m, (r, probs) in zip(strings, model, impl):
        chk.count(('s', s), nontrivial=r[0] == 'ok')
        chk.stat('strings-' + ('accepted' if r[0] == 'ok' else 'rejected' if r[0] == 'DecodeError' else r[0]))
        mp = model_parse_canon(m)
        if r[0] == 'hang':
            chk.fail('hang', f'parse({s!r}) does not return', {'text': s})
            continue
        if r != mp:
            chk.mismatch('parse differs', {'text': s}, r, mp)
        if r[0] == 'exc':
            chk.fail('fixpoint', f'parse({s!r}) raised {r[1]} (neither a tree nor a DecodeError)', {'text': s})
        for ind, cmp, what in probs:
            chk.fail('hang' if what.startswith('HANG') else 'fixpoint',
                     f'accepted input {s!r}, indent={ind}, compact={cmp}: {what}',
                     {'text': s, 'indent': ind, 'compact': cmp})
        if r[0] == 'ok' and len(trees) < keep_trees:
            h = digest(r[1], r[2])
            if h not in seen:
                seen.add(h)
                trees.append(('parsed', r[1], r[2]))
    return trees


def batches(xs, n):
    for i in range(0, len(xs), n):
        yield xs[i:i + n]


def run(chk):
    chk.rule = ('(a) trees returned by penman.parse on grammar-directed random texts and on bounded-exhaustive short '
                'strings around comments; (b) constructed trees: random nodes over symbols with # / non-ASCII / NBSP / '
                'U+2028, strings holding ( ) / : ~ # and escapes, alignments on role/concept/target, empty node, '
                'missing concept/target, anonymous role, multi-key metadata (empty value/key, key ending in colon, '
                'leading space, U+2028/U+0085/VT/FF/NBSP), gen.random_tree_node, and every tree with <=3 nodes, <=3 '
                'edges over 2 roles x 3 atoms x 4 concept forms; each x indent in {None,-1,0,1,2,3,7} x compact. '
                'A case is one (tree, indent, compact), distinct by tree digest + option, non-trivial when the tree is '
                'in the domain (parser-produced, or wf_tree in the model) and has at least one branch; the fixed-point '
                'clause runs on every accepted input string (distinct by text).  A separate stream of mutated, mostly '
                'non-wf trees is used for format correspondence and wf-vs-roundtrip statistics only.')
    chk.require_theorems('Properties.C01', THEOREMS)
    common.use_repo()
    rng = chk.rng
    quick = chk.tier == 'quick'
    n_text = 12000 if quick else 120000
    n_comment_sample = 1500 if quick else 20000
    n_constructed = 2600 if quick else 26000
    n_gen = 800 if quick else 6000
    n_small = 600 if quick else None
    n_parsed = 1100 if quick else 8000
    n_nonwf = 1500 if quick else 8000

    # ---- (a) strings: fixed point + parse correspondence; accepted trees join the tree stream ----
    strings = [gen.random_penman_text(rng, p_bad=0.3 if i % 2 else 0.0) for i in range(n_text)]
    strings += list(TRAIL)
    # accepted texts whose comments end in blanks (values are right-stripped by the parser)
    for _ in range(n_text // 20):
        s = gen.random_penman_text(rng, p_bad=0)
        strings.append('# ::%s %s%s\n%s' % (rng.choice(['k', 'id', 'snt']), rng.choice(['v', 'a b', '', '::j w']),
                                            rng.choice([' ', '  ', '\t', ' \t ', '\x0b', '\x0c']), s))
    strings += list(comment_strings(rng, n_comment_sample))
    strings = list(dict.fromkeys(strings))
    parsed = []
    for part in batches(strings, 40000):
        parsed += process_strings(chk, part, 10 ** 9)
    rng.shuffle(parsed)
    parsed = parsed[:n_parsed]

    # ---- (b) constructed trees ----
    trees = list(parsed)
    for _ in range(n_constructed):
        trees.append(('constructed', g_node(rng, maxdepth=rng.choice([1, 2, 4, 6])), g_meta(rng)))
    for _ in range(n_gen):
        node = gen.random_tree_node(rng, gen.fresh_vars(), maxdepth=rng.choice([2, 4, 5]), wf=True)
        trees.append(('gen', node, g_meta(rng) if rng.random() < .5 else []))
    small = list(small_trees())
    chk.stat('small-family-size', len(small))
    if n_small is not None:
        # quick: every tree with at most two edges, a sample of those with three
        nedges = [nbranches(n) - sum(1 for _ in _concepts(n)) for n, _ in small]
        few = [t for t, e in zip(small, nedges) if e <= 2]
        rest = [t for t, e in zip(small, nedges) if e > 2]
        small = few + rng.sample(rest, min(len(rest), n_small))
    trees += [('small', n, m) for n, m in small]
    for _ in range(n_nonwf):
        n, m = g_nonwf(rng)
        trees.append(('nonwf', n, m))
    for part in batches(trees, 3000):
        process_trees(chk, part)
    chk.exhaustive = n_small is None
    history_stream(chk, 300 if quick else 3000)
    entrypoint_stream(chk, strings, trees)


def entrypoint_stream(chk, strings, trees):
    """penman.parse / PENMANCodec.parse / iterparse (both) and penman.format / PENMANCodec.format must agree."""
    from harness import entrypoints
    from penman.tree import Tree
    rng = chk.rng
    sample = rng.sample(strings, min(len(strings), 2500 if chk.tier == 'quick' else 25000))
    # texts with characters that str.splitlines() (but not the lexer) treats as line ends, inside strings / symbols / metadata
    for ch in '\u2028\u2029\x85\x0b\x0c\x1c\x1d\x1e':
        sample += ['(a / "x%sy" :r b%sc)' % (ch, ch), '# ::snt u%sv\n(a / b)' % ch, '(a / b :r "p%s")\n' % ch]
    for s in sample:
        bad = entrypoints.disagreement(entrypoints.parse_variants(s))
        chk.count(('entry', s))
        if bad:
            chk.fail('entry-point', 'the ways of parsing a text disagree: ' + bad, {'stream': 'entry-points', 'text': s})
    for kind, node, meta in rng.sample(trees, min(len(trees), 800)):
        try:
            t = Tree(node, metadata=dict(meta))
        except Exception:      # noqa
            continue
        for ind, cmp in ((-1, False), (None, True), (2, False)):
            bad = entrypoints.disagreement(entrypoints.format_variants(t, ind, cmp))
            if bad:
                chk.fail('entry-point', 'the ways of formatting a tree disagree: ' + bad, {'stream': 'entry-points', 'tree': node})
    chk.stat('entry-point-texts', len(sample))


def history_stream(chk, n):
    """The round trip must not depend on what was parsed (and edited) earlier in the process: the metadata of one
    parsed tree is edited in place, then other texts are parsed and round-tripped; they must not see the edit."""
    import penman
    rng = chk.rng
    for i in range(n):
        s1 = gen.random_penman_text(rng, p_bad=0)
        s2 = gen.random_penman_text(rng, p_bad=0)
        case = {'stream': 'history', 'first': s1, 'second': s2}
        chk.count(('history', s1, s2))
        try:
            t1 = penman.parse(s1)
            want = penman.parse(s2).metadata.copy()
            want_text = penman.format(penman.parse(s2))
            t1.metadata['zz-edited'] = 'by the caller %d' % i      # a caller edits ITS tree
            t1.node[1].append((':zz', 'edited'))
            t2 = penman.parse(s2)
            got_text = penman.format(t2)
        except penman.DecodeError:
            continue
        if dict(t2.metadata) != dict(want) or got_text != want_text:
            chk.fail('history', 'parsing/formatting a text gives a different result after an earlier parsed tree was edited '
                                f'in place: metadata {dict(t2.metadata)!r} vs {dict(want)!r}', case)
        back = penman.parse(got_text)
        if back.node != t2.node or dict(back.metadata) != dict(t2.metadata):
            chk.fail('roundtrip', 'round trip fails after an earlier parsed tree was edited in place', case)
    chk.stat('history-pairs', n)


def _concepts(node):
    for r, t in node[1]:
        if r == '/':
            yield r
        if isinstance(t, tuple):
            yield from _concepts(t)


def replay(obj):
    """Re-run the failing case of a replay file on the implementation and show the behaviour."""
    common.use_repo()
    import penman
    from penman.tree import Tree
    case = obj.get('case') or {}
    print('replay case:', json.dumps(case, ensure_ascii=True))
    opts = [(case['indent'], case['compact'])] if 'compact' in case else OPTIONS
    if 'node' in case:
        node = _node_of(case['node'])
        meta = [tuple(kv) for kv in case.get('metadata', [])]
        rc = 0
        for ind, cmp in opts:
            s = penman.format(Tree(node, dict(meta)), indent=ind, compact=cmp)
            print(f'format(indent={ind}, compact={cmp}) = {s!r}')
            r = _canon_parse(penman.parse, s)
            print('  reparse :', r)
            if r[0] == 'ok':
                print('  node equal:', r[1] == node, ' metadata:', r[2], 'equal:', r[2] == meta)
                rc |= int(r[1] != node or r[2] != meta)
            else:
                rc = 1
            from penman._lexer import lex
            print('  tokens  :', [(k.type, k.text) for k in lex(s)])
        return rc
    if 'text' in case:
        s = case['text']
        r, probs = _impl_string(s)
        print(f'parse({s!r}) =', r)
        if r[0] == 'ok':
            for ind, cmp in opts:
                s1 = penman.format(Tree(r[1], dict(r[2])), indent=ind, compact=cmp)
                print(f'format(indent={ind}, compact={cmp}) = {s1!r}')
                print('  reparse :', _canon_parse(penman.parse, s1))
        for p in probs:
            print('PROBLEM:', p)
        return 1 if probs or r[0] in ('hang', 'exc') else 0
    return 0
