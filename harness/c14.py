"""C14 — layout diagnostics agree with the text the graph was decoded from.

proof:          coq/Properties/C14.v (marker-stack simulation over the tree; graphs without markers)
correspondence: Impl.Diagnostics.{node_contexts, appears_inverted, get_pushed_variable} (extracted)
                vs penman.layout on decoded graphs, marker-less graphs and graphs with damaged markers
oracle:         the three diagnostics of layout.interpret(tree) against ctx / opened / written-inverted
                of the EXTRACTED SPEC reading; never None for a freshly decoded well-formed tree;
                no exception on graphs without / with partial epidata
"""
from harness import common, models, gen
from harness.common import e_tree, e_graph, e_triple, d_atom, d_opt, atom_key, canon_triple, timed, Timeout
from harness.c04 import d_reading, to_node

THEOREMS = [
    'C14_node_contexts', 'C14_pushed', 'C14_appears_inverted', 'C14_written_inverted_meaning',
    'C14_no_markers_contexts', 'C14_no_markers_pushed', 'C14_no_markers_inverted',
    'C14_no_markers_inverted_only_to_top', 'C14_nonvacuous',
    'C14_colonless_role_loses_context', 'C14_instance_of_loses_context',
]


def patient(fn, *args, seconds=5):
    """timed(), but a first expiry is retried once with a long budget: on a loaded machine a
    millisecond call can be descheduled for seconds; only a second expiry counts as a hang"""
    try:
        return timed(fn, *args, seconds=seconds)
    except Timeout:
        return timed(fn, *args, seconds=120)

# ---------------------------------------------------------------------------------------
# generators: well-formed trees


def chain(rng, depth, vars_pool):
    """deep nesting: every level closes on the innermost triple"""
    var = vars_pool.pop(0)
    bs = []
    if rng.random() < .6:
        bs.append(('/', rng.choice(['x', 'y', 'dog'])))
    if depth:
        role = rng.choice([':ARG0', ':ARG1', ':ARG0-of', ':mod'])
        bs.append((role, chain(rng, depth - 1, vars_pool)))
        if rng.random() < .3:
            bs.append((':op1', rng.choice(['k', '"s"'])))
    return (var, bs)


def conceptless(rng, vars_pool, depth=0, defined=None):
    """nodes without concept that still have edges; inverted re-entrancies"""
    defined = defined if defined is not None else []
    var = vars_pool.pop(0)
    defined.append(var)
    bs = []
    used = set()
    for _ in range(rng.choice([1, 2, 3])):
        role = rng.choice([':ARG0', ':ARG1', ':ARG2', ':ARG0-of', ':ARG1-of', ':mod', ':domain-of'])
        if depth < 4 and rng.random() < .5 and vars_pool:
            bs.append((role, conceptless(rng, vars_pool, depth + 1, defined)))
        else:
            tgt = rng.choice(defined + ['k'])
            if (role, tgt) in used:
                continue
            used.add((role, tgt))
            bs.append((role, tgt))
    return (var, bs)


def wf_nodes(chk, n):
    rng = chk.rng
    for i in range(n):
        r = i % 10
        if r == 0:
            yield 'chain', chain(rng, rng.randint(2, 25 if chk.tier == 'quick' else 60), gen.fresh_vars(80))
        elif r in (1, 2):
            yield 'conceptless', conceptless(rng, gen.fresh_vars(40))
        else:
            roles = None
            if r in (3, 4):
                # roles that END in -of by definition under AMR but are inversions under the default model:
                # the two models must not influence each other (a memo keyed by role text alone would)
                roles = [':ARG0', ':ARG1', ':ARG0-of', ':consist-of', ':prep-out-of', ':prep-on-behalf-of', ':mod', ':ARG1-of', ':quant']
            node = gen.random_tree_node(rng, gen.fresh_vars(40), wf=True,
                                        maxdepth=rng.choice([2, 4, 6]), roles=roles)
            if rng.random() < .3:
                # a reference (possibly through an inverted role) written BEFORE the node it names is defined
                node = gen.forward_references(rng, node)
            yield 'random', node


# ---------------------------------------------------------------------------------------


def impl_diag(g, triples=None):
    """the three diagnostics; ('raises', name) on any exception"""
    from penman import layout
    try:
        ctx = [atom_key(c) for c in layout.node_contexts(g)]
        trs = list(g.triples) if triples is None else triples
        pushed = [atom_key(layout.get_pushed_variable(g, t)) for t in trs]
        inv = [bool(layout.appears_inverted(g, t)) for t in trs]
    except Exception as e:
        return ('raises', type(e).__name__)
    return ('ok', ctx, pushed, inv)


def model_diag_request(g, triples=None):
    trs = list(g.triples) if triples is None else triples
    return [10, e_graph(g), [e_triple(t) for t in trs]]


def d_model_diag(res):
    ctx = [d_opt(lambda a: atom_key(d_atom(a)), c) for c in res[0]]
    # get_pushed_variable: Some v -> v (Push(None) -> None as in Python), None -> None
    pushed = [d_opt(lambda a: atom_key(d_atom(a)), p) for p in res[1]]
    inv = [bool(b) for b in res[2]]
    return ('ok', ctx, pushed, inv)


def damage(rng, g):
    """delete / add / move markers: PARTIAL epidata"""
    from penman import layout
    from penman.surface import Alignment
    keys = list(g.epidata)
    for _ in range(rng.randint(1, 4)):
        k = rng.choice(keys) if keys else None
        op = rng.random()
        if k is None:
            break
        if op < .35:
            g.epidata.pop(k, None)
        elif op < .55:
            g.epidata.setdefault(k, []).append(layout.POP)
        elif op < .7:
            g.epidata.setdefault(k, []).insert(0, layout.Push(rng.choice(list(g.variables()) + ['zz'])))
        elif op < .85:
            g.epidata[k] = [e for e in g.epidata.get(k, []) if not isinstance(e, layout.Pop)]
        else:
            g.epidata.setdefault(k, []).append(Alignment((1,)))
    return g


def run(chk):
    chk.rule = ('well-formed trees: gen.random_tree_node(wf=True) (fresh variable per node, re-entrancies incl. '
                'inverted ones, alignments), deep chains (several nodes closing on one triple), concept-less nodes '
                'with edges; kept when Spec.wf_layout_tree holds (pairwise distinct triples, no ":instance-of"); '
                'x models {default, live AMR}.  Second stream: gen.random_connected_graph WITHOUT epidata and decoded '
                'graphs with damaged (partial) epidata.  A case is distinct per (model, tree) / per graph')
    chk.require_theorems('Properties.C14', THEOREMS)
    common.use_repo()
    import penman
    from penman import layout
    from penman.graph import Graph
    from penman.tree import Tree
    quick = chk.tier == 'quick'
    rng = chk.rng
    pool = [('default', models.DEFAULT, False), ('amr', models.amr_table(), True)]
    pool = [(n, t, l, models.impl_model(t, live_amr=l), models.wire_model(t)) for n, t, l in pool]

    # ---------------- stream 1: decoded well-formed trees -------------------------------------
    n_trees = 9000 if quick else 80000
    cands = []
    for kind, node in wf_nodes(chk, n_trees):
        mi = rng.randrange(2)
        cands.append((kind, node, mi))
    wf = common.run_driver('interp', [[8, pool[mi][4], e_tree(Tree(node))] for _, node, mi in cands])
    cases = []
    for (kind, node, mi), ok in zip(cands, wf):
        if not ok:
            chk.stat('tree-not-wf-skipped')
            continue
        chk.stat('tree-' + kind)
        cases.append((kind, node, mi))
    readings = common.run_driver('interp', [[1, pool[mi][4], e_tree(Tree(node))] for _, node, mi in cases])
    requests, meta = [], []
    for (kind, node, mi), rd in zip(cases, readings):
        name, tbl, live, m, wm = pool[mi]
        case = {'model': name, 'table': tbl if not live else 'penman.models.amr', 'tree': node}
        spec = d_reading(rd)
        chk.count((name, repr(node)), nontrivial=bool(node[1]))
        if spec[0] != 'ok':
            chk.mismatch('wf tree without reading', case, None, spec)
            continue
        items = spec[1]['items']
        try:
            g = patient(layout.interpret, Tree(node), m)
            if rng.random() < .3:
                # the same graph READ FROM ITS TEXT through one of the public entry points (all take the model):
                # the diagnostics are about decoded graphs, whichever call decoded them
                from penman.codec import PENMANCodec
                text = penman.format(Tree(node))
                how = rng.choice(['decode', 'loads', 'iterdecode', 'codec.iterdecode', 'codec.decode'])
                try:
                    g2 = patient({'decode': lambda: penman.decode(text, model=m),
                                  'loads': lambda: penman.loads(text, model=m)[0],
                                  'iterdecode': lambda: next(iter(penman.iterdecode(text, model=m))),
                                  'codec.iterdecode': lambda: next(iter(PENMANCodec(model=m).iterdecode(text))),
                                  'codec.decode': lambda: PENMANCodec(model=m).decode(text)}[how])
                except Timeout:
                    raise
                except Exception as e:      # noqa
                    g2 = None
                    chk.stat('entry-point-not-readable:' + type(e).__name__)
                if g2 is not None:
                    if common.canon_graph(g2) != common.canon_graph(g):
                        chk.fail('entry-point', f'penman.{how}(text, model) reads a different graph than interpret(tree, model): '
                                 f'{g2.triples!r} vs {g.triples!r}', dict(case, text=text, entry=how))
                    else:
                        g = g2
                        chk.stat('read-through-' + how)
            if rng.random() < .3:
                # history: calls documented as NOT changing their argument run first on the same graph object
                try:
                    patient(layout.reconfigure, g, None, m)
                    patient(penman.encode, g, None, m)
                    chk.stat('primed-with-reconfigure-and-encode')
                except Exception:      # noqa: judged by other properties
                    pass
            if rng.random() < .5:
                # history: a graph with the SAME ordered triples and top but no markers is queried
                # first, so an answer cached by triples instead of by markers is exposed
                patient(impl_diag, Graph(g.triples, top=g.top))
                chk.stat('primed-with-markerless-twin')
            d = patient(impl_diag, g)
        except Timeout:
            chk.fail('raises', 'diagnostics do not terminate on a decoded graph', case)
            continue
        if d[0] != 'ok':
            chk.fail('raises', f'{d[1]} from the layout diagnostics of a freshly decoded graph', case)
            continue
        _, ctx, pushed, inv = d
        if [canon_triple(t) for t in g.triples] != [it['triple'] for it in items]:
            chk.mismatch('triples differ from the reading (C04)', case, g.triples, [it['triple'] for it in items])
            continue
        closes = max(it['closes'] for it in items)
        chk.stat('max-closes-%s' % ('1' if closes <= 1 else '2-3' if closes <= 3 else '4+'))
        if any(it['winv'] and it['opened'] is None for it in items):
            chk.stat('has-inverted-reentrancy')
        if len(chk.samples) < 5 and closes >= 2 and any(it['winv'] for it in items):
            chk.sample(case)
        if None in ctx:
            chk.fail('unknown-context', f'node_contexts of a freshly decoded well-formed tree has None: {ctx}', case)
        want_ctx = [it['ctx'] for it in items]
        if ctx != want_ctx and None not in ctx:
            chk.fail('context', f'node_contexts {ctx} but the triples were written by {want_ctx}', case)
        for it, p, i in zip(items, pushed, inv):
            want_p = it['opened'][1] if it['opened'] else None
            if p != want_p:
                chk.fail('pushed', f"get_pushed_variable({it['triple']}) = {p!r}, the branch opened {want_p!r}", case)
            if it['triple'][0] != it['triple'][2] and i != it['winv']:
                chk.fail('inverted', f"appears_inverted({it['triple']}) = {i}, written inverted = {it['winv']}", case)
        requests.append(model_diag_request(g))
        meta.append((case, d))

    # ---------------- stream 2: graphs without / with partial epidata --------------------------
    n_graphs = 4000 if quick else 40000
    for i in range(n_graphs):
        if i % 2 == 0:
            V, triples = gen.random_connected_graph(rng, with_numbers=False)
            triples = list(triples)
            if rng.random() < .5:
                rng.shuffle(triples)
            top = rng.choice([None, None] + V)
            g = Graph(triples, top=top)
            kind = 'no-epidata'
        else:
            node = gen.random_tree_node(rng, gen.fresh_vars(30), wf=rng.random() < .8)
            try:
                g = layout.interpret(Tree(node), pool[0][3])
            except Exception:
                continue
            g = damage(rng, g)
            kind = 'partial-epidata'
        # also ask about triples that are not in the graph
        extra = [('zz', ':ARG0', 'a'), ('a', ':instance', None)]
        trs = list(g.triples) + extra
        case = {'kind': kind, 'triples': list(g.triples), 'top': g._top,
                'epidata': [[list(t), [repr(e) for e in es]] for t, es in g.epidata.items()]}
        chk.stat('graph-' + kind)
        chk.count((kind, repr(case['triples']), repr(case['epidata']), repr(g._top)))
        try:
            d = patient(impl_diag, g, trs)
        except Timeout:
            chk.fail('raises', 'diagnostics do not terminate', case)
            continue
        if d[0] != 'ok':
            chk.fail('raises', f'{d[1]} raised by the layout diagnostics on a graph with {kind}', case)
            continue
        if kind == 'no-epidata':
            if any(p is not None for p in d[2]):
                chk.fail('pushed', 'get_pushed_variable answers a variable on a graph without markers', case)
            t0 = atom_key(g.top)
            k = 0
            while k < len(d[1]) and d[1][k] is not None:
                k += 1
            if any(c is not None for c in d[1][k:]) or any(c != t0 for c in d[1][:k]):
                chk.fail('context', f'node_contexts without markers is not a prefix of top then None: {d[1]}', case)
        requests.append(model_diag_request(g, trs))
        meta.append((case, d))

    # ---------------- correspondence: Impl.Diagnostics vs layout -------------------------------
    results = common.run_driver('interp', requests)
    chk.corr_cases = len(meta)
    for (case, d), res in zip(meta, results):
        md = d_model_diag(res)
        if md != d:
            chk.mismatch('Impl.Diagnostics differs from penman.layout', case, d, md)


def replay(obj):
    common.use_repo()
    from penman import layout
    from penman.graph import Graph
    from penman.tree import Tree
    case = obj.get('case') or {}
    print('replay case:', case)
    if 'tree' in case:
        tbl = case.get('table')
        live = tbl == 'penman.models.amr'
        tbl = models.amr_table() if live else tbl
        m = models.impl_model(tbl, live_amr=live)
        node = to_node(case['tree'])
        g = layout.interpret(Tree(node), m)
        print('triples:', g.triples)
        print('epidata:', g.epidata)
        print('layout diagnostics:', impl_diag(g))
        spec = d_reading(common.run_driver('interp', [[1, models.wire_model(tbl), e_tree(Tree(node))]])[0])
        if spec[0] == 'ok':
            for it in spec[1]['items']:
                print('   reading:', it['triple'], 'ctx', it['ctx'], 'opened', it['opened'], 'written inverted', it['winv'])
    else:
        g = Graph([tuple(t) for t in case['triples']], top=case.get('top'))
        print('markers are not reconstructed from the replay file; diagnostics on the bare triples:')
        print(impl_diag(g))
    return 0
