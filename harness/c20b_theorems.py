"""Theorems of coq/Properties/C20b.v (proofs: coq/Proofs/CliIdem_lemmas.v): byte idempotence
of the penman command for --rearrange KEYS (no random key), --make-variables FMT (format with
an index) and both together, any formatting options, streams of well-formed trees on stdin.

Register with  chk.require_theorems('Properties.C20b', THEOREMS)  in the C20 check.
"""
THEOREMS = [
    # components
    'C20b_cli_key_order',
    'C20b_sorted_tree_is_fixed',
    'C20b_rearrange_twice',
    'C20b_rearrange_twice_cli',
    'C20b_rearrange_preserves_wf',
    'C20b_relabel_twice',
    'C20b_names_of_relabelled',
    'C20b_relabel_preserves_wf',
    'C20b_relabel_keeps_sorted',
    'C20b_stream_from_trees',
    # 1. --rearrange
    'C20b_rearrange_tree_fixed',
    'C20b_rearrange_idempotent',
    # 2. --make-variables
    'C20b_make_variables_idempotent',
    # 3. both
    'C20b_rearrange_make_variables_tree_fixed',
    'C20b_rearrange_and_make_variables',
]
