"""C05 — re-layout operations never change the graph.

proof:          coq/Properties/C05.v (rearrange: permutation, stable sort by (criterion1, key), content
                preserved for EVERY key incl. stateful ones; key orders; reconfigure strips markers)
correspondence: extracted Impl.Layout.rearrange / reconfigure (group 'layout') vs penman.layout.rearrange /
                reconfigure on the same trees/graphs and keys; random_order is driven by the recorded
                stream of random.random() values, so the model must reproduce the exact tree
oracle:         reconfigure(g) == reconfigure(g with Push/POP removed by hand); graph content and top before/after (rearrange, reconfigure, encode(g, top=v)); per-node
                branch multiset with "/" first; order = my own stable insertion sort on independently
                recomputed (criterion1, key(role)) pairs; :op2 before :op10; inverted roles last
"""
import copy
import random
import re

from harness import common, models, gen, c02
from harness.common import timed, Timeout

THEOREMS = ['C05_rearrange_perm', 'C05_rearranged_meaning', 'C05_rearrange_content', 'C05_rearrange_content_pure',
            'C05_rearrange_sorted_stable', 'C05_rearrange_all_sorted', 'C05_all_sorted_meaning', 'C05_rearrange_is_rn', 'C05_stable_sort_unique',
            'C05_key_orders_total_preorders', 'C05_alnum_numeric', 'C05_alnum_op2_before_op10',
            'C05_canonical_inverted_last', 'C05_reconfigure_strips_markers', 'C05_reconfigure_is_configure',
            'C05_nonvacuous']

KEYS = ['none', 'original', 'alphanumeric', 'canonical', 'table'] + ['random%d' % k for k in range(10)]
TABLE = {':ARG0': 2, ':ARG1': 1, ':ARG0-of': 1, ':op1': 3, ':op2': 0, ':op10': 0, ':mod': 2, ':quant': 1, ':a': 5}


def alnum_split(role):
    """Independent recomputation of alphanumeric_order (ASCII roles)."""
    i = len(role)
    while i > 0 and role[i - 1] in '0123456789':
        i -= 1
    if i == len(role) or i == 0:
        return (role, 0)
    return (role[:i], int(role[i:]))


def expected_key(name, m, role):
    if name == 'none' or name == 'original':
        return True
    if name == 'alphanumeric':
        return alnum_split(role)
    if name == 'canonical':
        return (m.is_role_inverted(role), alnum_split(role))
    if name == 'table':
        return TABLE.get(role, 0)
    raise KeyError(name)


def impl_key(name, m, log):
    if name == 'none':
        return None
    if name == 'original':
        return m.original_order
    if name == 'alphanumeric':
        return m.alphanumeric_order
    if name == 'canonical':
        return m.canonical_order
    if name == 'table':
        return lambda role: TABLE.get(role, 0)

    def rnd(role):
        v = m.random_order(role)
        log.append(v)
        return v
    return rnd


def wire_key(name, log):
    if name == 'none':
        return [0]
    if name == 'original':
        return [1]
    if name == 'alphanumeric':
        return [2]
    if name == 'canonical':
        return [3]
    if name == 'table':
        return [5, [[common.e_str(k), v] for k, v in TABLE.items()]]
    return [4, [int(v * 2 ** 53) for v in log]]


def insertion_sort(items, keys):
    """Stable insertion sort written here (no use of sorted/list.sort)."""
    out = []
    for it, k in zip(items, keys):
        j = len(out)
        while j > 0 and k < out[j - 1][1]:
            j -= 1
        out.insert(j, (it, k))
    return [it for it, _ in out]


def nodes_by_var(node, acc=None):
    acc = {} if acc is None else acc
    stack = [node]
    while stack:
        n = stack.pop()
        acc[n[0]] = n
        for i, (r, t) in enumerate(n[1]):
            if isinstance(t, tuple) and not (i == 0 and r == '/'):
                stack.append(t)
    return acc


def canon_branch(b):
    r, t = b
    return (r, ('node', t[0]) if isinstance(t, tuple) else ('atom', common.atom_key(t)))


def graph_content(g, m):
    """(top, sorted triples) with edges de-inverted once by the model and constants by text."""
    vs = g.variables()
    out = []
    for s, r, t in g.triples:
        if r != ':instance' and t in vs and m.is_role_inverted(r):
            s, r, t = m.deinvert((s, r, t))
        out.append((str(s), r, None if t is None else str(t)))
    return (g.top, sorted(out, key=repr))


_MODEL_CACHE = {}


def _model_for(name, tbl, live):
    if name not in _MODEL_CACHE:
        _MODEL_CACHE[name] = models.impl_model(tbl, live_amr=live)
    return _MODEL_CACHE[name]


def eval_tree_case(case):
    """rearrange under every key x attributes_first on one (model, tree)."""
    common.use_repo()
    from penman import layout
    from penman.tree import Tree
    name, tbl, live, node, meta = case
    m = _model_for(name, tbl, live)
    noop = bool(tbl['noop'])
    res = {'wf': c02.wf_layout(node, m, noop), 'runs': []}
    if not res['wf']:
        return res
    t = Tree(node, metadata=dict(meta))
    try:
        g0 = timed(layout.interpret, t, m, seconds=20)
    except Exception as e:   # noqa
        res['wf'] = False
        return res
    base = graph_content(g0, m)
    variables = {n[0] for n in t.nodes()}
    for kname in KEYS:
        for af in (False, True):
            log = []
            t2 = copy.deepcopy(t)
            if kname.startswith('random'):
                random.seed(int(kname[6:]))
            run = {'key': kname, 'af': af, 'problems': []}
            try:
                timed(layout.rearrange, t2, impl_key(kname, m, log), af, seconds=20)
            except Exception as e:   # noqa
                run['exc'] = type(e).__name__
                res['runs'].append(run)
                continue
            run['tree'] = t2.node
            run['log'] = log
            # ---- content
            try:
                g2 = layout.interpret(t2, m)
                c2 = graph_content(g2, m)
                if c2[0] != base[0]:
                    run['problems'].append(('top', 'top changed from %r to %r' % (base[0], c2[0])))
                if c2[1] != base[1]:
                    run['problems'].append(('content', 'triples changed'))
                if list(t2.metadata.items()) != list(meta.items()):
                    run['problems'].append(('content', 'metadata changed'))
            except Exception as e:   # noqa
                run['problems'].append(('content', 'interpret of the rearranged tree raised ' + type(e).__name__))
            # ---- per node: branch multiset, "/" first, order, stability
            before = nodes_by_var(node)
            after = nodes_by_var(t2.node)
            if set(before) != set(after):
                run['problems'].append(('branch-set', 'set of nodes changed'))
            else:
                vs = variables if af else set()
                for var, n0 in before.items():
                    b0, b1 = n0[1], after[var][1]
                    if sorted(map(repr, map(canon_branch, b0))) != sorted(map(repr, map(canon_branch, b1))):
                        run['problems'].append(('branch-set', 'branch multiset of node %r changed' % var))
                        continue
                    has_first = bool(b0) and b0[0][0] == '/'
                    if has_first and not (b1 and canon_branch(b1[0]) == canon_branch(b0[0])):
                        run['problems'].append(('branch-set', 'concept branch of node %r not kept first' % var))
                        continue
                    rest0 = b0[1:] if has_first else b0
                    rest1 = b1[1:] if has_first else b1
                    if kname.startswith('random'):
                        continue       # order under random_order: checked through the model's stream only

                    def c1(b):
                        tgt = b[1]
                        return (tgt[0] in vs) if isinstance(tgt, tuple) else (tgt in vs)
                    keys0 = [(c1(b), expected_key(kname, m, b[0])) for b in rest0]
                    keys1 = [(c1(b), expected_key(kname, m, b[0])) for b in rest1]
                    if any(keys1[i] > keys1[i + 1] for i in range(len(keys1) - 1)):
                        run['problems'].append(('order', 'branches of node %r not sorted by the key: %r' % (var, [b[0] for b in rest1])))
                    want = insertion_sort(list(map(canon_branch, rest0)), keys0)
                    if list(map(canon_branch, rest1)) != want:
                        if sorted(map(repr, keys1)) == sorted(map(repr, keys0)) and not any(keys1[i] > keys1[i + 1] for i in range(len(keys1) - 1)):
                            run['problems'].append(('stability', 'equal-key branches of node %r reordered: %r' % (var, [b[0] for b in rest1])))
                        else:
                            run['problems'].append(('order', 'node %r is not the stable sort of its branches' % var))
                    roles1 = [b[0] for b in rest1 if c1(b) == (c1(rest1[0]) if rest1 else False)]
                    if kname in ('alphanumeric', 'canonical') and ':op2' in roles1 and ':op10' in roles1:
                        if roles1.index(':op2') > roles1.index(':op10'):
                            run['problems'].append(('order', ':op10 sorted before :op2 in node %r' % var))
                    if kname == 'canonical':
                        inv = [m.is_role_inverted(r) for r in roles1]
                        if any(inv[i] and not inv[i + 1] for i in range(len(inv) - 1)):
                            run['problems'].append(('order', 'an inverted role precedes a non-inverted one in node %r' % var))
            res['runs'].append(run)
    return res


def roles_invertible(g, m):
    """Every edge role is canonical for the model and the model is of_free on it (C13): inverting is an
    involution that flips inverted-ness.  Otherwise re-rooting cannot be undone by decoding (DESIGN N6)."""
    vs = g.variables()
    for s, r, t in g.triples:
        if r == ':instance' or t not in vs:
            continue
        i = m.invert_role(r)
        if m.invert_role(i) != r or m.is_role_inverted(i) == m.is_role_inverted(r):
            return False
    return True


def eval_graph_case(case):
    """reconfigure under every key, new tops, encode(g, top=v) on one (model, graph)."""
    common.use_repo()
    from penman import layout
    from penman.graph import Graph
    from penman.codec import PENMANCodec
    from penman.exceptions import LayoutError
    name, tbl, live, g = case
    m = _model_for(name, tbl, live)
    c = PENMANCodec(model=m)
    base = graph_content(g, m)
    variables = sorted(g.variables())
    res = {'runs': [], 'variables': variables, 'top': g.top, 'encode': []}
    if not roles_invertible(g, m):
        res['skipped'] = 'role-inversion-not-involutive'
        return res
    # the same graph with Push/POP removed by hand: reconfigure must not see the difference
    bare = copy.deepcopy(g)
    for t_ in list(bare.epidata):
        bare.epidata[t_] = [e for e in bare.epidata[t_] if not isinstance(e, layout.LayoutMarker)]
    plans = [(k, None) for k in KEYS]
    for v in variables:
        plans.append(('none', v))
        plans.append(('canonical', v))
        plans.append(('random3', v))
    for kname, top in plans:
        log = []
        if kname.startswith('random'):
            random.seed(int(kname[6:]))
        run = {'key': kname, 'top': top, 'problems': []}
        try:
            t = timed(layout.reconfigure, g, top, m, impl_key(kname, m, log), seconds=20)
        except LayoutError as e:
            run['exc'] = 'LayoutError'
            run['problems'].append(('content', 'reconfigure raised LayoutError on a connected graph: %s' % e))
            res['runs'].append(run)
            continue
        except Exception as e:   # noqa
            run['exc'] = type(e).__name__
            run['problems'].append(('content', 'reconfigure raised ' + type(e).__name__))
            res['runs'].append(run)
            continue
        run['tree'] = t.node
        run['meta'] = dict(t.metadata)
        run['log'] = log
        try:
            if kname.startswith('random'):
                random.seed(int(kname[6:]))
            t_bare = timed(layout.reconfigure, bare, top, m, impl_key(kname, m, []), seconds=20)
            if t_bare.node != t.node:
                run['problems'].append(('markers', 'reconfigure depends on the Push/POP markers it should discard: %r vs %r without markers'
                                        % (t.node, t_bare.node)))
        except Exception as e:   # noqa
            run['problems'].append(('markers', 'reconfigure of the marker-free copy raised ' + type(e).__name__))
        want_top = top if top is not None else g.top
        if t.node[0] != want_top:
            run['problems'].append(('top', 'root is %r, expected %r' % (t.node[0], want_top)))
        try:
            g2 = c.decode(c.format(t))
            c2 = graph_content(g2, m)
            if c2[0] != want_top:
                run['problems'].append(('top', 'top of the re-decoded graph is %r, expected %r' % (c2[0], want_top)))
            if c2[1] != base[1]:
                run['problems'].append(('content', 'triples changed by reconfigure'))
        except Exception as e:   # noqa
            run['problems'].append(('content', 'decode(format(reconfigure(g))) raised ' + type(e).__name__))
        res['runs'].append(run)
    # encode(g, top=v) for every variable
    for v in variables:
        try:
            s = timed(c.encode, g, v, seconds=20)
            g2 = c.decode(s)
            c2 = graph_content(g2, m)
            probs = []
            if c2[0] != v:
                probs.append(('top', 'encode(g, top=%r) decodes with top %r' % (v, c2[0])))
            if c2[1] != base[1]:
                probs.append(('content', 'encode(g, top=%r) changed the triples' % (v,)))
            res['encode'].append((v, probs))
        except Exception as e:   # noqa
            res['encode'].append((v, [('content', 'encode(g, top=%r) raised %s' % (v, type(e).__name__))]))
    return res


HAND_TREES = [
    ('op2-op10', ('a', [('/', 'x'), (':op10', 'p'), (':op2', 'q'), (':op1', 'r'), (':ARG0-of', ('b', [('/', 'y')])), (':ARG0', 'z')])),
    ('ties', ('a', [('/', 'x'), (':mod', 'p'), (':ARG0', 'q'), (':mod', 'r'), (':ARG0', 's'), (':mod', ('b', [(':mod', 'u'), (':ARG0', 'v'), (':mod', 'w')]))])),
    ('attributes-first', ('a', [('/', 'x'), (':ARG0', ('b', [('/', 'y'), (':ARG1', 'a'), (':mod', '7')])), (':ARG1', 'b'), (':mod', 'k')])),
    ('no-concept', ('a', [(':op2', 'x'), (':op10', 'y'), (':op1', ('b', []))])),
    ('slash-not-first', ('a', [(':ARG1', 'y'), (':ARG0', 'x')])),
]


def run(chk):
    chk.rule = ('trees: hand-written shapes (op2/op10, tied keys, attributes vs edges, concept-less nodes), small wf trees, '
                'random wf trees as in C02 (fresh variables; inverted roles, alignments, re-entrancies, cycles) x models '
                '{default, AMR(live), no-op, mini-AMR, random table}; graphs: interpret(t) of those trees (with Push/POP markers) '
                'and hand-built connected graphs WITHOUT explicit top and without markers, triples shuffled; keys {None, '
                'original, alphanumeric, canonical, a finite table with ties, random_order under seeds 0..9} x attributes_first '
                'x every variable as new top. A case is (model, tree|graph); non-trivial when some node has >=2 non-concept branches.')
    chk.require_theorems('Properties.C05', THEOREMS)
    from harness import e2e_aln_theorems
    chk.require_theorems('Properties.E2E_aln', e2e_aln_theorems.THEOREMS_C05)   # reconfigure / new-top CONTENT theorems
    common.use_repo()
    from penman.graph import Graph
    from penman.tree import Tree
    from penman import layout
    quick = chk.tier == 'quick'
    rng = chk.rng

    tables = [('default', models.DEFAULT, False), ('amr', models.amr_table(), True),
              ('noop', models.NOOP, False), ('mini', models.MINI_AMR, False)]
    for i in range(4 if quick else 12):
        tbl = models.random_table(rng)
        try:
            models.impl_model(tbl)
            models.wire_model(tbl)
        except ValueError:
            continue
        tables.append((f'random{i}', tbl, False))
    wires = {name: models.wire_model(tbl) for name, tbl, _ in tables}

    # ---------------- trees -----------------------------------------------------------------
    trees = [(lbl, n, {}) for lbl, n in HAND_TREES]
    small = list(c02.small_wf_trees([':op10', ':op2', ':ARG0-of'], 2, 3, 3))
    rng.shuffle(small)
    for n in small[:400 if quick else 3000]:
        trees.append(('small', n, {}))
    for i in range(1200 if quick else 12000):
        shapes = set()
        pool = gen.fresh_vars(200)
        rng.shuffle(pool)
        if rng.random() < .7:
            node = c02.random_wf_node(rng, pool, [], 0, rng.choice([2, 3, 5]), rng.choice([3, 4, 6]), .35, shapes)
        else:
            node = c02.random_wf_node(rng, pool, [], 0, 2, rng.choice([8, 16]), .15, shapes)
        meta = {'id': str(i)} if rng.random() < .2 else {}
        trees.append(('random', node, meta))
    tree_cases = []
    for kind, node, meta in trees:
        use = tables if kind not in ('random', 'small') else [tables[0], rng.choice(tables[1:])]
        for name, tbl, live in use:
            tree_cases.append((kind, (name, tbl, live, node, meta)))
    tres = common.pmap(eval_tree_case, [c for _, c in tree_cases], chunk=20)

    requests, expect = [], []
    for (kind, (name, tbl, live, node, meta)), res in zip(tree_cases, tres):
        case = {'model': name, 'table': tbl if not live else 'penman.models.amr', 'tree': node, 'metadata': meta}
        if not res['wf']:
            chk.stat('trees-not-wf(skipped)')
            continue
        chk.stat('trees')
        nontrivial = any(len([b for b in n[1] if b[0] != '/']) >= 2 for n in nodes_by_var(node).values())
        chk.count(('tree', name if not name.startswith('random') else repr(tbl), repr(node)), nontrivial=nontrivial, n=len(res['runs']))
        if len(chk.samples) < 3 and kind == 'random' and nontrivial and c02.count_nodes(node) <= 5:
            chk.sample(dict(case, op='rearrange'))
        for run_ in res['runs']:
            rc = dict(case, op='rearrange', key=run_['key'], attributes_first=run_['af'])
            chk.stat('rearrange:' + re.sub(r'\d+$', '', run_['key']))
            if 'exc' in run_:
                chk.fail('content', 'rearrange raised %s' % run_['exc'], rc)
                continue
            for key, what in run_['problems']:
                chk.fail(key, what, rc)
            requests.append([4, wire_key(run_['key'], run_['log']), 1 if run_['af'] else 0, wires[name],
                             common.e_tree(Tree(node, metadata=meta))])
            expect.append(('tree', rc, run_['tree'], dict(meta)))

    # ---------------- graphs ----------------------------------------------------------------
    graph_cases = []
    ngraphs_tree = 400 if quick else 4000
    picked = [tc for tc, r in zip(tree_cases, tres) if r['wf']]
    rng.shuffle(picked)
    picked = [tc for tc in picked if not tc[1][1]['noop']]     # the property quantifies over de-inverting models
    for kind, (name, tbl, live, node, meta) in picked[:ngraphs_tree]:
        m = models.impl_model(tbl, live_amr=live)
        try:
            g = layout.interpret(Tree(node, metadata=dict(meta)), m)
        except Exception:      # noqa
            continue
        if any(not isinstance(t[2], (str, type(None))) for t in g.triples):
            continue
        graph_cases.append(('decoded', (name, tbl, live, g), (node, meta)))
    # deep decoded graphs: chains 4-8 levels deep whose innermost nodes are ALSO referenced from outer nodes
    # (several node contexts close together; a new top deep inside leaves POPs behind)
    for i in range(150 if quick else 1500):
        depth = rng.randint(4, 8)
        vs = gen.fresh_vars()[:depth]
        node = (vs[-1], [('/', 'z%d' % depth)] + ([(':op1', 'k')] if rng.random() < .5 else []))
        for lvl in range(depth - 2, -1, -1):
            bs = [('/', 'z%d' % lvl)]
            if rng.random() < .7:      # reference to a deeper node BEFORE the nested chain
                bs.append((rng.choice([':ARG2', ':ARG3-of', ':mod']), rng.choice(vs[lvl + 1:])))
            bs.append((rng.choice([':ARG0', ':ARG1', ':ARG1-of']), node))
            if rng.random() < .4:
                bs.append((rng.choice([':ARG2', ':quant']), rng.choice(vs[lvl + 1:] + ['7'])))
            node = (vs[lvl], bs)
        name, tbl, live = rng.choice([tb for tb in tables if not tb[1]['noop']][:2])
        m = models.impl_model(tbl, live_amr=live)
        try:
            g = layout.interpret(Tree(node), m)
        except Exception:      # noqa
            continue
        if len(set(g.triples)) != len(g.triples):
            continue
        graph_cases.append(('decoded-deep', (name, tbl, live, g), (node, {})))
    for i in range(500 if quick else 5000):
        V, triples = gen.random_connected_graph(rng, with_numbers=(rng.random() < .3), numeric_concepts=True,
                                                roles=[':ARG0', ':ARG1', ':op1', ':op2', ':op10', ':mod', ':quant'])
        # keep the instance triple of the first variable first half of the time, shuffle the rest
        if rng.random() < .5:
            rng.shuffle(triples)
        else:
            rest = triples[1:]
            rng.shuffle(rest)
            triples = triples[:1] + rest
        # numeric duplicates such as 0 / 0.0 are not distinct triples in python: drop them
        seen, ts = set(), []
        for t in triples:
            k = (t[0], t[1], t[2] if not isinstance(t[2], (int, float)) else float(t[2]))
            if (k, type(k[2]).__name__) in seen or k in seen:
                continue
            seen.add(k)
            ts.append(t)
        deinv = [tb for tb in tables if not tb[1]['noop']]
        name, tbl, live = rng.choice(deinv[:3]) if rng.random() < .8 else rng.choice(deinv)
        graph_cases.append(('hand-built-implicit-top', (name, tbl, live, Graph(ts)), None))
    gres = common.pmap(eval_graph_case, [c for _, c, _ in graph_cases], chunk=10)

    for (kind, (name, tbl, live, g), src), res in zip(graph_cases, gres):
        case = {'model': name, 'table': tbl if not live else 'penman.models.amr', 'graph_kind': kind,
                'triples': [list(t) for t in g.triples], 'explicit_top': g._top,
                'epidata': [[list(t), [repr(e) for e in es]] for t, es in g.epidata.items() if es]}
        if src is not None:
            case['source_tree'] = src[0]
            case['metadata'] = src[1]
        if 'skipped' in res:
            chk.stat('graphs-skipped:' + res['skipped'])
            continue
        chk.stat('graphs:' + kind)
        chk.count(('graph', name if not name.startswith('random') else repr(tbl), repr(g.triples), repr(case['epidata'])),
                  nontrivial=len(g.triples) >= 3, n=len(res['runs']) + len(res['encode']))
        if len([s for s in chk.samples if s.get('op') == 'reconfigure']) < 3 and 3 <= len(g.triples) <= 6:
            chk.sample(dict(case, op='reconfigure'))
        wg = common.e_graph(g)
        for run_ in res['runs']:
            rc = dict(case, op='reconfigure', key=run_['key'], top=run_['top'])
            chk.stat('reconfigure:' + re.sub(r'\d+$', '', run_['key']) + (':new-top' if run_['top'] is not None else ''))
            for key, what in run_['problems']:
                chk.fail(key, what, rc)
            requests.append([5, wire_key(run_['key'], run_.get('log', [])), wires[name], wg, common.e_opt(common.e_atom, run_['top'])])
            if 'tree' in run_:
                expect.append(('otree', rc, run_['tree'], run_['meta']))
            else:
                expect.append(('exc', rc, run_['exc'], None))
        for v, probs in res['encode']:
            chk.stat('encode-new-top')
            for key, what in probs:
                chk.fail(key, what, dict(case, op='encode', top=v))

    out = common.run_driver('layout', requests)
    chk.corr_cases = len(requests)
    for (kind, rc, exp, meta), got in zip(expect, out):
        if kind == 'tree':
            mnode, mmeta = common.d_tree(got)
            if c02.norm_node(mnode) != c02.norm_node(exp) or mmeta != meta:
                chk.mismatch('rearrange differs', rc, exp, mnode)
        elif kind == 'otree':
            if got[0] != 0:
                chk.mismatch('model reconfigure raises, implementation returns', rc, exp, got)
            else:
                mnode, mmeta = common.d_tree(got[1])
                if c02.norm_node(mnode) != c02.norm_node(exp) or mmeta != meta:
                    chk.mismatch('reconfigure differs', rc, exp, mnode)
        else:
            if got[0] == 0 or (exp == 'LayoutError') != (got[0] == 2):
                chk.mismatch('reconfigure: implementation raises %s' % exp, rc, exp, got)
    chk.assumptions.append("Python's sorted()/list.sort is a stable sort for the key's total preorder (CPython Timsort, not modelled); "
                           "C05_stable_sort_unique shows this determines the list uniquely, and the oracle re-sorts with its own insertion sort")
    chk.assumptions.append('random_order: random.random() is treated as an arbitrary stream (the theorems quantify over every stateful key); '
                           'the correspondence run feeds the recorded stream to the model')
    from harness import c20
    c20.run_family(chk, 'layout', 400 if chk.tier == 'quick' else 4000)   # observed at penman --rearrange / --reconfigure
    chk.notes.append('C05_reconfigure_content / retop content (content preservation of configure on marker-free graphs) is NOT a theorem '
                     'of this property file: it is the subject of C03/C06 (Proofs/Configure_content.v); here it is covered by the oracle only')


def replay(obj):
    common.use_repo()
    from penman import layout
    from penman.tree import Tree
    from penman.graph import Graph
    from penman.codec import PENMANCodec
    case = obj.get('case') or {}
    print('replay case:', {k: v for k, v in case.items() if k != 'table'})
    tbl = case.get('table')
    m = models.impl_model(models.amr_table(), live_amr=True) if tbl == 'penman.models.amr' else models.impl_model(tbl)
    c = PENMANCodec(model=m)
    kname = case.get('key', 'none')
    if kname.startswith('random'):
        random.seed(int(kname[6:]))
    key = impl_key(kname, m, [])

    def tup(n):
        return (n[0], [(r, tup(t) if isinstance(t, (list, tuple)) else t) for r, t in n[1]])
    if case.get('op') == 'rearrange':
        t = Tree(tup(case['tree']), metadata=case.get('metadata') or {})
        print('before:', c.format(t))
        g0 = layout.interpret(t, m)
        layout.rearrange(t, key, case.get('attributes_first', False))
        print('after :', c.format(t))
        g1 = layout.interpret(t, m)
        same = graph_content(g0, m) == graph_content(g1, m)
        print('content equal:', same)
        return 0 if same else 1
    if case.get('source_tree') is not None:
        g = layout.interpret(Tree(tup(case['source_tree']), metadata=case.get('metadata') or {}), m)
    else:
        g = Graph([tuple(t) for t in case['triples']], top=case.get('explicit_top'))
    print('graph top:', g.top, 'triples:', g.triples)
    if case.get('op') == 'encode':
        s = c.encode(g, top=case['top'])
        print(s)
        g2 = c.decode(s)
        print('decoded top:', g2.top)
        return 0 if graph_content(g2, m)[1] == graph_content(g, m)[1] and g2.top == case['top'] else 1
    t = layout.reconfigure(g, top=case.get('top'), model=m, key=key)
    print('reconfigured:', c.format(t))
    g2 = c.decode(c.format(t))
    want_top = case.get('top') if case.get('top') is not None else g.top
    ok = graph_content(g2, m)[1] == graph_content(g, m)[1] and t.node[0] == want_top
    print('root:', t.node[0], 'expected top:', want_top, 'content equal:', graph_content(g2, m)[1] == graph_content(g, m)[1])
    return 0 if ok else 1
