"""C12 — every transformation returns a well-formed, connected, faithfully serialisable graph.

proof:          coq/Properties/C12.v (statements) over Impl/Transform.v, Spec/WfGraph.v
correspondence: the extracted model run as a PROGRAM (driver request 5: list of transform codes) vs the
                same sequence of penman.transform calls, on every (graph, program) pair generated
oracle:         top / sources / connectivity / encode-decode round trip of the result, and the inverse
                clauses of reify_attributes (contract) and indicate_branches, on the implementation alone

Transform codes: 1 reify_edges, 2 dereify_edges, 3 reify_attributes, 4 indicate_branches (the CLI order of
penman/__main__.py _process_in is 1,2,3,4).  Shared helpers live in harness/c11.py.
"""
import collections
import itertools
import json
import random
import re

from harness import common, models, gen
from harness import c11
from harness.c11 import INSTANCE, is_wf, is_connected, impl_out, impl_apply, canon_epis

THEOREMS = ['C12_reify_edges_top', 'C12_dereify_edges_top', 'C12_reify_attributes_top', 'C12_indicate_branches_top',
            'C12_reify_edges_total', 'C12_dereify_edges_total', 'C12_reify_attributes_total', 'C12_indicate_branches_total',
            'C12_indicate_branches_only_assert', 'C12_wf_is_node_graph', 'C12_sources_are_variables_reify_edges',
            'C12_sources_are_variables_dereify_edges', 'C12_sources_are_variables_reify_attributes',
            'C12_sources_are_variables_indicate_branches', 'C12_reify_attributes_no_attr', 'C12_reify_attributes_contract',
            'C12_indicate_shape', 'C12_indicate_adds_one_per_push', 'C12_indicate_remove', 'C12_sample_wf',
            'C12_connected_sound', 'C12_connected_reify_edges', 'C12_connected_dereify_edges',
            'C12_connected_reify_attributes', 'C12_connected_indicate_branches', 'C12_every_program']

NAMES = {1: 'reify_edges', 2: 'dereify_edges', 3: 'reify_attributes', 4: 'indicate_branches'}


def all_programs(kmax):
    """Every sequence of 1..kmax codes with indicate_branches (4) at most once; split into CLI-order
    subsequences (strictly increasing) and the other orders."""
    cli, other = [], []
    for k in range(1, kmax + 1):
        for p in itertools.product((1, 2, 3, 4), repeat=k):
            if p.count(4) > 1:
                continue
            (cli if all(a < b for a, b in zip(p, p[1:])) else other).append(p)
    return cli, other


# ============================================================================================
# graph construction (parent: everything from chk.rng; workers: from the integer seed in the job)


def plain_roles(inf):
    """Roles a hand-built graph may carry: not inverted under the model (decode would turn them around)."""
    m = inf.m
    rows = [(r, c, s, t) for r, rs in m.reifications.items() for c, s, t in rs]
    cand = ([r for r, _, _, _ in rows] * 2 + [s for _, _, s, _ in rows] + [t for _, _, _, t in rows]
            + [':ARG0', ':ARG1', ':ARG2', ':op1', ':op2', ':mod', ':quant', ':domain', ':polarity', ':a', ':b'])
    return [r for r in cand if r.startswith(':') and len(r) > 1 and r != INSTANCE and r != m.top_role
            and not m.is_role_inverted(r) and re.match(r'^:[A-Za-z][A-Za-z0-9-]*$', r)]


HAND_CONSTS = ['x', '"s"', 'k', '_', '_2', '7']


def hand_graph(rng, inf):
    """(triples, top) of a wf connected graph without any epidata; some nodes look like reified relations."""
    roles = plain_roles(inf)
    V, ts = gen.random_connected_graph(rng, roles=roles, consts=HAND_CONSTS)
    if any(t[2] is None for t in ts):
        return None
    m = inf.m
    rows = [(r, c, s, t) for r, rs in m.reifications.items() for c, s, t in rs]
    if rows:
        # a concept that can be dereified on an ordinary node
        if rng.random() < .3:
            i = rng.randrange(len(ts))
            if ts[i][1] == INSTANCE:
                ts[i] = (ts[i][0], INSTANCE, rng.choice(rows)[1])
        # one or two extra nodes shaped like a reified relation (collapsible unless referenced/extended)
        for k in range(rng.choice([0, 1, 1, 2])):
            role, c, sr, tr = rng.choice(rows)
            if not (sr.startswith(':') and tr.startswith(':')) or INSTANCE in (sr, tr):
                continue
            w = 'w%d' % k
            extra = [(w, INSTANCE, c), (w, sr, rng.choice(V)),
                     (w, tr, rng.choice(V) if rng.random() < .5 else rng.choice(HAND_CONSTS))]
            q = rng.random()
            if q < .15:
                extra.append((w, rng.choice(roles), rng.choice(HAND_CONSTS)))
            elif q < .3:
                extra.append((rng.choice(V), rng.choice(roles), w))
            elif q < .4:
                extra.pop()
            ts.extend(extra)
            V = V + [w]
    rng.shuffle(ts)
    top = rng.choice(V + [None, None])
    return ts, top


def edit_graph(rng, inf, g):
    """Remove / add a few triples of a decoded graph; markers are kept as they are."""
    from penman.graph import Graph
    from penman.layout import Push
    roles = plain_roles(inf)
    ts = list(g.triples)
    if rng.random() < .12:
        # the parent of an inverted branch stops being a node (its triples are deleted) and the top moves to the
        # child: the child's Push now sits on a triple whose target is a constant (stale Push, finding F29)
        inv = [t for t in ts if any(isinstance(e, Push) and e.variable == t[0] != t[2] for e in g.epidata.get(t, []))]
        if inv:
            t = rng.choice(inv)
            ts = [u for u in ts if u[0] != t[2]]
            return Graph(ts, top=t[0], epidata=g.epidata, metadata=g.metadata)
    for _ in range(rng.randint(1, 3)):
        vs = sorted(set(t[0] for t in ts)) or ['a']
        q = rng.random()
        if ts and q < .45:
            ts.pop(rng.randrange(len(ts)))
        elif q < .8:
            ts.insert(rng.randint(0, len(ts)), (rng.choice(vs), rng.choice(roles), rng.choice(vs)))
        else:
            ts.insert(rng.randint(0, len(ts)), (rng.choice(vs), rng.choice(roles), rng.choice(HAND_CONSTS)))
    vs = sorted(set(t[0] for t in ts))
    top = rng.choice([g.top, g.top, None, rng.choice(vs) if vs else None])
    return Graph(ts, top=top, epidata=g.epidata, metadata=g.metadata)


def graph_record(g):
    """JSON form of a graph from which replay rebuilds it (markers included)."""
    cg = common.canon_graph(g)
    return {'triples': [list(t) for t in cg['triples']], 'top': cg['top'],
            'epidata': [[list(t), [list(e) for e in es]] for t, es in cg['epidata']], 'metadata': cg['metadata']}


def rebuild_epi(e):
    from penman.layout import Push, POP
    from penman.surface import Alignment, RoleAlignment
    if e[0] == 'Push':
        return Push(e[1])
    if e[0] == 'POP':
        return POP
    cls = Alignment if e[0] == 'Aln' else RoleAlignment
    return cls(tuple(e[1]), prefix=e[2])


def rebuild_graph(rec):
    from penman.graph import Graph
    ep = dict((tuple(t), [rebuild_epi(e) for e in es]) for t, es in rec.get('epidata', []))
    return Graph([tuple(t) for t in rec['triples']], top=rec.get('top'), epidata=ep, metadata=rec.get('metadata') or {})


# ============================================================================================
# one graph x its programs (runs in a worker)


def sort_key(t):
    return tuple(repr(x) for x in t)


def step_oracle(inf, code, h, o, case, prog, out, had_dups=False):
    m = inf.m
    where = dict(case, program=list(prog), step=len(prog))
    if code == 3:
        if o.attributes() != []:
            out.fails.append(('attr-left', f'reify_attributes leaves attributes {o.attributes()[:3]}', where))
        new = o.variables() - h.variables()
        inst = dict((t[0], t[2]) for t in o.triples if t[1] == INSTANCE and t[0] in new)
        into = collections.Counter(t[2] for t in o.triples if t[1] != INSTANCE and t[2] in new)
        contracted = []
        ok = all(into[v] == 1 for v in new) and set(inst) == new
        for t in o.triples:
            if t[0] in new:
                if t[1] != INSTANCE:
                    ok = False
                continue
            contracted.append((t[0], t[1], inst.get(t[2])) if t[1] != INSTANCE and t[2] in new else t)
        if not ok or contracted != h.triples:
            out.fails.append(('contract', 'contracting the nodes made by reify_attributes does not give back the triples', where))
        out.stats['step:reify_attributes-changed' if new else 'step:reify_attributes-noop'] += 1
        out.stats['reified-attributes'] += len(new)
    elif code == 4:
        from penman.layout import Push
        top_role = m.top_role
        want = 0
        hv = h.variables()
        for t in h.triples:
            p = next((e for e in h.epidata.get(t, []) if isinstance(e, Push)), None)
            # a nested node: the target's node opens here, or (inverted) the source's node opens under the target's
            if p is not None and (p.variable == t[2] or (p.variable == t[0] and t[2] in hv)):
                want += 1
        got = sum(1 for t in o.triples if t[1] == top_role) - sum(1 for t in h.triples if t[1] == top_role)
        if got != want:
            out.fails.append(('indicate', f'indicate_branches added {got} {top_role} triples for {want} pushed nodes', where))
        elif not any(t[1] == top_role for t in h.triples) and [t for t in o.triples if t[1] != top_role] != h.triples:
            out.fails.append(('indicate', 'removing the inserted triples does not give back the input', where))
        elif (common.canon_graph(o)['epidata'] != common.canon_graph(h)['epidata'] or o.metadata != h.metadata):
            out.fails.append(('indicate', 'indicate_branches changed markers or metadata', where))
        elif case['provenance'] == 'decoded' and had_dups:
            # an earlier step of this program returned two EQUAL triples (a table with two roles sharing one
            # reification row makes dereification ambiguous): they share one marker list, so one Push was overwritten
            # and the markers no longer describe a text -- the premise of the clause below is gone
            out.stats['nested-node-clause-not-judged:equal-triples-earlier-in-the-program'] += 1
        elif case['provenance'] == 'decoded' and len(set(h.triples)) == len(h.triples):
            # `one top-role triple per nested node`: for a graph that still carries the markers of its text (decoded,
            # possibly transformed, never edited) the nested nodes are those of the tree that encode writes.  Not judged
            # when a degenerate table (source role = target role) made two EQUAL triples: they share one marker list
            try:
                tree = common.timed(inf.codec.parse, common.timed(inf.codec.encode, h, seconds=5), seconds=5)
                nested = len(list(tree.nodes())) - 1
            except Exception:
                nested = None            # judged by the round-trip oracle
            if nested is not None and nested != got:
                out.fails.append(('indicate', f'indicate_branches added {got} {top_role} triples but the text of its input '
                                  f'has {nested} nested nodes', where))
        out.stats['step:indicate_branches-changed' if want else 'step:indicate_branches-noop'] += 1
        out.stats['indicated-branches'] += want
    elif code == 1:
        n = (len(o.triples) - len(h.triples)) // 2
        out.stats['step:reify_edges-changed' if n else 'step:reify_edges-noop'] += 1
        out.stats['reified-edges'] += n
    elif code == 2:
        n = (len(h.triples) - len(o.triples)) // 2
        out.stats['step:dereify_edges-changed' if n else 'step:dereify_edges-noop'] += 1
        out.stats['collapsed-nodes'] += n


def deinverted(m, g):
    """(top, variables, sorted triples) of g with m.deinvert applied to every EDGE (target is a variable of g);
    attributes keep the role they were written with."""
    vs = g.variables()
    ts = [m.deinvert(t) if t[1] != INSTANCE and t[2] in vs else t for t in g.triples]
    return (g.top, vs, sorted(ts, key=sort_key))


def graph_equal(m, a, b):
    """C12's `decodes to itself`: same top, same variables, same triple multiset up to the model's single
    deinversion of edges (the C06 notion of graph equality)."""
    return deinverted(m, a) == deinverted(m, b)


def stale_push(g):
    """Some triple's first Push names its SOURCE although its target is no node (only an edit can do that)."""
    from penman.layout import Push
    vs = g.variables()
    for t in g.triples:
        p = next((e for e in g.epidata.get(t, []) if isinstance(e, Push)), None)
        if p is not None and p.variable == t[0] and p.variable != t[2] and t[2] not in vs:
            return True
    return False


def role_plain_ok(m, r):
    """The C06 hypothesis on a role: plain under the model, and its -of spelling is read as its inverse."""
    return r != INSTANCE and not m.is_role_inverted(r) and m.is_role_inverted(r + '-of')


def table_roles_ok(inf):
    if not hasattr(inf, 'roles_ok'):
        m = inf.m
        inf.roles_ok = all(role_plain_ok(m, x) for r, rs in m.reifications.items() for c, s, t in rs for x in (r, s, t))
    return inf.roles_ok


def table_inst_free(inf):
    """No role / source role / target role of the table is :instance once the colon is added."""
    def colon(r):
        return r if r.startswith(':') else ':' + r
    return all(colon(x) != INSTANCE for r, rs in inf.m.reifications.items() for c, s, t in rs for x in (r, s, t))


def roundtrip_domain(inf, g):
    """None when decode(encode(.)) == . can be judged strictly, else the reason it cannot (hypotheses of C06:
    the model deinverts, every role is plain with an inverted -of spelling, every Push names a variable)."""
    from penman.layout import Push
    m, vs = inf.m, g.variables()
    if inf.tbl['noop']:
        return 'noop-model'
    if not table_roles_ok(inf):
        return 'table-with-inverted-or-ambiguous-role'
    for t in g.triples:
        if t[1] == INSTANCE:
            continue
        if t[2] in vs:
            if not role_plain_ok(m, t[1]):
                return 'edge-role-not-plain'
        elif not m.is_role_inverted(t[1]) and not m.is_role_inverted(t[1] + '-of'):
            return 'edge-role-not-plain'
        if any(isinstance(e, Push) and e.variable not in vs for e in g.epidata.get(t, [])):
            return 'push-names-non-variable'
    return None


class Ctx(object):
    """Per input graph: which oracles apply."""
    pass


def final_oracle(inf, g, o, case, prog, out, ctx):
    codec, m = inf.codec, inf.m
    where = dict(case, program=list(prog))
    if o.top != g.top:
        out.fails.append(('top', f'top changes from {g.top!r} to {o.top!r}', where))
    inst = collections.Counter(t[0] for t in o.triples if t[1] == INSTANCE)
    badsrc = [t for t in o.triples if not isinstance(t[0], str) or inst[t[0]] != 1]
    if badsrc:
        if ctx.inst_free:
            out.fails.append(('source-not-variable', f'source of {badsrc[0]} is not a variable owning exactly one instance triple', where))
        else:
            out.stats['skipped:source-not-variable(table mentions :instance)'] += 1
    if not is_connected(o):
        if ctx.inst_free:
            out.fails.append(('disconnected', 'the result is not connected from its top', where))
        else:
            out.stats['skipped:disconnected(table mentions :instance)'] += 1
    try:
        text = common.timed(codec.encode, o, seconds=5)
    except common.Timeout:
        out.fails.append(('roundtrip', 'encode of the result does not terminate', where))
        return
    except Exception as e:
        out.fails.append(('roundtrip', f'encode of the result raises {e!r}', where))
        return
    if ctx.rt_off:
        return
    try:
        g2 = common.timed(codec.decode, text, seconds=5)
    except Exception as e:
        out.fails.append(('roundtrip', f'decode of the encoded result raises {e!r}: {text!r}', where))
        return
    if not graph_equal(m, g2, o):
        out.fails.append(('roundtrip', f'decode(encode(result)) differs from the result: {text!r}', where))
    elif (sorted(o.triples, key=sort_key) == deinverted(m, o)[2]
          and sorted(g2.triples, key=sort_key) != deinverted(m, g2)[2]):
        # the result has every edge in deinverted form, and reading deinverts every edge once: what comes back is
        # in deinverted form too (an edge left in its written, inverted form is not `the same graph`)
        out.fails.append(('roundtrip', f'decode(encode(result)) leaves an edge in inverted form: {text!r} -> {g2.triples!r}', where))


def eval_graph(inf, g, case, programs, out, pending, ctx):
    m = inf.m
    wg = c11.graph_txt(g)
    memo = {(): ('ok', g)}
    dups = {(): len(set(g.triples)) != len(g.triples)}      # some graph on the way had two equal triples

    def result(prog):
        if prog in memo:
            return memo[prog]
        prev = result(prog[:-1])
        dups[prog] = dups[prog[:-1]]
        if prev[0] != 'ok':
            memo[prog] = prev
            return prev
        o = impl_out(impl_apply, prog[-1], prev[1], m)
        if o[0] == 'ok':
            step_oracle(inf, prog[-1], prev[1], o[1], case, prog, out, had_dups=dups[prog])
            dups[prog] = dups[prog] or len(set(o[1].triples)) != len(o[1].triples)
        memo[prog] = o
        return o

    for prog in programs:
        o = result(prog)
        pending.append((f'(5 {inf.wm} ({" ".join(map(str, prog))}) {wg})', 'program %s' % list(prog),
                        dict(case, program=list(prog)), o))
        out.stats['programs-of-length-%d' % len(prog)] += 1
        if o[0] != 'ok':
            kind = o[1] if o[0] == 'exc' else 'timeout'
            out.stats[f'exception:{kind}'] += 1
            out.fails.append(('raises', f'{"+".join(NAMES[c] for c in prog)} raises {o[1:] if o[0] == "exc" else "TIMEOUT"}',
                              dict(case, program=list(prog))))
            out.counts.append(((inf.key, case['id'], prog), True))
            continue
        out.counts.append(((inf.key, case['id'], prog), o[1].triples != g.triples))
        final_oracle(inf, g, o[1], case, prog, out, ctx)


def eval_job(inf, job, out, pending):
    """job = (name, provenance, payload, seed, programs)"""
    from penman.tree import Tree
    from penman.graph import Graph
    name, prov, payload, seed, programs = job
    codec, m = inf.codec, inf.m
    stat = out.stats
    stat['generated'] += 1
    case = {'model': c11.model_ref(inf), 'name': name, 'provenance': prov}
    if isinstance(payload, dict):
        g = rebuild_graph(payload)
    elif prov == 'hand':
        ts, top = payload
        g = Graph(ts, top=top)
    else:
        try:
            text = payload if isinstance(payload, str) else codec.format(Tree(payload), indent=None)
            g = common.timed(codec.decode, text, seconds=5)
        except Exception:
            stat['dropped:format-or-decode-error'] += 1
            return
        case['text'] = text
        if prov == 'edited':
            if not (is_wf(g) and is_connected(g)):
                stat['dropped:not-wf-or-connected'] += 1
                return
            g = edit_graph(random.Random(seed), inf, g)
            case['source_text'] = case.pop('text')
    if not g.triples:
        stat['dropped:empty'] += 1
        return
    if not is_wf(g):
        stat['dropped:not-wf'] += 1
        return
    if not is_connected(g):
        stat['dropped:not-connected'] += 1
        return
    ctx = Ctx()
    vs = g.variables()
    ctx.inv_attr = (not inf.tbl['noop']
                    and any(t[1] != INSTANCE and t[2] not in vs and m.is_role_inverted(t[1]) for t in g.triples))
    ctx.stale = stale_push(g)
    ctx.inst_free = table_inst_free(inf)
    if ctx.inv_attr:
        stat['graphs-with-inverted-role-attribute'] += 1
    if ctx.stale:
        stat['graphs-with-stale-push'] += 1
    why = roundtrip_domain(inf, g)
    ctx.rt_off = why is not None
    stat['roundtrip-judged' if why is None else f'roundtrip-not-judged:{why}'] += 1
    if not ctx.inst_free:
        stat['graphs-under-table-mentioning-:instance'] += 1
    if prov != 'decoded':
        case['graph'] = graph_record(g)
    case['id'] = case.get('text') or json.dumps(case['graph'], sort_keys=True)
    stat[f'provenance:{prov}'] += 1
    stat[f'model:{name if name in ("amr", "mini", "default") else "random-table"}'] += 1
    if g._top is not None and g.triples and g._top != g.triples[0][0]:
        stat['graphs-with-top-other-than-first-source'] += 1
    if any(t not in g.epidata for t in g.triples):
        stat['graphs-with-unmarked-triples'] += 1
    if '~' in case.get('text', case.get('source_text', '')):
        stat['graphs-with-alignments'] += 1
    if len(out.samples) < 1 and prov != 'hand' and len(g.triples) > 4:
        out.samples.append(dict((k, v) for k, v in case.items() if k != 'id'))
    eval_graph(inf, g, case, programs, out, pending, ctx)


def batch_worker(batch):
    exe, jobs = batch
    out, pending = c11.Out(), []
    for job in jobs:
        eval_job(c11._INFO[job[0]], job, out, pending)
    for p in pending:
        p[2].pop('id', None)
    for f in out.fails:
        f[2].pop('id', None)
    c11.settle(out, pending, exe)
    return out


# ============================================================================================


def run(chk):
    chk.rule = ('wf connected graphs of three provenances: decoded from text (random trees of depth <= 3 over each model\'s '
                'reifiable roles, -of spellings, plain roles, re-entrancies, alignments, variables/constants _ _2, plus trees '
                'around collapsible nodes), hand-built without any marker (gen.random_connected_graph over str constants, concepts '
                'partly dereifiable, extra nodes shaped like reified relations, shuffled triples, explicit top among the variables '
                'or None), edited (decoded, then 1-3 triples removed/added with the markers kept, or the parent of an inverted branch '
                'deleted and the top moved to the child = stale Push, F29) x programs = every sequence of '
                '<= 3 (quick) / <= 4 (thorough) transforms {reify_edges, dereify_edges, reify_attributes, indicate_branches} with '
                'indicate_branches at most once: all CLI-order subsequences for every graph plus a random sample (quick) / all '
                '(thorough) of the other orders x models {default, AMR live, mini-AMR, random tables incl. ambiguous ones}. '
                'A case is distinct per (model, graph, program) and non-trivial when the program changes the triples. The round trip is '
                'judged up to the single deinversion of edges, and only under the C06 hypotheses (deinverting model, plain roles, '
                'every Push names a variable); all other clauses are judged on every wf connected non-empty graph.')
    chk.require_theorems('Properties.C12', THEOREMS)
    from harness import serialise_theorems
    chk.require_theorems('Properties.C12b', serialise_theorems.THEOREMS_C12)   # composition with the end-to-end theorems
    chk.assumptions.append('connectivity is proved for the declarative notion connectedP; the boolean procedure connected_b '
                           'is proved sound, not complete')
    chk.assumptions.append('the serialisation clause (encode, then decode, gives the graph back up to the model\'s single '
                           'deinversion of edges) is judged by the oracle only, under the hypotheses of C06: the model deinverts, '
                           'every role is plain with an inverted -of spelling, every Push names a variable')
    common.use_repo()
    quick = chk.tier == 'quick'
    rng = chk.rng
    amr = c11.register('amr', models.amr_table(), live=True)
    mini = c11.register('mini', models.MINI_AMR)
    dflt = c11.register('default', models.DEFAULT)
    exe = str(common.build_driver('xform'))
    cli, other = all_programs(3 if quick else 4)
    chk.stat('programs-cli-order', len(cli))
    chk.stat('programs-other-orders', len(other))
    nother = 8

    def programs():
        return cli + (rng.sample(other, nother) if quick else other)

    # thorough runs ALL 262 programs per graph (quick: 14 + 8), so the number of graphs grows only mildly
    n_tab, scale = (160, 1.5) if quick else (240, 2)
    tables = []
    for i in range(n_tab):
        tbl = c11.rich_table(rng) if i % 2 else models.random_table(rng)
        try:
            tables.append(c11.register(f'rand{i}', tbl))
            chk.stat('tables')
        except (ValueError, re.error):
            chk.stat('tables-unsupported')
    plan = [(amr, 1200), (mini, 500), (dflt, 300)] + [(t, 6) for t in tables]
    jobs = []
    # the shapes named by the property text and the findings it cites (F4, F9, F12, F17)
    named = ['(a / x :superset 7)', '(a / x :mod 7)', '(b / y :ARG2-of (w / have-mod-91 :ARG1 7))',
             '(a / x :ARG1-of (w / have-mod-91 :ARG2 7))', '(w / want-01 :ARG0 (b / boy) :ARG1 (g / go-02 :ARG0 b))',
             '(a / x :mod-of (b / y))', '(a / x :mod~1 (b / y~2) :polarity -)', '(a / x :mod _ :quant _2)',
             '(a / x :ARG0 (w / have-mod-91 :ARG1 (b / y) :ARG2 7))', '(c / x :subset c)', '(b / x :subset-of (a / y))']
    # a collapsible node whose far end is an ALIGNED re-entrancy (defined later / earlier / the top): the dereified
    # edge is written inverted with the alignment on the variable, and must be read back deinverted
    named += ['(a / alpha :ARG2-of (_ / have-mod-91 :ARG1 b~2) :ARG0 (b / beta))',
              '(a / alpha :ARG0 (b / beta) :ARG2-of (w / have-mod-91 :ARG1 b~e.3))',
              '(a / alpha :ARG0 (b / beta :ARG1-of (w / have-mod-91 :ARG2 a~1)))',
              '(a / alpha :ARG0 (b / beta) :ARG1 (c / gamma :ARG2-of (w / have-mod-91 :ARG1~4 b~5,6)))']
    # k reified nodes nested on the path that closes at the very end of the text: every dereification leaves one more
    # superfluous POP on the last triple (k = 1..6; a constant, a node, an attribute list at the innermost level)
    for k in range(1, 7):
        for inner in ('7', '(z / zz)', '(z / zz :polarity - :quant 3)'):
            text = inner
            for j in range(k, 0, -1):
                text = '(v%d / x%d :ARG1-of (w%d / have-mod-91 :ARG2 %s))' % (j, j, j, text)
            named.append(text)
    for text in named:
        jobs.append(('amr', 'decoded', text, 0, cli + other if not quick else cli + other[:40]))
    for inf, n in plan:
        n = int(n * scale)
        for _ in range(n):
            jobs.append((inf.name, 'decoded', c11.random_node(rng, inf), 0, programs()))
        for _ in range(n // 3):
            jobs.append((inf.name, 'decoded', c11.collapse_node(rng, inf), 0, programs()))
        for _ in range(n):
            hg = hand_graph(rng, inf)
            if hg is None:
                chk.stat('dropped:hand-built-with-None')
                continue
            jobs.append((inf.name, 'hand', hg, 0, programs()))
        for _ in range(n):
            node = c11.random_node(rng, inf) if rng.random() < .7 else c11.collapse_node(rng, inf)
            jobs.append((inf.name, 'edited', node, rng.getrandbits(48), programs()))
    # the documented construction: a graph built from triples only, explicit top
    for ts, top in [([('b', ':instance', 'bark-01'), ('b', ':ARG0', 'd'), ('d', ':instance', 'dog')], None),
                    ([('d', ':instance', 'dog'), ('b', ':ARG0', 'd'), ('b', ':instance', 'bark-01'), ('b', ':mod', 'x')], 'b'),
                    ([('a', ':instance', 'x'), ('w', ':ARG1', 'a'), ('w', ':instance', 'have-mod-91'), ('w', ':ARG2', '7')], 'a'),
                    ([('w', ':ARG2', '7'), ('w', ':instance', 'have-mod-91'), ('a', ':instance', 'x'), ('w', ':ARG1', 'a')], 'a')]:
        jobs.append(('amr', 'hand', (ts, top), 0, cli + other if not quick else cli + other[:40]))

    # stale Push (F29): decode `(k / x :ARG0-of (b / y ..))`, delete the instance triple of k, move the top to b
    for rec in [{'triples': [['b', ':instance', 'y'], ['b', ':ARG0', 'k']], 'top': 'b',
                 'epidata': [[['b', ':ARG0', 'k'], [['Push', 'b']]], [['b', ':instance', 'y'], [['POP']]]]},
                {'triples': [['b', ':ARG0', 'k'], ['b', ':instance', 'y'], ['b', ':mod', '7'], ['b', ':ARG1', 'c'], ['c', ':instance', 'z']],
                 'top': 'b', 'epidata': [[['k', ':instance', 'x'], []], [['b', ':ARG0', 'k'], [['RAln', [1], None], ['Push', 'b']]],
                                         [['b', ':instance', 'y'], []], [['b', ':mod', '7'], []], [['b', ':ARG1', 'c'], [['Push', 'c']]],
                                         [['c', ':instance', 'z'], [['POP'], ['POP']]]]}]:
        jobs.append(('amr', 'edited', rec, 0, cli + other if not quick else cli + other[:40]))
        jobs.append(('default', 'edited', rec, 0, cli))

    outs = common.pmap(batch_worker, c11.batches(exe, jobs, size=60 if quick else 25), chunk=1)
    c11.merge(chk, outs)
    existing_top_role_stream(chk)
    inplace_edit_stream(chk)
    from harness import c20
    c20.run_family(chk, 'transform', 400 if chk.tier == 'quick' else 4000)   # observed at the command line options


def inplace_edit_stream(chk):
    """EDITED graphs in the literal sense: a decoded graph that was already used (queried, encoded) is edited IN PLACE
    (a variable renamed everywhere, same number of triples); every transform must treat it exactly like a freshly
    built graph with the same data (nothing remembered from before the edit)."""
    import penman
    from penman import transform
    from penman.graph import Graph
    from penman.models.amr import model as amr
    from penman.tree import Tree
    n = 300 if chk.tier == 'quick' else 3000
    roles = [':ARG0', ':ARG1', ':mod', ':quant', ':polarity', ':location', ':ARG0-of', ':time']
    fns = [('reify_edges', lambda g: transform.reify_edges(g, amr)), ('dereify_edges', lambda g: transform.dereify_edges(g, amr)),
           ('reify_attributes', transform.reify_attributes), ('indicate_branches', lambda g: transform.indicate_branches(g, amr))]
    for i in range(n):
        node = gen.random_tree_node(chk.rng, gen.fresh_vars(), maxdepth=chk.rng.choice([1, 2, 3]), wf=True, roles=roles,
                                    atoms=['x', 'y', '-', '"s"', '7'])
        text = penman.format(Tree(node), indent=None)
        try:
            g = penman.decode(text, model=amr)
            if len(set(g.triples)) != len(g.triples) or len(g.variables()) < 2:
                continue
            # use the graph first
            g.variables(), g.edges(), g.attributes(), g.reentrancies(), penman.encode(g, model=amr)
            old = chk.rng.choice(sorted(v for v in g.variables() if v != g.top))
            new = 'zz9'
            ren = lambda t: tuple(new if x == old else x for x in t)       # noqa
            epi = {ren(t): [type(e)(new) if type(e).__name__ == 'Push' and e.variable == old else e for e in es]
                   for t, es in g.epidata.items()}
            g.triples[:] = [ren(t) for t in g.triples]
            g.epidata.clear()
            g.epidata.update(epi)
            fresh = Graph(list(g.triples), top=g._top, epidata={t: list(es) for t, es in g.epidata.items()}, metadata=dict(g.metadata))
        except Exception:      # noqa
            continue
        case = {'stream': 'in-place-edit', 'text': text, 'renamed': [old, new]}
        chk.count(('inplace', text, old))
        for name, f in fns:
            try:
                a = common.canon_graph(common.timed(f, g, seconds=5))
                b = common.canon_graph(common.timed(f, fresh, seconds=5))
            except Exception as e:     # noqa
                chk.fail('raises', f'{name} raised {type(e).__name__} on a graph edited in place', dict(case, transform=name))
                continue
            if a != b:
                chk.fail('history', f'{name} on a graph edited in place differs from the same transform on a freshly built '
                                    'graph with the same triples, top and markers', dict(case, transform=name))
        chk.stat('in-place-edited')


def existing_top_role_stream(chk):
    """indicate_branches on texts that ALREADY use the top role between a parent and a nested node or
    re-entrancy: exactly one top-role triple must still be added per nested node (count law only; such
    inputs can make the result contain equal triples, so the other clauses are not judged here)."""
    import penman
    from penman import transform
    from penman.layout import Push
    from penman.model import Model
    from penman.tree import Tree
    m = Model()
    n = 600 if chk.tier == 'quick' else 6000
    roles = [':TOP', ':TOP', ':ARG0', ':ARG1', ':mod', ':TOP-of', ':ARG0-of']
    for i in range(n):
        node = gen.random_tree_node(chk.rng, gen.fresh_vars(), maxdepth=chk.rng.choice([1, 2, 3]), wf=True, roles=roles,
                                    atoms=['x', 'y', '"s"'])
        text = penman.format(Tree(node), indent=None)
        case = {'stream': 'existing-top-role', 'text': text}
        chk.count(('toprole', text))
        try:
            h = common.timed(penman.decode, text, seconds=5)
            o = common.timed(transform.indicate_branches, h, m, seconds=5)
        except Exception as e:       # noqa
            chk.fail('raises', f'{type(e).__name__} from indicate_branches on a decoded graph that uses the top role', case)
            continue
        hv = h.variables()
        want = 0
        for t in h.triples:
            p = next((e for e in h.epidata.get(t, []) if isinstance(e, Push)), None)
            if p is not None and (p.variable == t[2] or (p.variable == t[0] and t[2] in hv)):
                want += 1
        got = sum(1 for t in o.triples if t[1] == m.top_role) - sum(1 for t in h.triples if t[1] == m.top_role)
        chk.stat('existing-top-role:' + ('has-top-edge' if any(t[1] == m.top_role for t in h.triples) else 'plain'))
        if got != want:
            chk.fail('indicate', f'indicate_branches added {got} {m.top_role} triples for {want} nested nodes '
                                 'on a graph that already uses the top role', case)


# ============================================================================================


def replay(obj):
    """Re-run the failing (graph, program) on the implementation and show every step."""
    common.use_repo()
    case = obj.get('case') or {}
    print('replay case:', json.dumps(case, default=str))
    print('recorded   :', obj.get('key'), '-', obj.get('what'))
    inf = c11.case_model(case)
    m, codec = inf.m, inf.codec
    if 'graph' in case:
        g = rebuild_graph(case['graph'])
    else:
        g = codec.decode(case['text'])
    print('g.triples  :', g.triples, ' top', g.top, '(explicit %r)' % (g._top,))
    print('g.epidata  :', dict(g.epidata))
    print('wf:', is_wf(g), ' connected:', is_connected(g))
    h = g
    for i, code in enumerate(case.get('program', [])):
        try:
            h = common.timed(impl_apply, code, h, m, seconds=10)
        except common.Timeout:
            print(f'step {i + 1} {NAMES[code]}: TIMEOUT')
            return 0
        except Exception as e:
            print(f'step {i + 1} {NAMES[code]}: raises {e!r}')
            return 0
        print(f'step {i + 1} {NAMES[code]}: top {h.top!r} triples {h.triples}')
        print('            epidata', dict(h.epidata))
    inst = collections.Counter(t[0] for t in h.triples if t[1] == INSTANCE)
    print('top kept   :', h.top == g.top, ' sources ok:', all(isinstance(t[0], str) and inst[t[0]] == 1 for t in h.triples),
          ' connected:', is_connected(h))
    try:
        text = codec.encode(h, indent=None)
        print('encode     :', text)
        g2 = codec.decode(text)
        print('decode     :', g2.triples, ' equal up to deinversion of edges:', graph_equal(m, g2, h))
    except Exception as e:
        print('round trip raises', repr(e))
    return 0
