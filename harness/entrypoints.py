"""Every public entry point of one operation must behave the same (module-level functions,
PENMANCodec methods, the one-graph and the stream variants).  Shared by several checks: a change
made in a wrapper (codec.py, __init__ re-exports) instead of in the core function shows here."""
from harness import common


def _node(n):
    var, bs = n
    return [var, [[r, _node(t) if isinstance(t, tuple) else t] for r, t in bs]]


def _call(fn, *args):
    import penman
    try:
        return ('ok', common.timed(fn, *args, seconds=5))
    except penman.DecodeError as e:
        return ('DecodeError', e.lineno, e.offset, e.text)
    except common.Timeout:
        return ('Timeout',)
    except Exception as e:       # noqa
        return (type(e).__name__,)


def _tree(r):
    if r[0] != 'ok':
        return r
    t = r[1]
    return ('ok', _node(t.node), dict(t.metadata))


def parse_variants(s):
    """{entry point: outcome} for parsing the FIRST graph of a text."""
    import penman
    from penman.codec import PENMANCodec
    c = PENMANCodec()
    out = {
        'penman.parse': _tree(_call(penman.parse, s)),
        'PENMANCodec.parse': _tree(_call(c.parse, s)),
        'penman.iterparse[0]': _tree(_call(lambda: next(iter(penman.iterparse(s))))),
        'PENMANCodec.iterparse[0]': _tree(_call(lambda: next(iter(c.iterparse(s))))),
    }
    return out


def triples_variants(s):
    import penman
    from penman.codec import PENMANCodec
    c = PENMANCodec()
    f = lambda r: r if r[0] != 'ok' else ('ok', [list(t) for t in r[1]])    # noqa
    return {'penman.parse_triples': f(_call(penman.parse_triples, s)),
            'PENMANCodec.parse_triples': f(_call(c.parse_triples, s))}


def format_variants(tree, indent, compact):
    import penman
    from penman.codec import PENMANCodec
    c = PENMANCodec()
    return {'penman.format': _call(penman.format, tree, indent, compact),
            'PENMANCodec.format': _call(c.format, tree, indent, compact)}


def format_triples_variants(triples, indent):
    import penman
    from penman.codec import PENMANCodec
    c = PENMANCodec()
    return {'penman.format_triples': _call(penman.format_triples, triples, indent),
            'PENMANCodec.format_triples': _call(c.format_triples, triples, indent)}


def decode_variants(s, model):
    """{entry point: outcome} for decoding the first graph of a text under one model."""
    import penman
    from penman.codec import PENMANCodec
    c = PENMANCodec(model=model)

    def g(r):
        return r if r[0] != 'ok' else ('ok', common.canon_graph(r[1]))
    return {
        'penman.decode': g(_call(penman.decode, s, model)),
        'PENMANCodec.decode': g(_call(c.decode, s)),
        'penman.iterdecode[0]': g(_call(lambda: next(iter(penman.iterdecode(s, model=model))))),
        'PENMANCodec.iterdecode[0]': g(_call(lambda: next(iter(c.iterdecode(s))))),
    }


def disagreement(variants, empty_ok=True):
    """None if all outcomes are equal, else a short description.  A StopIteration from the
    stream variants on an input without any graph start is equivalent to the DecodeError at
    (0,0)/(end) of the one-graph variants only when `empty_ok`: those cases are skipped."""
    vals = list(variants.items())
    ref_name, ref = vals[0]
    for name, v in vals[1:]:
        if v != ref:
            if empty_ok and ('StopIteration',) in (v, ref):
                continue
            return f'{name} gives {str(v)[:160]} but {ref_name} gives {str(ref)[:160]}'
    return None
