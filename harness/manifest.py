"""Writes /verif/MANIFEST.json from the per-property registry below."""
import json
from pathlib import Path

VERIF = Path(__file__).resolve().parent.parent

TB = ('Trusted: Coq 8.16.1 kernel + vm_compute (no native_compute); no axioms (Print Assumptions checked each run); '
      'extraction (ExtrOcamlBasic only) + OCaml driver glue; hand-written Gallina mirror of the Python tied to /repo only by '
      'the differential correspondence run; harness/gen_tables.py; CPython semantics of re/json/str/dict/sorted.')

CLAIMED = {
    'C13': dict(
        category='proof',
        text='Every clause of the role algebra is a Coq theorem over an ARBITRARY role-membership predicate (= every model) '
             'and every role string, incl. termination of the canonicalisation loop; hypotheses (of_free, norm_closed, "/-of" undefined) '
             'are re-proved for the tables currently in models/amr.py by verified checkers. The extracted model is compared with '
             'penman.model.Model on the role grid x {default, live AMR, no-op, mini-AMR, random tables}, and each law is evaluated '
             'on the implementation itself as the search for a failing input.',
        design_ref='DESIGN.md §5 C13',
        note=TB + ' Idempotence of full canonicalisation needs a closed normalisation table (F19, known finding, refuted-lemma in Properties/C13.v); '
             'role patterns are restricted to literals, [a-b] and [a-b]+ (anything else fails closed); roles containing a newline are outside the model.',
        technique='Coq proof (induction on loop fuel, verified table checkers) + extracted-model differential correspondence + law oracle on the implementation',
    ),
}

CLAIMED['C17'] = dict(
    category='exploration',
    text='Purity/determinism is runtime behaviour: every call documented as returning a new object is run on shared arguments with deep '
         'structural snapshots before/after, repeated, interleaved in random 12-call sequences, on deep-copied and pickled arguments, and '
         'recomputed under PYTHONHASHSEED 0..3 and 12345 in separate processes and in a spawn worker; CLI bytes are compared across hash seeds. '
         'The part a Gallina model can carry — independence of every Python set-iteration order (nodemap key order in configure, deletion order '
         'in Graph.__isub__, sorted(unreachable) in Model.errors, variables()) — is stated and proved in coq/Properties/C17.v when present.',
    design_ref='DESIGN.md §5 C17',
    note=TB + ' Gallina functions are pure by construction, so argument preservation and process/hash-seed independence are explored, not proved; '
         'thread interleavings and OS effects are outside.',
    technique='snapshot/differential exploration of all public calls across hash seeds and processes + Coq theorems on set-iteration-order independence',
)
CLAIMED['C20'] = dict(
    category='exploration',
    text='The tool (python -m penman, real subprocesses for 1 case in 8, penman.__main__.main() in workers for the rest) is compared byte-for-byte '
         'and by exit status with an independent reference pipeline written from docs/command.rst over random option subsets x models x '
         'stdin/files; second-pass byte idempotence for stable option sets; content preservation without normalisation options; '
         'formatting options never change content.',
    design_ref='DESIGN.md §5 C20',
    note=TB + ' argparse, files, encodings and stdout are outside any model; idempotence is checked under C10\'s proviso (no constant spelled like a new variable) '
         'and for well-formed input (distinct triples).',
    technique='differential exploration: CLI vs documented library pipeline, second-pass idempotence (Coq model of the CLI plumbing to follow)',
)

UNDER_CONSTRUCTION = {}


def main():
    props = [json.loads(l) for l in open(VERIF / 'properties.jsonl')]
    checks, na = [], []
    for p in props:
        pid = p['id']
        if pid in CLAIMED:
            c = CLAIMED[pid]
            checks.append({
                'property_id': pid,
                'quick_cmd': f'./check {pid} --tier quick',
                'thorough_cmd': f'./check {pid} --tier thorough',
                'evidence_file': f'/verif/evidence/{pid}.json',
                'replay_cmd_template': f'./check {pid} --replay {{path}}',
                'engine': 'coq-penman',
                'level_claimed': {'category': c['category'], 'text': c['text'], 'design_ref': c['design_ref']},
                'level_note': c['note'],
                'technique': c['technique'],
            })
        else:
            na.append({'property_id': pid,
                       'reason': UNDER_CONSTRUCTION.get(pid, 'check not built yet in this round (the property is in scope of the Coq approach; see DESIGN.md §5)')})
    m = {
        'version': 1,
        'setup_cmd': './setup.sh',
        'hooks': {
            'guard': 'PENMAN_VERIF',
            'enable': 'no hooks are needed: every observable is reachable through the public API and `python -m penman`; PENMAN_VERIF is reserved and unused',
            'baseline_off_cmd': 'cd /repo && /venv/bin/python -m pytest -ra -q -p no:cacheprovider --timeout=900 --continue-on-collection-errors',
            'source_commits': [],
            'add_only': True,
        },
        'engines': [{
            'name': 'coq-penman', 'path': '/verif/coq',
            'serves_properties': [c['property_id'] for c in checks],
            'kind_free_text': 'Coq 8.16.1 development (Impl = Gallina mirror of penman, Spec, Proofs, Properties) + extracted OCaml drivers + Python differential harness',
        }],
        'checks': checks,
        'not_applicable': na,
        'notes': 'Genuine defects found while building the proofs were repaired in /repo as separate "fix:" commits (listed in known_findings.json under "fixed"); F19 is the only open known finding.',
    }
    (VERIF / 'MANIFEST.json').write_text(json.dumps(m, indent=1))
    print('claimed', len(checks), 'not_applicable', len(na))


if __name__ == '__main__':
    main()
