"""Writes /verif/MANIFEST.json from the per-property registry below."""
import json
from pathlib import Path

VERIF = Path(__file__).resolve().parent.parent

TB = ('Trusted: Coq 8.16.1 kernel + vm_compute (no native_compute); no axioms (Print Assumptions checked each run); '
      'extraction (ExtrOcamlBasic only) + OCaml driver glue; hand-written Gallina mirror of the Python tied to /repo only by '
      'the differential correspondence run; harness/gen_tables.py; CPython semantics of re/json/str/dict/sorted.')

CLAIMED = {
    'C13': dict(
        category='proof',
        text='Every clause of the role algebra is a Coq theorem over an ARBITRARY role-membership predicate (= every model) '
             'and every role string, incl. termination of the canonicalisation loop; hypotheses (of_free, norm_closed, "/-of" undefined) '
             'are re-proved for the tables currently in models/amr.py by verified checkers. The extracted model is compared with '
             'penman.model.Model on the role grid x {default, live AMR, no-op, mini-AMR, random tables}, and each law is evaluated '
             'on the implementation itself as the search for a failing input.',
        design_ref='DESIGN.md §5 C13',
        note=TB + ' Idempotence of full canonicalisation needs a closed normalisation table (F19, known finding, refuted-lemma in Properties/C13.v); '
             'role patterns are restricted to literals, [a-b] and [a-b]+ (anything else fails closed); roles containing a newline are outside the model.',
        technique='Coq proof (induction on loop fuel, verified table checkers) + extracted-model differential correspondence + law oracle on the implementation',
    ),
}

CLAIMED['C17'] = dict(
    category='exploration',
    text='Purity/determinism is runtime behaviour: every call documented as returning a new object is run on shared arguments with deep '
         'structural snapshots before/after, repeated, interleaved in random 12-call sequences, on deep-copied and pickled arguments, and '
         'recomputed under PYTHONHASHSEED 0..3 and 12345 in separate processes and in a spawn worker; CLI bytes are compared across hash seeds. '
         'The part a Gallina model can carry — independence of every Python set-iteration order (nodemap key order in configure, deletion order '
         'in Graph.__isub__, sorted(unreachable) in Model.errors, variables()) — is stated and proved in coq/Properties/C17.v when present.',
    design_ref='DESIGN.md §5 C17',
    note=TB + ' Gallina functions are pure by construction, so argument preservation and process/hash-seed independence are explored, not proved; '
         'thread interleavings and OS effects are outside.',
    technique='snapshot/differential exploration of all public calls across hash seeds and processes + Coq theorems on set-iteration-order independence',
)
CLAIMED['C20'] = dict(
    category='exploration',
    text='The tool (python -m penman, real subprocesses for 1 case in 8, penman.__main__.main() in workers for the rest) is compared byte-for-byte '
         'and by exit status with an independent reference pipeline written from docs/command.rst over random option subsets x models x '
         'stdin/files; second-pass byte idempotence for stable option sets; content preservation without normalisation options; '
         'formatting options never change content.',
    design_ref='DESIGN.md §5 C20',
    note=TB + ' argparse, files, encodings and stdout are outside any model; idempotence is checked under C10\'s proviso (no constant spelled like a new variable) '
         'and for well-formed input (distinct triples).',
    technique='differential exploration: CLI vs documented library pipeline, second-pass idempotence (Coq model of the CLI plumbing to follow)',
)

CLAIMED['C04'] = dict(
    category='proof',
    text='Coq theorem (closed under the global context): for EVERY tree and EVERY model the Gallina mirror of layout.interpret equals an '
         'independently written reference reading of the notation (Spec/Reading.v, from docs/notation.rst + structures.rst): same error, or same top, '
         'ordered triples, variable set, both alignment maps and the whole epigraph; corollaries: triple count, no-op never deinverts, orientation law, '
         '"~" inside a string is content, Push/POP placement. The oracle compares the IMPLEMENTATION with the extracted SPEC (not with the model of interpret), '
         'so compensating errors in decode/encode cannot hide.',
    design_ref='DESIGN.md §5 C04',
    note=TB + ' AlignmentMarker.from_string and the role predicates are vocabulary shared by spec and model; numbers are modelled by text and truthiness only; '
         'quick: ~50k trees x 16 models (default, live AMR, no-op, mini-AMR, random tables), parsed + hand-built + bounded-exhaustive, incl. ill-formed trees.',
    technique='Coq proof by nested induction on trees (interpret = reference reading) + differential correspondence + spec-vs-implementation oracle',
)
CLAIMED['C14'] = dict(
    category='proof',
    text='Coq theorems: for every tree satisfying wf_layout_tree (truthy variables, coloned roles, no :instance-of branch, pairwise distinct triples, '
         'parseable alignments) node_contexts of the decoded graph is exactly the writing node of each triple (never unknown), get_pushed_variable is the '
         'opened nested node, appears_inverted equals written-inverted for triples with distinct ends (marker-stack simulation over the tree); for ANY graph '
         'with empty epidata the three diagnostics are characterised exactly and are total. Hypotheses are shown necessary by machine-checked counterexamples.',
    design_ref='DESIGN.md §5 C14',
    note=TB + ' totality in the model corresponds to "no KeyError/IndexError", which the harness checks on the implementation for marker-less and damaged-marker graphs; '
         'quick: ~12k decoded wf trees (chains to depth 60, concept-less nodes, inverted re-entrancies) x {default, AMR}.',
    technique='Coq proof (stack simulation by induction on the tree) + differential correspondence + reading-vs-implementation oracle',
)
CLAIMED['C08'] = dict(
    category='proof',
    text='Coq theorems for any alternation order containing UNEXPECTED (both shipped patterns are instances): the tokens of every line tile it '
         '(ordered, disjoint, exact text/column/line number, gaps only the six ASCII blanks, every non-blank covered, fuel sufficient); every scanner is '
         'sound AND complete for its declarative class language with greedy right context; each token is the first-class lexeme at its offset; line numbering '
         'from 1 and splitting at exactly LF / CRLF / CR with an inverse (interleave) lemma; non-ASCII blanks are content.',
    design_ref='DESIGN.md §5 C08',
    note=TB + ' CPython re semantics for the nine patterns are modelled by hand-written scanners; tie to penman._lexer.lex is differential: quick = ALL strings '
         'of length <= 4 over a 28-symbol alphabet x both patterns x str / list-of-lines containers (3.6M lexes, type+text+lineno+offset), thorough to length 5; '
         'the oracle re-derives tiling and class from the implementation tokens with an independent hand-written grammar.',
    technique='Coq proof (scanner = relational lexical grammar, tiling invariant) + bounded-exhaustive differential correspondence + independent tiling/class oracle',
)

CLAIMED['C18'] = dict(
    category='proof',
    text='Coq theorems on an executable model of penman/constant.py (incl. a complete recogniser of what CPython json.loads accepts) and the lexer: for EVERY '
         'string the quoted text is exactly one STRING token under both token tables and is printable ASCII; for every string of Unicode scalar values '
         'evaluate(quote x) = x and type = String (\\uXXXX and surrogate pairs included); evaluate/type are total (fuel proved sufficient), return int/float '
         'exactly for a declarative JSON-number grammar (modulo the 4300-digit int limit, which yields a symbol), None exactly for empty/None, never a bool '
         '(bare or blank-padded true/false/null are symbols), and type always agrees with the evaluated value.',
    design_ref='DESIGN.md §5 C18',
    note=TB + ' number VALUES are not modelled (only their kind); json/re of CPython 3.12 are modelled, not verified; adjacent lone surrogates are outside the '
         'round-trip clause (N5, proved necessary); JSON nesting beyond the interpreter recursion limit is outside the model; quick = 0.54M differential cases '
         '(strings <= 3 over 20 symbols, atom texts <= 4 over 25 symbols, 120k random JSON-like texts, the 4300/4301-digit boundary) + in-kernel cross-check.',
    technique='Coq proof (escape/unescape inversion, JSON recogniser vs declarative grammar) + bounded-exhaustive differential correspondence + law oracle',
)

CLAIMED['C15'] = dict(
    category='proof',
    text='26 Coq theorems (closed under the global context) over an executable mirror of penman/graph.py, for ALL triple lists, tops, epidata dicts and '
         'metadata: the three-way partition with order, edge/filter/top/set-top/re-entrancy specifications, union and difference as order-preserving set '
         'operations with exact marker and dict-key-order behaviour, in-place = pure forms, and the set-algebra law for EVERY finite sequence of | |= - -= '
         '(induction on the sequence). Tied to the code by a bounded-exhaustive differential run (all graphs of <= 3 triples x 4 tops, all pairs, op sequences; '
         '~1M comparisons incl. dict order) and an independent oracle with before/after operand snapshots and a two-hash-seed union comparison.',
    design_ref='DESIGN.md §5 C15',
    note=TB + ' numeric atoms (0 == 0.0) and non-string roles are outside the domain; epidata statements assume distinct dict keys (shown preserved); '
         '"operands untouched" is checked by deep snapshots on the implementation (trivial in Gallina); noted hazard that violates nothing: a|b shares marker lists with b.',
    technique='Coq proof (filters/permutations, induction on operation sequences) + bounded-exhaustive differential correspondence + law oracle',
)

CLAIMED['C07'] = dict(
    category='proof',
    text='Coq theorems over token lists: the parser model is sound and complete for an inductive grammar of the documented PEG plus its three robustness '
         'extensions (deterministic split), and is proved EQUAL — acceptance, tree, unread tokens and line/column in one equation — to an independent fuel-free '
         'pushdown recogniser, which is the oracle run on the implementation\'s own tokens; for ALL token lists and ALL strings parse, iterparse and parse_triples '
         'end in a result or DecodeErr within the model\'s fuel (termination + every next() guarded); a parse error sits at the first token after which no '
         'derivation can continue, or at the end of the last token ((0,0) on empty input).',
    design_ref='DESIGN.md §5 C07',
    note=TB + ' theorems are about token lists (that the lexer emits the documented tokens is C08); the parse_triples error POSITION is checked by correspondence and a '
         'Python token-class automaton only; the 200-level bound is CPython\'s stack: the check parses depths 1..200 in four shapes without RecursionError; '
         'quick = all strings <= 4 over 16 symbols, all token-type sequences <= 6, random noisy/long/Unicode/nested texts (0.62M comparisons).',
    technique='Coq proof (parser = inductive grammar = pushdown recogniser; fuel sufficiency) + bounded-exhaustive differential correspondence + extracted-recogniser oracle',
)
CLAIMED['C19'] = dict(
    category='proof',
    text='Coq theorem at STRING level (through the TRIPLE_RE lexer model): for every non-empty list of well-formed conjunction triples and both line styles '
         'parse_triples(format_triples(ts, indent)) = ts, every role keeps its colon, and every comma / caret spacing variant parses to the same list '
         '(over token sequences, plus the eight test-suite variants by computation); boundary cases (comma in source, newline in string, anonymous role) are '
         'stated as rejected examples.',
    design_ref='DESIGN.md §5 C19',
    note=TB + ' wf_conj_triple: source without comma, no symbol starting with "#", role with exactly one leading colon and a non-empty name, non-None target; quoted '
         'strings may contain anything but CR/LF (lex splits lines first); numbers are compared by str() text; quick = 25k lists x indents x spacing variants.',
    technique='Coq proof (lexing lemmas for the written text, induction on the triple list) + differential correspondence + round-trip oracle on the implementation',
)

UNDER_CONSTRUCTION = {}


def main():
    props = [json.loads(l) for l in open(VERIF / 'properties.jsonl')]
    checks, na = [], []
    for p in props:
        pid = p['id']
        if pid in CLAIMED:
            c = CLAIMED[pid]
            checks.append({
                'property_id': pid,
                'quick_cmd': f'./check {pid} --tier quick',
                'thorough_cmd': f'./check {pid} --tier thorough',
                'evidence_file': f'/verif/evidence/{pid}.json',
                'replay_cmd_template': f'./check {pid} --replay {{path}}',
                'engine': 'coq-penman',
                'level_claimed': {'category': c['category'], 'text': c['text'], 'design_ref': c['design_ref']},
                'level_note': c['note'],
                'technique': c['technique'],
            })
        else:
            na.append({'property_id': pid,
                       'reason': UNDER_CONSTRUCTION.get(pid, 'check not built yet in this round (the property is in scope of the Coq approach; see DESIGN.md §5)')})
    m = {
        'version': 1,
        'setup_cmd': './setup.sh',
        'hooks': {
            'guard': 'PENMAN_VERIF',
            'enable': 'no hooks are needed: every observable is reachable through the public API and `python -m penman`; PENMAN_VERIF is reserved and unused',
            'baseline_off_cmd': 'cd /repo && /venv/bin/python -m pytest -ra -q -p no:cacheprovider --timeout=900 --continue-on-collection-errors',
            'source_commits': [],
            'add_only': True,
        },
        'engines': [{
            'name': 'coq-penman', 'path': '/verif/coq',
            'serves_properties': [c['property_id'] for c in checks],
            'kind_free_text': 'Coq 8.16.1 development (Impl = Gallina mirror of penman, Spec, Proofs, Properties) + extracted OCaml drivers + Python differential harness',
        }],
        'checks': checks,
        'not_applicable': na,
        'notes': 'Genuine defects found while building the proofs were repaired in /repo as separate "fix:" commits (listed in known_findings.json under "fixed"); F19 is the only open known finding.',
    }
    (VERIF / 'MANIFEST.json').write_text(json.dumps(m, indent=1))
    print('claimed', len(checks), 'not_applicable', len(na))


if __name__ == '__main__':
    main()
