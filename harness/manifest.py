"""Writes /verif/MANIFEST.json from the per-property registry below."""
import json
from pathlib import Path

VERIF = Path(__file__).resolve().parent.parent

TB = ('Trusted: Coq 8.16.1 kernel + vm_compute (no native_compute); no axioms (Print Assumptions checked each run); '
      'extraction (ExtrOcamlBasic only) + OCaml driver glue; hand-written Gallina mirror of the Python tied to /repo only by '
      'the differential correspondence run; harness/gen_tables.py; CPython semantics of re/json/str/dict/sorted.')

CLAIMED = {
    'C13': dict(
        category='proof',
        text='Every clause of the role algebra is a Coq theorem over an ARBITRARY role-membership predicate (= every model) '
             'and every role string, incl. termination of the canonicalisation loop; hypotheses (of_free, norm_closed, "/-of" undefined) '
             'are re-proved for the tables currently in models/amr.py by verified checkers. The extracted model is compared with '
             'penman.model.Model on the role grid x {default, live AMR, no-op, mini-AMR, random tables}, and each law is evaluated '
             'on the implementation itself as the search for a failing input.',
        design_ref='DESIGN.md §5 C13',
        note=TB + ' Idempotence of full canonicalisation needs a closed normalisation table (F19, known finding, refuted-lemma in Properties/C13.v); '
             'role patterns are restricted to literals, [a-b] and [a-b]+ (anything else fails closed); roles containing a newline are outside the model.',
        technique='Coq proof (induction on loop fuel, verified table checkers) + extracted-model differential correspondence + law oracle on the implementation',
    ),
}

CLAIMED['C17'] = dict(
    category='exploration',
    text='Purity/determinism is runtime behaviour: every call documented as returning a new object is run on shared arguments with deep '
         'structural snapshots before/after, repeated, interleaved in random 12-call sequences, on deep-copied and pickled arguments, and '
         'recomputed under PYTHONHASHSEED 0..3 and 12345 in separate processes and in a spawn worker; CLI bytes are compared across hash seeds. '
         'The part a Gallina model can carry — independence of every Python set-iteration order (nodemap key order in configure, deletion order '
         'in Graph.__isub__, sorted(unreachable) in Model.errors, variables()) — is stated and proved in coq/Properties/C17.v when present.',
    design_ref='DESIGN.md §5 C17',
    note=TB + ' Gallina functions are pure by construction, so argument preservation and process/hash-seed independence are explored, not proved; '
         'thread interleavings and OS effects are outside.',
    technique='snapshot/differential exploration of all public calls across hash seeds and processes + Coq theorems on set-iteration-order independence',
)
CLAIMED['C20'] = dict(
    category='proof',
    text='Coq theorems about a model of the command\'s plumbing (main, process with the shared first-flag state, _process_in/_check/_process_out, _make_sort_key through '
         'key tables PINNED from the current source): it equals the documented per-tree pipeline — one output graph per input graph in order, blank-line framing, n files = '
         'their concatenation (F18), exit status iff --check finds errors, failure iff a stage, a parse or a key lookup fails; formatting options do not change the formatted '
         'tree, its tokens or the status; byte idempotence is proved for streams with no normalisation option, for --canonicalize-roles alone, and (Properties/C20b.v) for --rearrange with any pure keys, '
         '--make-variables with an indexed format, and both together; for --reify-edges / --dereify-edges / --reify-attributes — with --canonicalize-roles, or with --rearrange and/or --make-variables — (Properties/C20c.v) it is proved under DECIDABLE '
         'certificates on what the first pass wrote (well formed, a layout tree, C10 provisos for the new names, nothing reifiable / collapsible / no attribute left after interpretation), which the harness evaluates through the extracted '
         'definitions on every case of that option family (about 90 % of generated cases are certified; the certificate is false on the machine-checked F30, F32 and F33 witnesses); both reifications are idempotent at graph level; '
         'it is reduced to a per-tree fixed point for every other non-triples option set. The tool itself (real subprocesses + main() in workers) is compared byte-for-byte and by exit status with the '
         'extracted model AND with an independent reference pipeline written from docs/command.rst, plus second-pass idempotence, content and format-invariance oracles.',
    design_ref='DESIGN.md §5 C20',
    note=TB + ' partial: idempotence of --canonicalize-roles combined with --rearrange / --make-variables, and of reify-option '
         'runs whose first-pass output fails the certificates is covered only by the oracle (--reconfigure and --indicate-branches are excluded by the property itself) (3000 + 500 runs quick, 40000 + 5000 thorough) — the exceptions found are the open known findings F30, F32 and F33; the model starts after argparse (-q/-v, encodings, file I/O, the random key '
         'are outside; on failing runs only "fails" is compared); idempotence is checked under C10\'s proviso (no constant spelled like a new variable) and for well-formed input.',
    technique='Coq proof (CLI plumbing = documented pipeline; pinned key tables) + differential correspondence with python -m penman + reference-pipeline and idempotence oracles',
)
CLAIMED['C04'] = dict(
    category='proof',
    text='Coq theorem (closed under the global context): for EVERY tree and EVERY model the Gallina mirror of layout.interpret equals an '
         'independently written reference reading of the notation (Spec/Reading.v, from docs/notation.rst + structures.rst): same error, or same top, '
         'ordered triples, variable set, both alignment maps and the whole epigraph; corollaries: triple count, no-op never deinverts, orientation law, '
         '"~" inside a string is content, Push/POP placement. The oracle compares the IMPLEMENTATION with the extracted SPEC (not with the model of interpret), '
         'so compensating errors in decode/encode cannot hide.',
    design_ref='DESIGN.md §5 C04',
    note=TB + ' AlignmentMarker.from_string and the role predicates are vocabulary shared by spec and model; numbers are modelled by text and truthiness only; '
         'quick: ~50k trees x 16 models (default, live AMR, no-op, mini-AMR, random tables), parsed + hand-built + bounded-exhaustive, incl. ill-formed trees.',
    technique='Coq proof by nested induction on trees (interpret = reference reading) + differential correspondence + spec-vs-implementation oracle',
)
CLAIMED['C14'] = dict(
    category='proof',
    text='Coq theorems: for every tree satisfying wf_layout_tree (truthy variables, coloned roles, no :instance-of branch, pairwise distinct triples, '
         'parseable alignments) node_contexts of the decoded graph is exactly the writing node of each triple (never unknown), get_pushed_variable is the '
         'opened nested node, appears_inverted equals written-inverted for triples with distinct ends (marker-stack simulation over the tree); for ANY graph '
         'with empty epidata the three diagnostics are characterised exactly and are total. Hypotheses are shown necessary by machine-checked counterexamples.',
    design_ref='DESIGN.md §5 C14',
    note=TB + ' totality in the model corresponds to "no KeyError/IndexError", which the harness checks on the implementation for marker-less and damaged-marker graphs; '
         'quick: ~12k decoded wf trees (chains to depth 60, concept-less nodes, inverted re-entrancies) x {default, AMR}.',
    technique='Coq proof (stack simulation by induction on the tree) + differential correspondence + reading-vs-implementation oracle',
)
CLAIMED['C08'] = dict(
    category='proof',
    text='Coq theorems for any alternation order containing UNEXPECTED (both shipped patterns are instances): the tokens of every line tile it '
         '(ordered, disjoint, exact text/column/line number, gaps only the six ASCII blanks, every non-blank covered, fuel sufficient); every scanner is '
         'sound AND complete for its declarative class language with greedy right context; each token is the first-class lexeme at its offset; line numbering '
         'from 1 and splitting at exactly LF / CRLF / CR with an inverse (interleave) lemma; non-ASCII blanks are content.',
    design_ref='DESIGN.md §5 C08',
    note=TB + ' CPython re semantics for the nine patterns are modelled by hand-written scanners; tie to penman._lexer.lex is differential: quick = ALL strings '
         'of length <= 4 over a 28-symbol alphabet x both patterns x str / list-of-lines containers (3.6M lexes, type+text+lineno+offset), thorough to length 5; '
         'the oracle re-derives tiling and class from the implementation tokens with an independent hand-written grammar.',
    technique='Coq proof (scanner = relational lexical grammar, tiling invariant) + bounded-exhaustive differential correspondence + independent tiling/class oracle',
)

CLAIMED['C18'] = dict(
    category='proof',
    text='Coq theorems on an executable model of penman/constant.py (incl. a complete recogniser of what CPython json.loads accepts) and the lexer: for EVERY '
         'string the quoted text is exactly one STRING token under both token tables and is printable ASCII; for every string of Unicode scalar values '
         'evaluate(quote x) = x and type = String (\\uXXXX and surrogate pairs included); evaluate/type are total (fuel proved sufficient), return int/float '
         'exactly for a declarative JSON-number grammar (modulo the 4300-digit int limit, which yields a symbol), None exactly for empty/None, never a bool '
         '(bare or blank-padded true/false/null are symbols), and type always agrees with the evaluated value.',
    design_ref='DESIGN.md §5 C18',
    note=TB + ' number VALUES are not modelled (only their kind); json/re of CPython 3.12 are modelled, not verified; adjacent lone surrogates are outside the '
         'round-trip clause (N5, proved necessary); JSON nesting beyond the interpreter recursion limit is outside the model; quick = 0.54M differential cases '
         '(strings <= 3 over 20 symbols, atom texts <= 4 over 25 symbols, 120k random JSON-like texts, the 4300/4301-digit boundary) + in-kernel cross-check.',
    technique='Coq proof (escape/unescape inversion, JSON recogniser vs declarative grammar) + bounded-exhaustive differential correspondence + law oracle',
)

CLAIMED['C15'] = dict(
    category='proof',
    text='26 Coq theorems (closed under the global context) over an executable mirror of penman/graph.py, for ALL triple lists, tops, epidata dicts and '
         'metadata: the three-way partition with order, edge/filter/top/set-top/re-entrancy specifications, union and difference as order-preserving set '
         'operations with exact marker and dict-key-order behaviour, in-place = pure forms, and the set-algebra law for EVERY finite sequence of | |= - -= '
         '(induction on the sequence). Tied to the code by a bounded-exhaustive differential run (all graphs of <= 3 triples x 4 tops, all pairs, op sequences; '
         '~1M comparisons incl. dict order) and an independent oracle with before/after operand snapshots and a two-hash-seed union comparison.',
    design_ref='DESIGN.md §5 C15',
    note=TB + ' numeric atoms (0 == 0.0) and non-string roles are outside the domain; epidata statements assume distinct dict keys (shown preserved); '
         '"operands untouched" is checked by deep snapshots on the implementation (trivial in Gallina); noted hazard that violates nothing: a|b shares marker lists with b.',
    technique='Coq proof (filters/permutations, induction on operation sequences) + bounded-exhaustive differential correspondence + law oracle',
)

CLAIMED['C07'] = dict(
    category='proof',
    text='Coq theorems over token lists: the parser model is sound and complete for an inductive grammar of the documented PEG plus its three robustness '
         'extensions (deterministic split), and is proved EQUAL — acceptance, tree, unread tokens and line/column in one equation — to an independent fuel-free '
         'pushdown recogniser, which is the oracle run on the implementation\'s own tokens; for ALL token lists and ALL strings parse, iterparse and parse_triples '
         'end in a result or DecodeErr within the model\'s fuel (termination + every next() guarded); a parse error sits at the first token after which no '
         'derivation can continue, or at the end of the last token ((0,0) on empty input).',
    design_ref='DESIGN.md §5 C07',
    note=TB + ' theorems are about token lists (that the lexer emits the documented tokens is C08); the parse_triples error position is a theorem too (Properties/C07b.v: conjunction grammar over tokens, sound/complete/deterministic, error at the first non-viable token or at the end of input; automaton twin of the harness oracle proved equal); the 200-level bound is CPython\'s stack: the check parses depths 1..200 in four shapes without RecursionError; '
         'quick = all strings <= 4 over 16 symbols, all token-type sequences <= 6, random noisy/long/Unicode/nested texts (0.62M comparisons).',
    technique='Coq proof (parser = inductive grammar = pushdown recogniser; fuel sufficiency) + bounded-exhaustive differential correspondence + extracted-recogniser oracle',
)
CLAIMED['C19'] = dict(
    category='proof',
    text='Coq theorem at STRING level (through the TRIPLE_RE lexer model): for every non-empty list of well-formed conjunction triples and both line styles '
         'parse_triples(format_triples(ts, indent)) = ts, every role keeps its colon, and every comma / caret spacing variant parses to the same list '
         '(over token sequences, plus the eight test-suite variants by computation); boundary cases (comma in source, newline in string, anonymous role) are '
         'stated as rejected examples.',
    design_ref='DESIGN.md §5 C19',
    note=TB + ' wf_conj_triple: source without comma, no symbol starting with "#", role with exactly one leading colon and a non-empty name, non-None target; quoted '
         'strings may contain anything but CR/LF (lex splits lines first); numbers are compared by str() text; quick = 25k lists x indents x spacing variants.',
    technique='Coq proof (lexing lemmas for the written text, induction on the triple list) + differential correspondence + round-trip oracle on the implementation',
)

CLAIMED['C01'] = dict(
    category='proof',
    text='Coq theorems over the executable mirror of _lexer/_parse/_format: for every tree satisfying the boolean wf_tree and EVERY indent (None, -1, n) and '
         'compact setting the formatted text lexes to the tree\'s own token stream and parses back to the identical tree AND metadata; every string the parser '
         'accepts yields a wf_tree, so its formatted text is a fixed point of parse-then-format; texts under different options are the same lexemes interleaved '
         'only with spaces and LF. wf_tree is tight (a sampled mutated tree is wf exactly when it round-trips).',
    design_ref='DESIGN.md §5 C01',
    note=TB + ' numbers as atoms and hand-built non-wf trees are outside (numbers belong to C03); quick = 126k trees x 7 indents x 2 compact settings '
         '(163k correspondence cases) incl. every robustness shape, strings with delimiters/escapes, alignments, multi-key metadata.',
    technique='Coq proof (per-class lexing boundary lemmas, token-level parser induction, nested tree induction) + differential correspondence + round-trip oracle',
)
CLAIMED['C09'] = dict(
    category='proof',
    text='Coq theorems for EVERY text (well formed or not): the string split at LF/CRLF/CR and the terminator-keeping lines lex to the same tokens (type, text, line, '
         'offset; a comment may only carry the CR it swallowed), hence the three line containers yield the same trees and graphs and raise together; universal-newline '
         'translation is neutral; concatenated renderings of wf trees under any blank separator and any options parse back to exactly those trees with their own '
         'metadata; loads(dumps(gs)) decodes exactly the encoded strings and dump writes dumps + newline.',
    design_ref='DESIGN.md §5 C09',
    note=TB + ' the premise of C09_dumps_loads is discharged in Properties/C09b.v (C09b_dumps_loads_unconditional: for graphs meeting the end-to-end hypotheses loads(dumps gs) returns graphs graph_eq to the inputs, alignments kept); error outcomes are identified up to the DecodeError offset after a '
         'CR-carrying comment; real files, StringIO, encodings and OS newline handling are outside the model: the harness writes and reads real temporary files through '
         '22 containers x 4 separators (80k correspondence cases quick).',
    technique='Coq proof (framing of the lexer, concatenation via C01 lemmas) + differential correspondence + cross-container oracle with real files',
)
CLAIMED['C02'] = dict(
    category='proof',
    text='Coq theorem for EVERY model (arbitrary role predicate, deinverting or not) and every tree satisfying the boolean wf_layout_tree: '
         'configure(interpret(t)) = t with only empty concept slots dropped — tree, alignments and metadata — with the fuel proved sufficient and the fallback loop '
         'never entered; supporting theorems: interpret = accumulator-free entries, the single pass consumes exactly each subtree\'s segment with every Push fresh, '
         'build reads the store back. wf_layout_tree is tight on ~190k sampled non-wf trees.',
    design_ref='DESIGN.md §5 C02',
    note=TB + ' the string-level clause is ALSO a theorem (Properties/E2E.v: E2E_C02_encode_decode, E2E_C02_text_fixpoint: encode(decode(s)) = format(drop_empty_concepts(parse s)) and that text is a fixed point); alignment suffixes '
         'must be in the printer\'s normal form (~e.01 is re-printed ~e.1: counted, not flagged); quick = 106k model/implementation cases x {default, live AMR, no-op, '
         'mini-AMR, random tables}, Python twin of wf_layout_tree cross-checked against the extracted Coq predicate on every case.',
    technique='Coq proof (segment invariant of the single-pass configurer by nested tree induction) + differential correspondence + layout/text oracle',
)
CLAIMED['C05'] = dict(
    category='proof',
    text='Coq theorems about rearrange for EVERY key function (stateful ones such as random_order with any seed included), with or without attributes-first: each '
         'node\'s branches are a permutation with "/" kept first; the re-interpreted graph has the same top, metadata and triple multiset; for pure keys every node\'s '
         'branches are THE unique stable sort by (criterion1, key) (numeric suffixes numerically, :op2 before :op10; inverted roles last for canonical); reconfigure hands '
         'configure a marker-free graph with the same triples, alignments and (F31) the ORIGINAL top. Reconfigure and new-top CONTENT are theorems too (Properties/E2E_aln.v: C05x_reconfigure_content for every (stateful) key, C05x_retop_content for every variable).',
    design_ref='DESIGN.md §5 C05',
    note=TB + ' Python sorted is assumed to be a stable sort for the key\'s total preorder (C05_stable_sort_unique shows this determines the list; the oracle re-sorts with its '
         'own insertion sort); the oracle additionally checks 27k reconfigures and 4k encode-with-top per quick run on deinverting of_free models.',
    technique='Coq proof (stable-sort uniqueness, permutation invariance of interpret) + differential correspondence incl. replayed random streams + content/order oracle',
)
CLAIMED['C03'] = dict(
    category='proof',
    text='Coq theorems: for every well-formed graph connected to the requested top — ANY triple order, any top, with or without layout markers, any deinverting model '
         'with canonical roles — configure SUCCEEDS (T3) and its tree holds exactly the graph\'s triples as a multiset up to one deinversion, rooted at the top with one '
         'node per variable (T2); the formatter omits an atom only if it is None or the empty string (0, 0.0 and a 0 concept are written). The decode half of the round '
         'trip is checked by the oracle and a whole-pipeline model/implementation correspondence.',
    design_ref='DESIGN.md §5 C03',
    note=TB + ' the END-TO-END statement is a theorem too (Properties/E2E.v: E2E_C03_decode_encode: encode succeeds and decode of the text is graph_eq to the re-topped graph, numbers compared by text) '
         'and, in Properties/E2E_aln.v, ALSO for graphs carrying printable alignment markers (E2E_C03x_decode_encode: alignments kept, except that a target alignment on an edge whose target becomes a nested node is dropped, exactly as the code does), with lexable atoms and well-formed metadata; numbers are modelled by text + truthiness; the no-op model is outside the content clause (N9); '
         'quick = every wf connected graph over <= 3 variables x every permutation x every top + random larger ones (0.88M evaluations).',
    technique='Coq proof (termination measure, placed+remaining multiset invariant, completeness of the fallback loop) + bounded-exhaustive differential correspondence + encode/decode oracle',
)
CLAIMED['C06'] = dict(
    category='proof',
    text='Coq theorems with the marker lists UNIVERSALLY quantified (any mix of Push/POP/alignments on any triple = every edit history): for every model, triple list, '
         'marker assignment and top, configure terminates and returns a tree or the layout error only (T1, no hypothesis); every triple is expressed exactly once, one node '
         'per variable, requested root (T2); success holds exactly when every triple is connected to the top (T3 + converse; a bad top gives the layout error); the content '
         'is independent of the markers.',
    design_ref='DESIGN.md §5 C06',
    note=TB + ' Properties/E2E.v packages T3 and its converse as ONE iff at configure and at encode level (E2E_C06_error_iff, E2E_C06_encode_error_iff; reach decided by a verified saturation procedure); hypotheses: roles carry their colon (guaranteed by the Graph constructor), Push markers name variables (N3), deinverting model with canonical roles for the '
         'content clauses; encode = format after configure and the decode half are covered by the oracle; quick = 2.0M graphs incl. an EXHAUSTIVE family (6 marker lists per '
         'triple on all wf connected graphs with <= 3 triples over 2 variables, every order/top/model) + random corruptions of decoded, pickled and deep-copied graphs + arbitrary ill-formed triple lists.',
    technique='Coq proof (lexicographic termination measure, store invariants, connectivity <-> success) + exhaustive-family differential correspondence + totality/content oracle',
)
CLAIMED['C10'] = dict(
    category='proof',
    text='Coq theorems for arbitrary is_alpha/lower functions and any format of literal text, {prefix}, {i}, {j}: reset_variables terminates (fuel |nodes|+1) when the '
         'format has an index and otherwise returns or raises ValueError (never loops); the old-to-new map is a bijection; the new tree is exactly the renaming applied at '
         'definitions and references with alignment suffixes kept and nothing else changed; interpret(reset t) = rename_graph (interpret t) for triples, top, epidata and metadata.',
    design_ref='DESIGN.md §5 C10',
    note=TB + ' C10_iso assumes plain names (no "~", no leading quote), every node has a variable, the concept role written "/" and no constant spelled like a new name; str.format '
         'beyond plain fields and {{ }} is outside; the naming rule is a theorem as well (Properties/C10b.v: k-th distinct variable in depth-first order gets prefix + the LEAST free index; b, b2, b3 for {prefix}{j}); the ASCII+Latin-1 '
         'is_alpha/lower table of the extracted instance is validated against CPython on every run; quick = 60k wf trees x 8 formats.',
    technique='Coq proof (injective rendering, renaming commutes with interpret) + differential correspondence + bijection/isomorphism oracle with 2 s alarms',
)
CLAIMED['C11'] = dict(
    category='proof',
    text='Coq theorems: under wf_graph, no_collapsible and table_ok_for, dereify_edges(reify_edges g) restores the ordered triple list, top, metadata and every triple\'s marker '
         'list (the function configure/encode read); no reifiable role is left; new variables are fresh (also w.r.t. constants: F28), pairwise distinct, named _ / _k; the rest of '
         'the graph is kept; a node that is the top, is referenced, or has != 2 relations is never collapsed. The LIVE AMR table is machine-checked against the hypotheses: all '
         '35 reifiable roles pass, except inverted :subset/:superset (N4).',
    design_ref='DESIGN.md §5 C11',
    note=TB + ' epidata equality is as a function triple -> markers (dict key order changes, unobservable in text); identical encoded text follows by congruence and is checked '
         'textually by the oracle; quick = 57k graphs over the AMR inventory and random unambiguous tables (274k correspondence requests).',
    technique='Coq proof (marker migration inverse, fresh-name fuel lemma) + table hypotheses re-checked from amr.py + differential correspondence + text oracle',
)
CLAIMED['C12'] = dict(
    category='proof',
    text='Coq theorems: each transform and EVERY finite composition (C12_every_program, induction on the program) never raises on graphs with no, partial or stale epidata, '
         'keeps the top, keeps node_graph (every source a variable owning one instance triple) and keeps connectivity; reify_attributes leaves no attribute and contracts back; '
         'indicate_branches adds exactly one top-role triple per Push and removing them restores the original.',
    design_ref='DESIGN.md §5 C12',
    note=TB + ' the serialisation clause is a theorem too (Properties/C12b.v, composing the invariants with the end-to-end round trip): unconditional for reify_edges, reify_attributes and every program of those two; '
         'for indicate_branches given distinct result triples; for dereify_edges *_partial (result distinctness, Push names, printable alignments stay hypotheses: machine-checked examples show each can fail on hand-built graphs); the live AMR table is computed to satisfy the table hypotheses; '
         'the oracle additionally runs 236k (graph, program) pairs (all programs of length <= 3 quick / <= 4 thorough, CLI order and others); connected_b is proved sound, not complete; tables must not define :instance as a reification role.',
    technique='Coq proof (invariant preservation per transform, induction on programs) + differential correspondence + well-formedness/round-trip oracle',
)
CLAIMED['C16'] = dict(
    category='proof',
    text='Coq theorems for every model (arbitrary role predicate) and every graph with string sources: Model.errors reports "invalid role", "unreachable" and the empty/top '
         'messages EXACTLY when they apply; _dfs with its own fuel returns exactly the weakly connected component of the top; graphs interpreted from a tree with a non-empty top '
         'node get only role errors; the exit status of the check tool is non-zero iff some graph of some input has an error, and every offending context is recorded as error-N.',
    design_ref='DESIGN.md §5 C16',
    note=TB + ' N8: a text writing :instance/:instance-of literally on a node-target branch is outside the decoded clause (guard in the theorem, Example shows it is needed); '
         'non-str sources are outside (sorted would raise); argparse/sys.exit/files are covered by 600 real `python -m penman --check` subprocess runs per quick check.',
    technique='Coq proof (DFS = reflexive-symmetric-transitive closure, fuel sufficiency) + order-sensitive differential correspondence + independent union-find/regex oracle + CLI subprocesses',
)

UNDER_CONSTRUCTION = {}


def main():
    props = [json.loads(l) for l in open(VERIF / 'properties.jsonl')]
    checks, na = [], []
    for p in props:
        pid = p['id']
        if pid in CLAIMED:
            c = CLAIMED[pid]
            checks.append({
                'property_id': pid,
                'quick_cmd': f'./check {pid} --tier quick',
                'thorough_cmd': f'./check {pid} --tier thorough',
                'evidence_file': f'/verif/evidence/{pid}.json',
                'replay_cmd_template': f'./check {pid} --replay {{path}}',
                'engine': 'coq-penman',
                'level_claimed': {'category': c['category'], 'text': c['text'], 'design_ref': c['design_ref']},
                'level_note': c['note'],
                'technique': c['technique'],
            })
        else:
            na.append({'property_id': pid,
                       'reason': UNDER_CONSTRUCTION.get(pid, 'check not built yet in this round (the property is in scope of the Coq approach; see DESIGN.md §5)')})
    m = {
        'version': 1,
        'setup_cmd': './setup.sh',
        'hooks': {
            'guard': 'PENMAN_VERIF',
            'enable': 'no hooks are needed: every observable is reachable through the public API and `python -m penman`; PENMAN_VERIF is reserved and unused',
            'baseline_off_cmd': 'cd /repo && /venv/bin/python -m pytest -ra -q -p no:cacheprovider --timeout=900 --continue-on-collection-errors',
            'source_commits': [],
            'add_only': True,
        },
        'engines': [{
            'name': 'coq-penman', 'path': '/verif/coq',
            'serves_properties': [c['property_id'] for c in checks],
            'kind_free_text': 'Coq 8.16.1 development (Impl = Gallina mirror of penman, Spec, Proofs, Properties) + extracted OCaml drivers + Python differential harness',
        }],
        'checks': checks,
        'not_applicable': na,
        'notes': 'Genuine defects found while building the proofs were repaired in /repo as separate "fix:" commits (listed in known_findings.json under "fixed"); the open known findings are F19 (C13) and F30, F32, F33 (C20 idempotence with the reify / dereify options), each printed as a KNOWN-FINDING line by its check.',
    }
    (VERIF / 'MANIFEST.json').write_text(json.dumps(m, indent=1))
    print('claimed', len(checks), 'not_applicable', len(na))


if __name__ == '__main__':
    main()
