"""C18 — constant quoting, evaluation and typing are consistent with the notation.

proof:          coq/Properties/C18.v (quote -> one STRING token for every str; evaluate(quote x) = x
                for every scalar-value str incl. astral; type; totality = fuel sufficiency of the JSON
                recogniser; int/float only for the declarative JSON number grammar; None iff empty;
                true/false/null bare or padded are symbols; type agrees with the evaluated value)
correspondence: Impl.Constant (quote / evaluate / ctype) and Impl.Lexer (lex_str), extracted, vs
                penman.constant.quote/evaluate/type and penman._lexer.lex on the property's domain
oracle:         every clause of the statement evaluated on the implementation alone
"""
import itertools
import math
import re

from harness import common
from harness.common import e_str, d_str, e_atom, Timeout

THEOREMS = [
    'C18_quote_one_string_token', 'C18_quote_one_string_token_lex', 'C18_quote_printable_ascii',
    'C18_evaluate_quote', 'C18_type_quote', 'C18_lone_surrogates_not_recovered',
    'C18_quote_num', 'C18_quote_none', 'C18_evaluate_total', 'C18_type_total',
    'C18_number_only_for_json_number', 'C18_number_complete', 'C18_null_iff', 'C18_never_bool',
    'C18_type_matches', 'C18_type_none', 'C18_example_roundtrip', 'C18_example_numbers',
    'C18_example_grammar',
]

# quote-side alphabet: quotes, backslash, escape letters, control chars, DEL, non-ASCII letter,
# line separator, astral character, blank, newline
QA = ['"', '\\', '/', 'b', 'f', 'n', 'r', 't', 'u', '0', '1', 'a', '\u00e9', '\u2028', '\x00', '\x1f',
      '\x7f', '\U0001F600', ' ', '\n']
# evaluate-side alphabet: digits, sign, point, exponent, quotes, backslash, delimiters, letters, blank
EA = list('019-+.eE"\\[]{}:,trunlaNI ')

TOKTY = ['COMMENT', 'STRING', 'LPAREN', 'RPAREN', 'SLASH', 'ROLE', 'SYMBOL', 'ALIGNMENT', 'UNEXPECTED']
TYNAMES = ['Symbol', 'String', 'Integer', 'Float', 'Null', 'ConstErr', 'FUEL']

# the oracle's OWN JSON number grammar (independent of the model's scan_number and of json)
INT_RE = re.compile(r'-?(?:0|[1-9][0-9]*)\Z')
NUM_RE = re.compile(r'-?(?:0|[1-9][0-9]*)(?:\.[0-9]+)?(?:[eE][+-]?[0-9]+)?\Z')
JSON_WS = ' \t\n\r'

BOOL_LITERALS = [' true', 'true ', '\ttrue', 'true\n', ' false', 'false ', '\r\nfalse\t', ' null', 'null ',
                 '\nnull', ' null ', '  true  ', 'true', 'false', 'null']
SPECIALS = ['NaN', 'Infinity', '-Infinity', ' NaN', '-Infinity ', '- Infinity', '-NaN', 'Infinityx', '1e999', '-1e999',
            '-0', '0.0', '01', '1.', '.5', '-.5', '+1', '--1', '1e5', '1E+5', '1e', '1e+', '0e0', '"a"b"', '[]', '{}',
            '[1]', '{"a":1}', '"\U0001F600"', '" x"', ' "x"', '"x" ', ' 1', '1 ', ' 1 ', '\n1', '\x0b1', '\x0c1',
            '\xa01', '1\u2028', '"', '""', '"""', '"\\"', '"\\""', '"\\ud83d\\ude00"', '"\\ud83d"', '"\\ude00"',
            '"\\ud83dx"', '"\\ud83d\\u0041"', '"\\uD83D\\uDE00"', '"\\ud83d\\ud83d\\ude00"', '"\\u00e9"', '"\\u00E9"',
            '"\\u12"', '"\\x"', '"\\/"', '"a\tb"', '"a\x1fb"', '"a\x7fb"', '"\x00"', '"\\u+123"', '"\\u 123"',
            '"\\u0x12"', '"\\u1_23"', '"\\u\u0661\u0662\u0663\u0664"', '\uff11\uff12', '1\u0661', '\ufeff1',
            '[1,]', '[,1]', '[1 2]', '[1]]', '[ ]', '{ }', '[1 ,2]', '{"a" : 1 , "b":[]}', '{"a":1,}', '{,}',
            '{a:1}', "{'a':1}", '[NaN]', '[-Infinity]', '[true]', '[null]', '["\\u12"]', '{"a":1}x', '1 1', '1x',
            '{"a" : [1, 2.5, "x", null, true, {"b": []}]}', '[' * 150 + ']' * 150, '[' * 150,
            '1' * 4300, '1' * 4301, '-' + '1' * 4300, '-' + '1' * 4301, '1' * 4301 + '.0', '1' * 4301 + 'e1',
            '0.' + '1' * 5000, '1e' + '1' * 5000, '1' * 4300 + ' ', ' ' + '1' * 4301, '[' + '1' * 4301 + ']',
            '{"a":' + '1' * 4301 + '}', '["a",' + '1' * 4301, '9' * 4299, '-', '-of', 'a', 'foo', '+', 'I', 'N']


# --------------------------------------------------------------------------
# implementation side, canonicalised to the model's enums (never compares floats)

def _impl():
    from penman import constant
    from penman.exceptions import ConstantError
    return constant, ConstantError


def impl_evaluate(s):
    constant, ConstantError = _impl()
    try:
        v = constant.evaluate(s)
    except ConstantError:
        return ('ConstErr',)
    except Exception as e:                       # anything else escapes the documented error
        return ('EXC', type(e).__name__)
    if v is None:
        return ('None',)
    if isinstance(v, bool):
        return ('bool', v)
    if isinstance(v, int):
        return ('int',)
    if isinstance(v, float):
        return ('nan',) if math.isnan(v) else ('float',)
    if isinstance(v, str):
        return ('str', v)
    return ('other', type(v).__name__)


def impl_type(s):
    constant, ConstantError = _impl()
    try:
        return constant.type(s).value
    except ConstantError:
        return 'ConstErr'
    except Exception as e:
        return 'EXC ' + type(e).__name__


def impl_lex(q, triple):
    from penman import _lexer
    try:
        toks = _lexer.lex(q, pattern=_lexer.TRIPLE_RE) if triple else _lexer.lex(q)
        return [(t.type, t.text, t.lineno, t.offset) for t in toks]
    except Exception as e:
        return ('EXC', type(e).__name__)


def d_result(v):
    return {0: ('None',), 1: ('int',), 2: ('float',), 4: ('ConstErr',), 5: ('FUEL',)}.get(v[0]) or ('str', d_str(v[1]))


def d_tokens(v):
    return [(TOKTY[t[0]], d_str(t[1]), t[2], t[3]) for t in v]


def strip_json_ws(s):
    return s.strip(JSON_WS)


def has_surrogate(x):
    return any(0xD800 <= ord(c) <= 0xDFFF for c in x)


# --------------------------------------------------------------------------
# workers (run under common.pmap; return plain data, the parent feeds chk)

class _Acc:
    """What a worker reports back."""
    def __init__(self):
        self.fails, self.mismatches, self.stats, self.n, self.corr = [], [], {}, 0, 0

    def stat(self, k, n=1):
        self.stats[k] = self.stats.get(k, 0) + n

    def fail(self, key, what, case):
        if len(self.fails) < 20:
            self.fails.append((key, what, case))
        self.stat('FAIL ' + key)

    def mismatch(self, what, case, impl, model):
        if len(self.mismatches) < 20:
            self.mismatches.append((what, case, impl, model))
        self.stat('MISMATCH')

    def pack(self):
        return (self.fails, self.mismatches, self.stats, self.n, self.corr)


def check_texts(texts, acc, stream):
    """evaluate-side: oracle on the implementation + correspondence, for a list of atom texts."""
    impl = []
    for s in texts:
        ev = impl_evaluate(s)
        ty = impl_type(s)
        impl.append((ev, ty))
        case = {'text': s, 'stream': stream}
        acc.n += 1
        acc.stat('evaluate:' + ev[0])
        # ---- oracle -------------------------------------------------------
        if ev[0] == 'EXC':
            acc.fail('escape', f'evaluate({s[:60]!r}) raises {ev[1]}, not ConstantError', case)
        if ty.startswith('EXC'):
            key = 'bool-literal' if strip_json_ws(s) in ('true', 'false', 'null') else 'escape'
            acc.fail(key, f'type({s[:60]!r}) raises {ty[4:]}, not ConstantError', case)
        if ev[0] == 'bool':
            acc.fail('bool-literal', f'evaluate({s[:60]!r}) returns the bool {ev[1]}', case)
        if ev[0] in ('nan', 'other'):
            acc.fail('total', f'evaluate({s[:60]!r}) returns {ev!r}: not None/str/int/float', case)
        if ev[0] == 'None' and s != '':
            key = 'bool-literal' if strip_json_ws(s) == 'null' else 'null'
            acc.fail(key, f'evaluate({s[:60]!r}) returns None for a non-empty text', case)
        if ev[0] == 'int' and not INT_RE.match(strip_json_ws(s)):
            acc.fail('number-syntax', f'evaluate({s[:60]!r}) returns an int but the text is not a JSON integer literal', case)
        if ev[0] == 'float' and not (NUM_RE.match(strip_json_ws(s)) and not INT_RE.match(strip_json_ws(s))):
            acc.fail('number-syntax', f'evaluate({s[:60]!r}) returns a float but the text is not a JSON number with fraction/exponent', case)
        want = {'ConstErr': 'ConstErr', 'None': 'Null', 'int': 'Integer', 'float': 'Float',
                'str': 'String' if (s.startswith('"') and s.endswith('"')) else 'Symbol'}.get(ev[0])
        if want is not None and not ty.startswith('EXC') and ty != want:
            acc.fail('type', f'type({s[:60]!r}) is {ty} but evaluate gives {ev[0]} (expected {want})', case)
    # ---- correspondence -----------------------------------------------------
    out = common.run_driver('const', [[5, [e_str(s)]] for s in texts], shard=10 ** 9)
    acc.corr += len(texts)
    for s, (ev, ty), o in zip(texts, impl, out):
        m = (d_result(o[0]), TYNAMES[o[1]])
        if m != (ev, ty):
            acc.mismatch('evaluate/type differs', {'text': s, 'stream': stream}, [list(ev), ty], [list(m[0]), m[1]])


def check_strings(xs, acc, stream):
    """quote-side: oracle on the implementation + correspondence, for a list of Python strings."""
    constant, _ = _impl()
    impl = []
    for x in xs:
        case = {'string': x, 'stream': stream}
        acc.n += 1
        try:
            q = constant.quote(x)
        except Exception as e:
            acc.fail('escape', f'quote({x!r}) raises {type(e).__name__}', case)
            impl.append(None)
            continue
        lp, lt = impl_lex(q, False), impl_lex(q, True)
        ev, ty = impl_evaluate(q), impl_type(q)
        impl.append((q, lp, lt, ev, ty))
        # ---- oracle -------------------------------------------------------
        one = [('STRING', q, 1, 0)]
        if lp != one:
            acc.fail('one-token', f'quote({x!r}) = {q!r} is not exactly one STRING token under PENMAN_RE: {str(lp)[:120]}', case)
        if lt != one:
            acc.fail('one-token', f'quote({x!r}) = {q!r} is not exactly one STRING token under TRIPLE_RE: {str(lt)[:120]}', case)
        if not has_surrogate(x):
            if ev != ('str', x):
                acc.fail('roundtrip', f'evaluate(quote({x!r})) = {ev!r}', case)
            if ty != 'String':
                acc.fail('type', f'type(quote({x!r})) is {ty}, not String', case)
    out = common.run_driver('const', [[6, e_atom(x)] for x in xs], shard=10 ** 9)
    acc.corr += len(xs)
    for x, im, o in zip(xs, impl, out):
        if im is None:
            continue
        m = (d_str(o[0]), d_tokens(o[1]), d_tokens(o[2]), d_result(o[3]), TYNAMES[o[4]])
        if m != im:
            acc.mismatch('quote/lex/evaluate/type of quoted string differs', {'string': x, 'stream': stream},
                         [im[0], str(im[1])[:200], str(im[2])[:200], list(im[3]), im[4]],
                         [m[0], str(m[1])[:200], str(m[2])[:200], list(m[3]), m[4]])


def _guard(fn, items, stream):
    acc = _Acc()
    try:
        common.timed(fn, items, acc, stream, seconds=600)
    except Timeout:
        acc.fail('hang', f'constant functions do not terminate on stream {stream}', {'stream': stream, 'first': items[0]})
    return acc.pack()


def w_text_prefix(arg):
    """all atom texts prefix + w, w over EA^k"""
    prefix, k = arg
    texts = [prefix + ''.join(p) for p in itertools.product(EA, repeat=k)]
    return _guard(check_texts, texts, 'exhaustive')


def w_texts(arg):
    stream, texts = arg
    return _guard(check_texts, texts, stream)


def w_string_prefix(arg):
    prefix, k = arg
    xs = [prefix + ''.join(p) for p in itertools.product(QA, repeat=k)]
    return _guard(check_strings, xs, 'exhaustive')


def w_strings(arg):
    stream, xs = arg
    return _guard(check_strings, xs, stream)


# --------------------------------------------------------------------------
# random generators (chk.rng only)

def random_string(rng, maxlen=40):
    n = rng.randrange(1, maxlen)
    out = []
    for _ in range(n):
        k = rng.random()
        if k < .6:
            out.append(rng.choice(QA))
        elif k < .8:
            out.append(chr(rng.randrange(32, 127)))
        else:
            c = rng.randrange(0x110000)
            while 0xD800 <= c <= 0xDFFF:
                c = rng.randrange(0x110000)
            out.append(chr(c))
    return ''.join(out)


def random_surrogate_string(rng):
    out = []
    for _ in range(rng.randrange(1, 6)):
        out.append(rng.choice(['a', '"', '\\', chr(rng.randrange(0xD800, 0xDC00)), chr(rng.randrange(0xDC00, 0xE000))]))
    return ''.join(out)


_WS = [' ', '\t', '\n', '\r', '', '', '']
_STR_PARTS = ['a', '\u00e9', '\\"', '\\\\', '\\/', '\\b', '\\f', '\\n', '\\r', '\\t', '\\u00e9', '\\u00E9',
              '\\ud83d\\ude00', '\\ud83d', '\\ude00', '\\uD83D\\uDE00', '\\ud83d\\ud83d\\ude00', '\\ud83d\\u0041',
              '\\u12', '\\x', '\x1f', '\x7f', '\t', '\U0001F600', ' ', ' ', '\\u+123', '\\ud83d\\u+e00', '\\', '"', 'u', '0']


def _rstr(rng):
    return '"' + ''.join(rng.choice(_STR_PARTS) for _ in range(rng.randrange(0, 5))) + '"'


def _rnum(rng):
    s = rng.choice(['', '', '-', '+', '--'])
    s += rng.choice(['0', '1', '9', '10', '123', '01', '00', '',
                     '1' * (rng.choice([4299, 4300, 4301]) if rng.random() < .2 else rng.choice([5, 40]))])
    s += rng.choice(['', '', '.', '.5', '.05', '.e', '.5.5'])
    s += rng.choice(['', '', 'e', 'e5', 'E5', 'e+5', 'e-5', 'E+', 'e5e5', 'e999', 'e+-5'])
    return s


def _rval(rng, d=0):
    k = rng.random()
    w = lambda: rng.choice(_WS)
    if k < .2:
        return _rstr(rng)
    if k < .45:
        return _rnum(rng)
    if k < .55:
        return rng.choice(['true', 'false', 'null', 'NaN', 'Infinity', '-Infinity', 'nul', 'tru', 'Nan', '-Inf',
                           'Infinit', '-NaN', 'True'])
    if d > 3 or k < .6:
        return rng.choice(['[]', '{}', '[ ]', '{ }', '[', ']', '{', '}', ',', ':', ''])
    if k < .8:
        n = rng.randrange(1, 4)
        return ('[' + w() + (w() + rng.choice([',', ',', ',', ' ', ',,']) + w()).join(_rval(rng, d + 1) for _ in range(n))
                + w() + rng.choice([']', ']', ']', ',]', '', ']]', '}']))
    items = []
    for _ in range(rng.randrange(1, 4)):
        items.append(rng.choice([_rstr(rng), _rstr(rng), _rstr(rng), 'a', '1', '']) + w()
                     + rng.choice([':', ':', ':', '', '=', '::']) + w() + _rval(rng, d + 1))
    return ('{' + w() + (w() + rng.choice([',', ',', ',', ' ', ';']) + w()).join(items) + w()
            + rng.choice(['}', '}', '}', ',}', '', '}}', ']']))


def random_text(rng):
    """a JSON-ish atom text (valid or slightly broken), nesting depth <= 5"""
    t = rng.choice(_WS) + _rval(rng) + rng.choice(_WS)
    k = rng.random()
    if k < .15 and t:
        i = rng.randrange(len(t))
        t = t[:i] + t[i + 1:]
    elif k < .3:
        i = rng.randrange(len(t) + 1)
        t = t[:i] + rng.choice(EA + ['\x0b', '\xa0']) + t[i:]
    elif k < .35:
        t = t + rng.choice(['x', ' 1', ',', ']', '"'])
    return t


class _Distinct(set):
    """distinct-case counter: stored keys + a count of keys that are distinct by construction"""
    extra = 0

    def __len__(self):
        return set.__len__(self) + self.extra


def _chunks(lst, n):
    return [lst[i:i + n] for i in range(0, len(lst), n)]


# --------------------------------------------------------------------------

def run(chk):
    thorough = chk.tier == 'thorough'
    qlen, elen = (4, 5) if thorough else (3, 4)
    chk.rule = (f'quote side: every string of length <= {qlen} over the 20-character alphabet (dquote, backslash, slash, '
                'b f n r t u 0 1 a, e-acute, U+2028, NUL, U+001F, DEL, U+1F600, space, LF) + random strings up to 40 '
                'characters over that alphabet, printable ASCII and arbitrary scalar values + a small lone-surrogate '
                'stream (one-token clause and correspondence only; N5) + numbers/None through quote; '
                f'evaluate side: every atom text of length <= {elen} over the 25-character alphabet '
                '(0 1 9 - + . e E dquote backslash [ ] { } : , t r u n l a N I space)'
                + (' + a random sample of length-6 texts' if thorough else '')
                + ' + random JSON-like texts (valid and broken strings, numbers, nested arrays/objects to depth 5, '
                'padding blanks) + a fixed list with the 4300/4301-digit boundary, NaN/Infinity, padded true/false/null '
                '(key bool-literal), surrogate escapes, BOM, nesting 150 (deeper nesting hits the interpreter '
                'recursion limit: outside the model); a case is one distinct string / atom text')
    chk.exhaustive = False
    chk.require_theorems('Properties.C18', THEOREMS)
    common.use_repo()
    common.build_driver('const')
    constant, ConstantError = _impl()
    rng = chk.rng

    jobs = []   # (worker, arg)
    # ---- quote side ------------------------------------------------------------
    small = [''.join(p) for n in range(0, 3) for p in itertools.product(QA, repeat=n)]
    jobs.append((w_strings, ('exhaustive', small)))
    for n in range(3, qlen + 1):
        for p in itertools.product(QA, repeat=2):
            jobs.append((w_string_prefix, (''.join(p), n - 2)))
    nrand = 40000 if thorough else 6000
    rs = [random_string(rng) for _ in range(nrand)]
    for c in _chunks(rs, 2000):
        jobs.append((w_strings, ('random', c)))
    sur = [random_surrogate_string(rng) for _ in range(2000 if thorough else 300)] + ['\ud83d\ude00', '\ud83d', '\ude00\ud83d']
    jobs.append((w_strings, ('lone-surrogates', sur)))
    # ---- evaluate side -----------------------------------------------------------
    small = [''.join(p) for n in range(0, 3) for p in itertools.product(EA, repeat=n)]
    jobs.append((w_texts, ('exhaustive', small)))
    for n in range(3, elen + 1):
        for p in itertools.product(EA, repeat=2):
            jobs.append((w_text_prefix, (''.join(p), n - 2)))
    if thorough:
        six = [''.join(rng.choice(EA) for _ in range(6)) for _ in range(600000)]
        for c in _chunks(six, 20000):
            jobs.append((w_texts, ('random-length-6', c)))
    nrt = 600000 if thorough else 120000
    rt = [random_text(rng) for _ in range(nrt)]
    for c in _chunks(rt, 10000):
        jobs.append((w_texts, ('random-json', c)))
    jobs.append((w_texts, ('bool-literal', BOOL_LITERALS)))
    jobs.append((w_texts, ('special', SPECIALS)))
    # quoted texts through the evaluate-side checks as well (type/total clauses on valid strings)
    jobs.append((w_texts, ('quoted', [constant.quote(x) for x in rs[:2000]])))

    results = common.pmap(_run_job, jobs, chunk=1)
    for (fn, arg), (fails, mism, stats, n, corr) in zip(jobs, results):
        chk.evaluations += n
        chk.corr_cases += corr
        for k, v in stats.items():
            chk.stat(k, v)
        for key, what, case in fails:
            chk.fail(key, what, case)
        for what, case, impl, model in mism:
            chk.mismatch(what, case, impl, model)
    # distinct cases: the exhaustive parts are distinct by construction (counted, not stored);
    # the random parts are counted through a set
    nq = sum(len(QA) ** n for n in range(qlen + 1))
    ne = sum(len(EA) ** n for n in range(elen + 1))
    seen = set(('s', x) for x in rs) | set(('t', x) for x in rt)
    if thorough:
        seen |= set(('t', x) for x in six)
    chk.distinct = _Distinct(seen)
    chk.distinct.extra = nq + ne
    chk.stat('strings_exhaustive', nq)
    chk.stat('texts_exhaustive', ne)
    chk.stat('strings_random', len(rs))
    chk.stat('texts_random_json', len(rt))
    for x in ['"\\\n\u2028\U0001F600\x00', 'a"b', '']:
        chk.sample({'string': x, 'quote': constant.quote(x), 'evaluate(quote)': constant.evaluate(constant.quote(x))})
    for s in ['-1.5e3', ' true', '"\\ud83d\\ude00"', '[1]']:
        chk.sample({'text': s, 'evaluate': list(impl_evaluate(s)), 'type': impl_type(s)})

    # ---- numbers and None through quote (atoms) ---------------------------------------
    # equal-but-different numbers next to each other (0.0 / -0.0, 1 / 1.0 / 1.00): an answer cached by VALUE shows here
    atoms = [None, 0, 0.0, -0.0, 0.0, 5, 5.0, -3, 10 ** 30, 1e30, 1.5, 1e100, 1e-7, float('inf'), float('-inf'), 12345678901234567890, 1, 1.0, -1, -1.0]
    out = common.run_driver('const', [[1, e_atom(a)] for a in atoms])
    chk.corr_cases += len(atoms)
    for a, o in zip(atoms, out):
        chk.count(('atom', repr(a), type(a).__name__))
        q = constant.quote(a)
        case = {'atom': repr(a)}
        if a is None:
            if q != '""':
                chk.fail('quote-none', f'quote(None) = {q!r}, not the empty string constant', case)
        elif q != constant.quote(str(a)):
            chk.fail('quote-num', f'quote({a!r}) = {q!r} differs from quote(str(x)) = {constant.quote(str(a))!r}', case)
        if d_str(o) != q:
            chk.mismatch('quote(atom) differs', case, q, d_str(o))
    kernel_crosscheck(chk, constant)
    embedded_stream(chk)
    if constant.evaluate(None) is not None or constant.type(None).value != 'Null':
        chk.fail('null', 'evaluate(None) / type(None) is not None / Null', {'text': None})
    out = common.run_driver('const', [[5, []]])
    if (d_result(out[0][0]), TYNAMES[out[0][1]]) != (('None',), 'Null'):
        chk.mismatch('evaluate(None)/type(None) differs', {'text': None}, ['None', 'Null'], out[0])


def kernel_crosscheck(chk, constant):
    """The same model evaluated by Coq's own VM (no extraction, no OCaml) on a small sample:
    guards the extraction + driver glue."""
    rng = chk.rng
    texts = [s for s in SPECIALS + BOOL_LITERALS if len(s) <= 80] + [random_text(rng) for _ in range(60)]
    texts = [s for s in texts if len(s) <= 80]
    strings = ['', 'a"b\\', '\n\u2028\U0001F600\x00\x7f\u00e9', '\ud83d\ude00'] + [random_string(rng, 12) for _ in range(30)]
    imports = ('From PM Require Import Impl.Lexer Impl.Constant.\nOpen Scope N_scope.\n'
               'Definition enc_r (r : result) : list N := match r with RNull => [0] | RInt => [1] | RFloat => [2] '
               '| RStr s => 3 :: s | RConstErr => [4] | RFuel => [5] end.\n'
               'Definition enc_t (t : ty) : N := match t with TySymbol => 0 | TyString => 1 | TyInteger => 2 '
               '| TyFloat => 3 | TyNull => 4 | TyConstErr => 5 | TyFuel => 6 end.\n'
               'Definition enc (s : str) : list N := enc_t (ctype (Some s)) :: enc_r (evaluate (Some s)).\n')
    lit = lambda s: '[' + ';'.join(str(ord(c)) for c in s) + ']'
    exprs = [f'enc {lit(s)}' for s in texts] + [f'quote_str {lit(x)}' for x in strings]
    raw = common.run_in_kernel('c18', imports, exprs)
    vals = [[int(n) for n in re.findall(r'\d+', r)] for r in raw]
    if len(vals) != len(exprs):
        chk.broken.append({'obligation': 'in-kernel cross-check', 'detail': f'{len(vals)} results for {len(exprs)} terms'})
        return
    chk.stat('in_kernel_cases', len(exprs))
    for s, v in zip(texts, vals):
        m = (d_result([v[1], v[2:]]), TYNAMES[v[0]])
        im = (impl_evaluate(s), impl_type(s))
        if m != im:
            chk.mismatch('in-kernel evaluate/type differs', {'text': s, 'stream': 'in-kernel'}, [list(im[0]), im[1]], [list(m[0]), m[1]])
    for x, v in zip(strings, vals[len(texts):]):
        if d_str(v) != constant.quote(x):
            chk.mismatch('in-kernel quote differs', {'string': x, 'stream': 'in-kernel'}, constant.quote(x), d_str(v))


def _run_job(job):
    fn, arg = job
    return fn(arg)


def embedded_stream(chk):
    """quote(x) written as a concept / attribute value of a PENMAN text (with and without an alignment after it): the
    text must decode, the constant must come back as exactly quote(x), and evaluate to x."""
    import penman
    from penman import constant
    rng = chk.rng
    pool = ['', 'a', 'a b', 'say "hi"', '"', '""', '~', '~1', 'see "http://x.org/~kim"', 'x"~1', '\\', 'a\\"', 'tab\there', 'nl\nhere',
            '(', ')', ':r', '/', '#c', 'é', '\u2028', '\x85', '😀', 'a"b"c~e.2', '" ~ "', '\\"~3',
            # every JSON short escape and the control characters written \uXXXX
            'x\by', 'x\fy', 'x\ry', '\b', '\f\b\n\r\t', 'bell\x07', 'nul\x00', 'esc\x1b[0m', 'del\x7f', '\x1f', 'a/b', 'sol\\/']
    pool += [chr(c) for c in range(0x20)] + ['p' + chr(c) + 'q' for c in range(0x20)]
    for i in range(300 if chk.tier == 'quick' else 3000):
        pool.append(''.join(rng.choice('ab"\\~ ()/:#1,.\t') for _ in range(rng.randint(1, 8))))
    for x in pool:
        q = constant.quote(x)
        for text in ('(a / %s)' % q, '(a / b :op1 %s)' % q, '(a / b :op1 %s~e.5 :op2 c)' % q, '(a / b :op1~1 %s~2)' % q,
                     '(a / %s~7 :name (n / name :op1 %s))' % (q, q)):
            case = {'stream': 'embedded', 'x': x, 'text': text}
            chk.count(('embedded', text))
            try:
                g = common.timed(penman.decode, text, seconds=5)
            except Exception as e:       # noqa
                chk.fail('embedded', f'a text holding quote(x) does not decode: {type(e).__name__}: {str(e)[:80]}', case)
                continue
            consts = [t[2] for t in g.triples if isinstance(t[2], str) and t[2].startswith('"')]
            if not consts or any(c != q for c in consts):
                chk.fail('embedded', f'the string constant comes back as {consts!r}, not quote(x) = {q!r}', case)
            elif any(constant.evaluate(c) != x for c in consts):
                chk.fail('embedded', 'the decoded constant does not evaluate to the original string', case)
    chk.stat('embedded-texts', len(pool) * 5)
    # lex() documents its pattern argument as a compiled pattern OR its text: quote(x) is one STRING token either way
    from penman import _lexer
    for x in pool[:120]:
        q = constant.quote(x)
        for triple, rx in ((False, _lexer.PENMAN_RE), (True, _lexer.TRIPLE_RE)):
            chk.count(('pattern-text', triple, q))
            try:
                a = [(t.type, t.text, t.lineno, t.offset) for t in _lexer.lex(q, pattern=rx)]
                b = [(t.type, t.text, t.lineno, t.offset) for t in _lexer.lex(q, pattern=rx.pattern)]
            except Exception as e:       # noqa
                chk.fail('embedded', f'lexing quote(x) raises {type(e).__name__}', {'stream': 'pattern-text', 'x': x})
                continue
            if a != b:
                chk.fail('embedded', f'lex(quote(x), pattern=<text of the pattern>) gives {str(b)[:120]}, with the compiled '
                         f'pattern {str(a)[:120]}', {'stream': 'pattern-text', 'x': x, 'triple_pattern': triple})


def replay(obj):
    """Re-run the failing case of a replay file on the implementation and show the behaviour."""
    common.use_repo()
    from penman import constant
    case = obj.get('case') or {}
    print('replay case:', {k: (v if not isinstance(v, str) or len(v) < 200 else v[:80] + f'...({len(v)} chars)') for k, v in case.items()})
    if 'string' in case:
        x = case['string']
        q = constant.quote(x)
        print('quote:', repr(q))
        print('lex PENMAN_RE:', impl_lex(q, False))
        print('lex TRIPLE_RE:', impl_lex(q, True))
        print('evaluate(quote(x)):', impl_evaluate(q), ' == x:', impl_evaluate(q) == ('str', x))
        print('type(quote(x)):', impl_type(q))
    if 'text' in case and case['text'] is not None:
        s = case['text']
        for name, fn in (('evaluate', constant.evaluate), ('type', constant.type)):
            try:
                v = fn(s)
                print(f'{name}: returns {type(v).__name__} {str(v)[:80]!r}')
            except Exception as e:
                print(f'{name}: raises {type(e).__name__}: {str(e)[:120]}')
    if 'atom' in case:
        print('atom case:', case['atom'])
    return 0
