"""Shared machinery of the penman verification checks.

  * wire format helpers (S-expressions of integers, mirrored by ocaml/sx.ml, conv.ml)
  * build of the Coq development and of the extracted OCaml drivers
  * proof-obligation bookkeeping (Properties/*.vo built, Print Assumptions closed)
  * running the implementation under a wall-clock alarm, in parallel
  * verdict logic, evidence and replay files, known findings
"""
import fcntl
import hashlib
import json
import multiprocessing
import os
import random
import re
import signal
import subprocess
import sys
import time
from pathlib import Path

VERIF = Path(__file__).resolve().parent.parent
REPO = Path(os.environ.get('PENMAN_REPO', '/repo'))
COQ = VERIF / 'coq'
OCAML = VERIF / 'ocaml'
BUILD = VERIF / '_build'
NPROC = min(16, os.cpu_count() or 4)

AXIOM_WHITELIST = set()   # the development is closed under the global context

# --------------------------------------------------------------------------
# implementation access


def use_repo():
    """Make `import penman` resolve to /repo's working tree (never a copy)."""
    p = str(REPO)
    if sys.path[0] != p:
        sys.path.insert(0, p)
    import logging
    logging.disable(logging.CRITICAL)
    import penman
    assert Path(penman.__file__).resolve().is_relative_to(REPO), penman.__file__
    return penman


class Timeout(Exception):
    pass


_TIMEOUTS = [0]      # per process


def _alarm(signum, frame):
    _TIMEOUTS[0] += 1
    raise Timeout()


def timed(fn, *args, seconds=5.0):
    """Run fn(*args) under an alarm; raises Timeout.

    The budget is CPU time of this process (ITIMER_PROF), so a heavily loaded machine does not
    produce false "hangs"; a generous wall-clock alarm (20x + 30 s) backs it up for blocking calls."""
    if _TIMEOUTS[0] >= 3:
        seconds = min(seconds, 0.5)     # the implementation hangs: report it, do not spend hours re-confirming it
    old_r = signal.signal(signal.SIGALRM, _alarm)
    old_p = signal.signal(signal.SIGPROF, _alarm)
    signal.setitimer(signal.ITIMER_PROF, seconds)
    signal.setitimer(signal.ITIMER_REAL, seconds * 20 + 30)
    try:
        return fn(*args)
    finally:
        signal.setitimer(signal.ITIMER_PROF, 0)
        signal.setitimer(signal.ITIMER_REAL, 0)
        signal.signal(signal.SIGALRM, old_r)
        signal.signal(signal.SIGPROF, old_p)


def _chunk_worker(args):
    fn, chunk = args
    return [fn(c) for c in chunk]


def pmap(fn, items, nproc=None, chunk=200):
    """Parallel map with fork workers (fn must be a module-level function)."""
    items = list(items)
    if len(items) < 2 * chunk or (nproc or NPROC) == 1:
        return [fn(c) for c in items]
    chunks = [(fn, items[i:i + chunk]) for i in range(0, len(items), chunk)]
    ctx = multiprocessing.get_context('fork')
    with ctx.Pool(nproc or NPROC) as pool:
        out = pool.map(_chunk_worker, chunks, chunksize=1)
    return [r for part in out for r in part]


# --------------------------------------------------------------------------
# wire format


def sx_dumps(v):
    if isinstance(v, bool):
        return '1' if v else '0'
    if isinstance(v, int):
        return str(v)
    return '(' + ' '.join(sx_dumps(x) for x in v) + ')'


_TOK = re.compile(r'\(|\)|-?\d+')


def sx_loads(s):
    stack = [[]]
    for t in _TOK.findall(s):
        if t == '(':
            stack.append([])
        elif t == ')':
            top = stack.pop()
            stack[-1].append(top)
        else:
            stack[-1].append(int(t))
    assert len(stack) == 1 and len(stack[0]) == 1, s[:200]
    return stack[0][0]


def e_str(s):
    return [ord(c) for c in s]


def d_str(v):
    return ''.join(chr(c) for c in v)


def e_opt(f, x):
    return [] if x is None else [f(x)]


def d_opt(f, v):
    return None if v == [] else f(v[0])


def e_atom(a):
    """None | str | int | float  (bool is rejected: never a penman constant)"""
    if a is None:
        return []
    if isinstance(a, str):
        return [0, e_str(a)]
    if isinstance(a, bool):
        raise ValueError('bool atom')
    if isinstance(a, (int, float)):
        return [1, e_str(str(a)), 1 if not a else 0]
    raise ValueError(f'not an atom: {a!r}')


class Num(str):
    """A numeric atom coming back from the model: compared by its text."""
    def __repr__(self):
        return 'Num(%s)' % str.__repr__(self)


def d_atom(v):
    if v == []:
        return None
    if v[0] == 0:
        return d_str(v[1])
    return Num(d_str(v[1]))


def atom_key(a):
    """Canonical comparable form of an implementation atom."""
    if a is None or isinstance(a, str) and not isinstance(a, Num):
        return a
    if isinstance(a, Num):
        return ('num', str(a))
    return ('num', str(a))


def e_node(n):
    var, branches = n
    return [e_atom(var), [[e_str(r), e_target(t)] for r, t in branches]]


def e_target(t):
    if isinstance(t, tuple):
        return [1, e_node(t)]
    return [0, e_atom(t)]


def d_node(v):
    return (d_atom(v[0]), [(d_str(r), d_target(t)) for r, t in v[1]])


def d_target(v):
    return d_node(v[1]) if v[0] == 1 else d_atom(v[1])


def e_meta(m):
    return [[e_str(k), e_str(v)] for k, v in m.items()]


def d_meta(v):
    return {d_str(k): d_str(x) for k, x in v}


def e_tree(t):
    return [e_node(t.node), e_meta(t.metadata)]


def d_tree(v):
    return (d_node(v[0]), d_meta(v[1]))


def e_epi(e):
    from penman.layout import Push, Pop
    from penman.surface import Alignment, RoleAlignment
    if isinstance(e, Push):
        return [0, e_atom(e.variable)]
    if isinstance(e, Pop):
        return [1]
    if isinstance(e, Alignment):
        return [2, list(e.indices), e_opt(e_str, e.prefix)]
    if isinstance(e, RoleAlignment):
        return [3, list(e.indices), e_opt(e_str, e.prefix)]
    raise ValueError(f'unknown epidatum {e!r}')


def d_epi(v):
    """Canonical python-side form of a marker (tuples, not penman objects)."""
    if v[0] == 0:
        return ('Push', atom_key(d_atom(v[1])))
    if v[0] == 1:
        return ('POP',)
    return ('Aln' if v[0] == 2 else 'RAln', tuple(v[1]), d_opt(d_str, v[2]))


def canon_epi(e):
    """Canonical form of an implementation marker, comparable with d_epi."""
    return d_epi(e_epi(e))


def e_triple(t):
    return [e_atom(t[0]), e_str(t[1]), e_atom(t[2])]


def d_triple(v):
    return (atom_key(d_atom(v[0])), d_str(v[1]), atom_key(d_atom(v[2])))


def canon_triple(t):
    return (atom_key(t[0]), t[1], atom_key(t[2]))


def e_graph(g):
    """Graph -> wire, reading the private _top slot (explicit top or None)."""
    return [[e_triple(t) for t in g.triples], e_opt(e_atom, g._top),
            [[e_triple(t), [e_epi(e) for e in epis]] for t, epis in g.epidata.items()],
            e_meta(g.metadata)]


def d_graph(v):
    return {'triples': [d_triple(t) for t in v[0]],
            'top': d_opt(lambda a: atom_key(d_atom(a)), v[1]),
            'epidata': [(d_triple(t), [d_epi(e) for e in es]) for t, es in v[2]],
            'metadata': d_meta(v[3])}


def canon_graph(g):
    return {'triples': [canon_triple(t) for t in g.triples],
            'top': atom_key(g._top),
            'epidata': [(canon_triple(t), [canon_epi(e) for e in es]) for t, es in g.epidata.items()],
            'metadata': dict(g.metadata)}


# ---- role patterns / model tables ----------------------------------------

def parse_role_pattern(p):
    """Restricted regex -> pattern AST; fail closed on anything else."""
    out, i = [], 0
    while i < len(p):
        c = p[i]
        if c == '[':
            m = re.match(r'\[(.)-(.)\](\+?)', p[i:])
            if not m:
                raise ValueError(f'unsupported role pattern {p!r}')
            lo, hi, plus = m.groups()
            out.append([2 if plus else 1, ord(lo), ord(hi)])
            i += m.end()
        elif c in '\\.^$*+?{}()|]':
            raise ValueError(f'unsupported role pattern {p!r}')
        else:
            out.append([0, ord(c)])
            i += 1
    return out


def e_table(roles, deinverts, norms, reifs, top_role=':TOP', top_var='top'):
    return [[parse_role_pattern(r) for r in roles], 1 if deinverts else 0,
            [[e_str(k), e_str(v)] for k, v in norms.items()],
            [[e_str(a), e_str(b), e_str(c), e_str(d)] for a, b, c, d in reifs],
            e_str(top_role), e_str(top_var)]


def e_model(m):
    """A live penman Model -> wire table (roles must be in the restricted class)."""
    from penman.models.noop import NoOpModel
    reifs = _merge_orders(m)
    assert m.concept_role == ':instance'
    return e_table(list(m.roles), not isinstance(m, NoOpModel), dict(m.normalizations),
                   reifs, m.top_role, m.top_variable)


def _merge_orders(m):
    """Find a global row order consistent with per-role and per-concept orders."""
    rows = [(role, c, s, t) for role, rs in m.reifications.items() for c, s, t in rs]
    before = {r: set() for r in rows}
    for role, rs in m.reifications.items():
        seq = [(role, c, s, t) for c, s, t in rs]
        for i, x in enumerate(seq):
            before[x].update(seq[:i])
    for c, rs in m.dereifications.items():
        seq = [(role, c, s, t) for role, s, t in rs]
        for i, x in enumerate(seq):
            before[x].update(seq[:i])
    out = []
    while rows:
        for r in rows:
            if not (before[r] - set(out)):
                out.append(r)
                rows.remove(r)
                break
        else:
            raise ValueError('cyclic reification order')
    return out


# --------------------------------------------------------------------------
# build


class BuildError(Exception):
    pass


def _run(cmd, cwd=None, timeout=3600, env=None):
    return subprocess.run(cmd, cwd=cwd, shell=isinstance(cmd, str), capture_output=True,
                          text=True, timeout=timeout, env=env)


class _Lock:
    def __enter__(self):
        BUILD.mkdir(exist_ok=True)
        self.f = open(BUILD / 'lock', 'w')
        fcntl.flock(self.f, fcntl.LOCK_EX)

    def __exit__(self, *a):
        fcntl.flock(self.f, fcntl.LOCK_UN)
        self.f.close()


def write_if_changed(path, text):
    path = Path(path)
    if path.exists() and path.read_text() == text:
        return False
    path.parent.mkdir(parents=True, exist_ok=True)
    path.write_text(text)
    return True


def coq_files():
    files = []
    for sub in ('Base', 'Impl', 'Spec', 'Gen', 'Proofs', 'Properties', 'Extract', 'ExtractCert'):
        files += sorted(str(p.relative_to(COQ)) for p in (COQ / sub).glob('*.v'))
    return files


def build_coq(log=None):
    """Regenerate Gen/*.v from /repo, then `make -k`. Returns dict vfile->built?"""
    from harness import gen_tables
    with _Lock():
        gen_tables.generate()
        files = coq_files()
        proj = '-Q . PM\n-arg -w -arg -notation-overridden,-deprecated,-non-recursive\n' + '\n'.join(files) + '\n'
        if write_if_changed(COQ / '_CoqProject', proj) or not (COQ / 'Makefile').exists():
            r = _run('coq_makefile -f _CoqProject -o Makefile', cwd=COQ)
            if r.returncode:
                raise BuildError(r.stderr)
        t0 = time.time()
        r = _run(f'timeout 3000 make -k -j{NPROC} 2>&1', cwd=COQ)
        out = r.stdout
        (BUILD / 'make.log').write_text(out)
        status = {}
        for f in files:
            vo = COQ / (f[:-2] + '.vo')
            status[f] = vo.exists() and vo.stat().st_mtime >= (COQ / f).stat().st_mtime
        status['_log'] = out[-4000:]
        status['_wall'] = time.time() - t0
        return status


def build_driver(group):
    """Compile ocaml/<group>/{model.ml (extracted), driver.ml} -> _build/<group>/driver."""
    src = OCAML / group
    out = BUILD / group
    exe = out / 'driver'
    deps = [OCAML / 'sx.ml', OCAML / 'conv.ml', src / 'model.ml', src / 'model.mli', src / 'driver.ml']
    for d in deps:
        if not d.exists():
            raise BuildError(f'missing {d} (extraction did not run?)')
    with _Lock():
        if exe.exists() and all(exe.stat().st_mtime >= d.stat().st_mtime for d in deps):
            return exe
        out.mkdir(parents=True, exist_ok=True)
        for d in deps:
            (out / d.name).write_bytes(d.read_bytes())
        r = _run('ocamlfind ocamlopt -O3 -w -a -o driver sx.ml model.mli model.ml conv.ml driver.ml 2>&1 || '
                 'ocamlfind ocamlopt -w -a -o driver sx.ml model.mli model.ml conv.ml driver.ml 2>&1', cwd=out)
        if not exe.exists():
            raise BuildError('ocaml build failed:\n' + r.stdout[-3000:])
        return exe


def _drv_worker(args):
    exe, lines = args
    env = dict(os.environ, OCAMLRUNPARAM='l=4G')
    p = subprocess.run(['bash', '-c', f'ulimit -s unlimited 2>/dev/null; exec {exe}'],
                       input='\n'.join(lines) + '\n', capture_output=True, text=True, env=env)
    outs = p.stdout.split('\n')
    if outs and outs[-1] == '':
        outs.pop()
    if len(outs) != len(lines):
        raise BuildError(f'driver produced {len(outs)} results for {len(lines)} cases; stderr: {p.stderr[-2000:]}')
    return outs


def run_driver(group, requests, shard=2000):
    """requests: list of wire values (python lists); returns list of decoded values."""
    exe = build_driver(group)
    lines = [sx_dumps(r) for r in requests]
    if not lines:
        return []
    shards = [(str(exe), lines[i:i + shard]) for i in range(0, len(lines), shard)]
    if len(shards) == 1:
        outs = _drv_worker(shards[0])
    else:
        ctx = multiprocessing.get_context('fork')
        with ctx.Pool(min(NPROC, len(shards))) as pool:
            outs = [o for part in pool.map(_drv_worker, shards, chunksize=1) for o in part]
    return [sx_loads(o) for o in outs]


def run_in_kernel(tag, imports, expr_lines):
    """Evaluate Coq terms with vm_compute inside coqc (cross-check of extraction).

    expr_lines: list of Coq terms of type `list N` (already wire-encoded by a
    Coq-side printer).  Returns the raw text of each result."""
    d = BUILD / 'kernel'
    d.mkdir(parents=True, exist_ok=True)
    v = d / f'cases_{tag}.v'
    body = ''.join(f'Eval vm_compute in ({e}).\n' for e in expr_lines)
    v.write_text(f'{imports}\n{body}')
    r = _run(f'timeout 900 coqc -Q {COQ} PM {v.name}', cwd=d, timeout=1000)
    if r.returncode:
        raise BuildError('in-kernel evaluation failed: ' + (r.stdout + r.stderr)[-2000:])
    res = re.split(r'\n\s*=\s', '\n' + r.stdout)[1:]
    return [re.sub(r'\s+', ' ', x.rsplit(':', 1)[0]).strip() for x in res]


def print_assumptions(vfile_module, theorems):
    """Ask coqc for `Print Assumptions` of each theorem; returns name -> text."""
    d = BUILD / 'assum'
    d.mkdir(parents=True, exist_ok=True)
    tag = vfile_module.replace('.', '_')
    v = d / f'pa_{tag}.v'
    body = f'From PM Require Import {vfile_module}.\n'
    for t in theorems:
        body += f'Goal True. idtac "@@{t}". exact I. Qed.\nPrint Assumptions {t}.\n'
    v.write_text(body)
    r = _run(f'timeout 900 coqc -Q {COQ} PM {v.name}', cwd=d, timeout=1000)
    text = r.stdout + r.stderr
    if r.returncode:
        return None, text
    parts = re.split(r'@@(\w+)\n', text)
    res = {}
    for i in range(1, len(parts) - 1, 2):
        res[parts[i]] = parts[i + 1].strip()
    return res, text


FORBIDDEN = re.compile(r'\b(Admitted|admit|Axiom|Axioms|Parameter|Parameters|Conjecture|Hypothesis|Variable)\b|'
                       r'Unset\s+Guard|Unset\s+Positivity|Unset\s+Universe|bypass_check|type-in-type|impredicative-set')


def scan_forbidden():
    """Fail-closed scan of the whole development for axioms / admits / unsafe flags."""
    hits = []
    for f in coq_files():
        text = (COQ / f).read_text()
        text = re.sub(r'\(\*.*?\*\)', '', text, flags=re.S)
        in_section = 0
        for ln, line in enumerate(text.split('\n'), 1):
            if re.match(r'\s*Section\b', line):
                in_section += 1
            if re.match(r'\s*End\b', line) and in_section:
                in_section -= 1
            m = FORBIDDEN.search(line)
            if m:
                if m.group(1) in ('Hypothesis', 'Variable') and in_section:
                    continue
                hits.append(f'{f}:{ln}: {line.strip()}')
    return hits


# --------------------------------------------------------------------------
# verdicts


def load_known():
    p = VERIF / 'known_findings.json'
    if not p.exists():
        return []
    return json.loads(p.read_text()).get('findings', [])


class Check:
    """One run of one property's check."""

    def __init__(self, prop, level='proof'):
        self.prop = prop
        self.level = level
        self.tier = os.environ.get('VERIF_TIER', 'quick')
        if self.tier not in ('quick', 'thorough'):
            self.tier = 'quick'
        self.seed = int(os.environ.get('VERIF_SEED', '0') or 0)
        self.rng = random.Random(f'{prop}:{self.seed}')
        self.t0 = time.time()
        self.failures = []      # concrete failing inputs: dict(key, what, case)
        self.mismatches = []    # correspondence differences
        self.broken = []        # proof obligations that no longer check
        self.obligations = 0
        self.discharged = 0
        self.theorems = []
        self.axioms = {}
        self.evaluations = 0
        self.distinct = set()
        self.samples = []
        self.stats = {}
        self.notes = []
        self.assumptions = []
        self.corr_cases = 0
        self.known = [k for k in load_known() if k.get('property') == prop and k.get('status', 'open') == 'open']

    # ---- proof obligations -------------------------------------------------
    def require_theorems(self, module, theorems, extra_files=()):
        """module e.g. 'Properties.C13'. Builds everything, checks the .vo and axioms."""
        status = build_coq()
        self.build_status = status
        vfile = module.replace('.', '/') + '.v'
        self.obligations += len(theorems)
        hits = scan_forbidden()
        if hits:
            self.broken.append({'obligation': 'no-axioms-scan', 'detail': hits[:20]})
        src = (COQ / vfile).read_text() if (COQ / vfile).exists() else ''
        missing = [t for t in theorems if not re.search(r'\b(Theorem|Lemma|Corollary|Example)\s+%s\b' % re.escape(t), src)]
        if missing:
            self.broken.append({'obligation': vfile, 'detail': f'theorems not stated: {missing}'})
        ok = status.get(vfile, False) and all(status.get(f, False) for f in extra_files)
        if not ok:
            failed = [f for f, b in status.items() if not f.startswith('_') and not b]
            self.broken.append({'obligation': vfile, 'detail': 'does not compile',
                                'failed_files': failed, 'log_tail': _first_error(status.get('_log', ''))})
            return False
        res, text = print_assumptions(module, theorems)
        if res is None:
            self.broken.append({'obligation': vfile, 'detail': 'Print Assumptions failed', 'log_tail': text[-1500:]})
            return False
        for t in theorems:
            a = res.get(t, '')
            self.axioms[t] = a
            if t in missing:
                continue
            if a.startswith('Closed under the global context'):
                self.discharged += 1
            else:
                names = set(re.findall(r'^(\S+)\s*:', a, flags=re.M))
                if names and names <= AXIOM_WHITELIST:
                    self.discharged += 1
                else:
                    self.broken.append({'obligation': t, 'detail': 'depends on axioms', 'axioms': a[:500]})
        self.theorems += list(theorems)
        return True

    # ---- exploration bookkeeping ------------------------------------------
    def count(self, case_key=None, nontrivial=True, n=1):
        self.evaluations += n
        if case_key is not None and nontrivial:
            self.distinct.add(case_key if isinstance(case_key, (str, int, tuple)) else json.dumps(case_key, sort_keys=True, default=str))

    def sample(self, case, every=None):
        if len(self.samples) < 8:
            self.samples.append(case)

    def stat(self, key, n=1):
        self.stats[key] = self.stats.get(key, 0) + n

    def fail(self, key, what, case):
        """A concrete input on which the PROPERTY fails on the implementation."""
        self.failures.append({'key': key, 'what': what, 'case': case})

    def mismatch(self, what, case, impl, model):
        """Model and implementation disagree on an in-domain input."""
        self.mismatches.append({'what': what, 'case': case, 'impl': impl, 'model': model})

    # ---- the end -----------------------------------------------------------
    def finish(self):
        known_keys = {k['key']: k for k in self.known}
        new = [f for f in self.failures if f['key'] not in known_keys]
        old = [f for f in self.failures if f['key'] in known_keys]
        lines = []
        rc = 0
        seen = set()
        for k in self.known:
            # a listed finding is announced on every run of the unchanged tree
            hit = [f for f in old if f['key'] == k['key']]
            lines.append(f"KNOWN-FINDING: property={self.prop} {k['what']}"
                         + ('' if hit else ' (not re-triggered by this run\'s inputs)'))
            seen.add(k['key'])
        replay = None
        if new:
            rc = 1
            first = min(new, key=lambda f: len(json.dumps(f['case'], default=str)))
            replay = self._write_replay({'kind': 'failing-input', 'property': self.prop,
                                         'what': first['what'], 'key': first['key'], 'case': first['case'],
                                         'others': [f['what'] for f in new[1:6]],
                                         'mismatches': self.mismatches[:3], 'broken': self.broken[:3]})
            lines.append(f'VIOLATION property={self.prop} replay={replay}')
        elif self.mismatches or self.broken:
            rc = 1
            replay = self._write_replay({'kind': 'no-failing-input-found', 'property': self.prop,
                                         'broken_obligations': self.broken[:10],
                                         'correspondence_differences': self.mismatches[:10],
                                         'note': 'the theorem(s)/correspondence named here no longer check; '
                                                 'the search over the implementation found no input on which the property itself fails'})
            lines.append(f'VIOLATION property={self.prop} replay={replay} no-failing-input-found')
        self._write_evidence(len(new) + (1 if (self.mismatches or self.broken) and not new else 0))
        for ln in lines:
            print(ln)
        summary = (f'[{self.prop}] tier={self.tier} seed={self.seed} obligations={self.discharged}/{self.obligations} '
                   f'evaluations={self.evaluations} distinct={len(self.distinct)} corr_cases={self.corr_cases} '
                   f'mismatches={len(self.mismatches)} failures={len(self.failures)} (known {len(old)}) '
                   f'wall={time.time() - self.t0:.1f}s')
        print(summary)
        sys.stdout.flush()
        return rc

    def _write_replay(self, obj):
        d = VERIF / 'replays'
        d.mkdir(exist_ok=True)
        blob = json.dumps(obj, indent=1, default=str, sort_keys=True)
        h = hashlib.sha1(blob.encode()).hexdigest()[:10]
        p = d / f'{self.prop}-{h}.json'
        p.write_text(blob)
        return str(p)

    def _write_evidence(self, violations):
        d = VERIF / 'evidence'
        d.mkdir(exist_ok=True)
        cov = {
            'obligations': self.obligations,
            'discharged': self.discharged,
            'checker_cmd': 'coq_makefile -f _CoqProject -o Makefile && make -k (coqc 8.16.1, full .vo build) ; '
                           'coqc Print Assumptions for each theorem',
            'trusted_base': TRUSTED_BASE,
            'theorems': self.theorems,
            'axioms_reported': {t: a[:200] for t, a in self.axioms.items()},
            'evaluations': self.evaluations,
            'distinct_nontrivial': len(self.distinct),
            'rule': getattr(self, 'rule', ''),
            'samples': self.samples or ['(none)'],
            'correspondence_cases': self.corr_cases,
            'correspondence_mismatches': len(self.mismatches),
            'input_distribution': self.stats,
            'broken_obligations': self.broken[:5],
            'exhaustive': bool(getattr(self, 'exhaustive', False)),
        }
        level = self.level
        if level == 'proof' and self.obligations == 0:
            level = 'exploration'      # nothing was proved in this run: do not claim it
        ev = {
            'property_id': self.prop, 'tier': self.tier, 'seed': self.seed, 'level': level,
            'coverage': cov, 'assumptions': self.assumptions + COMMON_ASSUMPTIONS,
            'wall_s': round(time.time() - self.t0, 2), 'violations': violations,
            'notes': self.notes,
        }
        (d / f'{self.prop}.json').write_text(json.dumps(ev, indent=1, default=str))


def _first_error(log):
    m = re.search(r'(File "[^"]+", line \d+.*?)(?:\nmake|\Z)', log, flags=re.S)
    return (m.group(1) if m else log)[-1500:]


TRUSTED_BASE = [
    'Coq 8.16.1 kernel (coqc), vm_compute (no native_compute)',
    'no axioms: every property theorem is "Closed under the global context" (Print Assumptions, checked each run)',
    'Coq extraction to OCaml with ExtrOcamlBasic only (bool, option, list, prod, unit, sumbool, sumor); no Extract Constant / Extract Inductive of our own',
    'OCaml 4.13.1 ocamlfind ocamlopt; ocaml/sx.ml, ocaml/conv.ml and the per-group driver.ml (wire glue)',
    'hand-written Gallina model of penman (coq/Impl/*.v): tied to /repo only by the differential correspondence run of this check',
    'harness/gen_tables.py (regenerates Gen/*.v tables from /repo/penman/models/amr.py and penman/__main__.py via ast)',
    'the Python harness (generators, canonicalisation, diff)',
    'CPython 3.12 semantics of re, json, str methods, dict order, sorted, copy.deepcopy (modelled, not verified)',
]
COMMON_ASSUMPTIONS = [
    'model = hand-written mirror of the Python; correspondence is differential testing on generated in-domain inputs, not a proof',
    'numbers are modelled by their str() text and truthiness only',
]
