#!/usr/bin/env bash
here="$(cd "$(dirname "$0")" && pwd)"
cd "$here"
export PYTHONPATH="/repo:$here" PYTHONDONTWRITEBYTECODE=1
exec /venv/bin/python -m harness.setup
