(** Declarative vocabulary of C02: which trees carry a layout that
    [configure (interpret t)] must reproduce, and the one permitted normalisation.

    [wf_layout_tree m t] (boolean):
      - every node has a variable that is a non-empty string, and no variable is
        defined twice;
      - "/" occurs only as the FIRST branch of a node, with an atomic target whose
        text (alignment removed) is not the empty string unless the whole slot is
        empty ([None] or the empty string: that slot is dropped, see
        [drop_empty_concepts]);
      - every other role, with its alignment suffix removed, starts with ":" and
        is not ":instance";
      - alignment suffixes (on roles, concepts, atomic targets) are in the
        printer's normal form: printing the parsed marker gives the suffix back;
      - a branch that interpretation de-inverts (the model de-inverts, the role is
        inverted, and the target is a nested node or a variable of the tree) has a
        role whose stripped form is not itself inverted and is not ":instance", and
        an atomic one does not point at the node's own variable;
      - the denoted triples ([denoted m t], written without reference to the
        accumulator-passing implementation) are pairwise distinct.
    Numbers are allowed only where the real code accepts them (a non-zero number
    makes [_process_atomic] raise TypeError). *)
From PM Require Export Impl.Interpret Impl.Configure.

(* ---- alignment suffixes ---- *)
(* [text] is the suffix INCLUDING its leading tilde *)
Definition aln_nf (text : str) : bool :=
  match aln_from_string text with
  | Ok (idx, pre) => str_eqb (aln_to_string idx pre) text
  | _ => false
  end.

(* total versions of _process_role / _process_atomic *)
Definition proc_role (role : str) : str * list epi :=
  match process_role role with Ok x => x | _ => (role, []) end.
Definition proc_atom (a : atom) : atom * list epi :=
  match process_atomic a with Ok x => x | _ => (a, []) end.
Definition role_name (role : str) : str := fst (proc_role role).
Definition atom_name (a : atom) : atom := fst (proc_atom a).

Definition role_text_ok (role : str) : bool :=
  let '(r, found, aln) := partition [TILDE] role in
  startswith r [COLON] && negb (str_eqb r INSTANCE) && (negb found || aln_nf (TILDE :: aln)).

Definition atom_text_ok (a : atom) : bool :=
  match a with
  | ANone => true
  | ANum _ z => z
  | AStr s =>
      if negb (contains_char TILDE s) then true
      else if startswith s [QUOTE] then
        match rindex QUOTE s with
        | Some i => if Nat.ltb (S i) (length s) then aln_nf (skipn (S i) s) else true
        | None => true
        end
      else let '(_, _, aln) := partition [TILDE] s in aln_nf (TILDE :: aln)
  end.

Definition var_ok (v : atom) : bool := match v with AStr (_ :: _) => true | _ => false end.

(* the stripped role of a de-inverted branch must invert back to the written role *)
Definition deinv_ok (m : model) (r : str) : bool :=
  let r0 := drop_last 3 r in
  negb (is_role_inverted m r0) && negb (str_eqb r0 INSTANCE).

Definition concept_ok (a : atom) : bool :=
  missing_concept a || negb (missing_concept (atom_name a)).

Fixpoint wf_node (m : model) (vars : list atom) (n : node) : bool :=
  match n with
  | Node var bs =>
      var_ok var &&
      (fix go (first : bool) (bs : list branch) : bool :=
         match bs with
         | [] => true
         | (role, tgt) :: bs' =>
             (if str_eqb role SLASHS then
                first && match tgt with
                         | TAtom a => atom_text_ok a && concept_ok a
                         | TNode _ => false
                         end
              else
                role_text_ok role &&
                let r := role_name role in
                let deinv := deinverts m && is_role_inverted m r in
                match tgt with
                | TAtom a =>
                    atom_text_ok a &&
                    (if deinv && mem atom_eqb (atom_name a) vars
                     then deinv_ok m r && negb (atom_eqb (atom_name a) var) else true)
                | TNode n' => wf_node m vars n' && (if deinv then deinv_ok m r else true)
                end)
             && go false bs'
         end) true bs
  end.

(* ---- the triples (with their markers) a tree denotes ---- *)
Definition atom_triple (m : model) (vars : list atom) (var : atom) (r : str) (a : atom) : triple :=
  if is_role_inverted m r && mem atom_eqb a vars then deinvert m (var, r, a) else (var, r, a).

Definition has_concept (bs : list branch) : bool :=
  existsb (fun b : branch => str_eqb (role_name (fst b)) INSTANCE) bs.

Fixpoint entries (m : model) (vars : list atom) (n : node) : list epientry :=
  match n with
  | Node var bs =>
      let fix go (bs : list branch) : list epientry :=
        match bs with
        | [] => []
        | (role, TAtom a) :: bs' =>
            (atom_triple m vars var (role_name role) (atom_name a),
             snd (proc_role role) ++ snd (proc_atom a)) :: go bs'
        | (role, TNode n') :: bs' =>
            (deinvert m (var, role_name role, node_var n'),
             snd (proc_role role) ++ [Push (node_var n')])
              :: add_pop_last (entries m vars n') ++ go bs'
        end in
      if has_concept bs then go bs else ((var, INSTANCE, ANone), []) :: go bs
  end.

Definition denoted (m : model) (t : tree) : list triple :=
  map fst (entries m (tree_vars (troot t)) (troot t)).

Fixpoint nodup_b {A} (eqb : A -> A -> bool) (l : list A) : bool :=
  match l with
  | [] => true
  | x :: l' => negb (mem eqb x l') && nodup_b eqb l'
  end.

Definition wf_layout_tree (m : model) (t : tree) : bool :=
  let vars := tree_vars (troot t) in
  nodup_b atom_eqb vars && wf_node m vars (troot t) && nodup_b triple_eqb (denoted m t).

(* ---- the permitted normalisation: an empty concept slot is not written ---- *)
Fixpoint dec_node (n : node) : node :=
  match n with
  | Node v bs =>
      let fix go (bs : list branch) : list branch :=
        match bs with
        | [] => []
        | (r, TAtom a) :: bs' => (r, TAtom a) :: go bs'
        | (r, TNode n') :: bs' => (r, TNode (dec_node n')) :: go bs'
        end in
      match bs with
      | (r, TAtom a) :: bs' => if str_eqb r SLASHS && missing_concept a then Node v (go bs') else Node v (go bs)
      | _ => Node v (go bs)
      end
  end.
Definition drop_empty_concepts (t : tree) : tree := mkTree (dec_node (troot t)) (tmeta t).
