(** Declarative vocabulary of C20: the DOCUMENTED pipeline of the penman command
    (docs/command.rst; the statement of property C20), written per tree as a
    composition of stages

      format . relabel . rearrange . (reconfigure | configure) . [annotate errors]
             . indicate . reify attributes . dereify . reify . interpret . canonicalise

    and the documented output of a run: one text per input graph, in order,
    separated by one blank line, a final line feed; exit status 1 iff --check is
    given and some graph has a non-empty error report.

    Nothing here mentions the command's plumbing (the key tables and their lookup
    by name, keyword arguments, the [first] flag, the loop over files): sort keys
    are read directly from the documented meaning of each key name. *)
From PM Require Export Impl.Cli.

(* ---- stages and their composition (left to right) ---- *)
Definition stage (A B : Type) := A -> outcome B.
Definition seq {A B C} (f : stage A B) (g : stage B C) : stage A C := fun a => bind (f a) g.
Notation "f >=> g" := (seq f g) (at level 61, right associativity).
Definition when {A} (b : bool) (f : stage A A) : stage A A := fun a => if b then f a else Ok a.
Definition pure_stage {A B} (f : A -> B) : stage A B := fun a => Ok (f a).

(* ---- the documented meaning of the key names ---- *)
(* --rearrange KEY: canonical, alphanumeric, inverted-last, attributes-first (, random) *)
Definition rearrange_key_ok (k : ukey) : bool := match k with UOriginal => false | _ => true end.
(* --reconfigure KEY: original, canonical (, random) *)
Definition reconfigure_key_ok (k : ukey) : bool :=
  match k with UOriginal | UCanonical => true | _ => false end.
(* the Model method a key name stands for; attributes-first is a flag, not a method *)
Definition key_method (k : ukey) : list method :=
  match k with
  | UCanonical => [MCanonical] | UAlphanumeric => [MAlnum] | UInvertedLast => [MInverted]
  | UOriginal => [MOriginal] | UAttributesFirst => []
  end.
(* methods combined in prioritised order *)
Definition key_methods (keys : list ukey) : list method := flat_map key_method keys.
Definition is_attributes_first (k : ukey) : bool :=
  match k with UAttributesFirst => true | _ => false end.
Definition attributes_first (keys : list ukey) : bool := existsb is_attributes_first keys.

(* an option given with at least one key *)
Definition given (keys : option (list ukey)) : option (list ukey) :=
  match keys with Some (k :: ks) => Some (k :: ks) | _ => None end.
(* the option values argparse accepts *)
Definition opts_ok (o : cli_opts) : bool :=
  match given (o_rearrange o) with Some ks => forallb rearrange_key_ok ks | None => true end &&
  match given (o_reconfigure o) with Some ks => forallb reconfigure_key_ok ks | None => true end.

(* ---- the stages ---- *)
Definition canonicalise (o : cli_opts) : stage tree tree :=
  when (o_canonicalize_roles o)
       (fun t => match canonicalize_roles (o_model o) t with Some t' => Ok t' | None => OutOfFuel end).
Definition interpret_stage (o : cli_opts) : stage tree graph := interpret (o_model o).
Definition reify (o : cli_opts) : stage graph graph := when (o_reify_edges o) (reify_edges (o_model o)).
Definition dereify (o : cli_opts) : stage graph graph := when (o_dereify_edges o) (dereify_edges (o_model o)).
Definition reify_attrs (o : cli_opts) : stage graph graph := when (o_reify_attributes o) reify_attributes.
Definition indicate (o : cli_opts) : stage graph graph :=
  when (o_indicate_branches o) (indicate_branches (o_model o)).

(* everything before the graph is checked and written: the content normalisations *)
Definition normalise (o : cli_opts) : stage tree graph :=
  canonicalise o >=> interpret_stage o >=> reify o >=> dereify o >=> reify_attrs o >=> indicate o.

(* --check: the error report is inserted as metadata error-1, error-2, ... *)
Definition annotate (o : cli_opts) : stage graph graph :=
  when (o_check o) (pure_stage (fun g => set_gmeta g (snd (check_graph (o_model o) g)))).

(* reconfigure with the composite key, else configure *)
Definition layout_doc (o : cli_opts) : stage graph tree :=
  match given (o_reconfigure o) with
  | Some keys => fun g => reconfigure sort_key_leb (o_model o) g None
                                      (Some (sort_key (o_model o) (key_methods keys)))
  | None => fun g => configure (o_model o) g None
  end.
(* the command additionally interprets the reconfigured tree and discards the
   graph: an exception there ends the run, so the success of that call is part
   of what the command computes *)
Definition revalidate (o : cli_opts) : stage tree tree :=
  match given (o_reconfigure o) with
  | Some _ => fun t => _ <- interpret (o_model o) t ;; Ok t
  | None => fun t => Ok t
  end.
Definition layout (o : cli_opts) : stage graph tree := layout_doc o >=> revalidate o.

Definition rearrange_stage (o : cli_opts) : stage tree tree :=
  match given (o_rearrange o) with
  | Some keys => pure_stage (rearrange sort_key_leb (Some (sort_key (o_model o) (key_methods keys)))
                                       (attributes_first keys))
  | None => fun t => Ok t
  end.
Definition relabel (o : cli_opts) : stage tree tree :=
  match o_make_variables o with
  | Some (p :: ps) => reset_variables_ov (o_ov o) (p :: ps)
  | _ => fun t => Ok t
  end.
Definition write (o : cli_opts) : stage tree str := pure_stage (format (o_indent o) (o_compact o)).
Definition write_triples (o : cli_opts) : stage graph str :=
  pure_stage (fun g => format_triples (triples g) (triples_indent (o_indent o))).

(* the tree that is formatted (no --triples) *)
Definition pre_format (o : cli_opts) : stage tree tree :=
  normalise o >=> annotate o >=> layout o >=> rearrange_stage o >=> relabel o.

(* ---- the pipeline of one tree ---- *)
Definition pipeline (o : cli_opts) : stage tree str :=
  if o_triples o then normalise o >=> annotate o >=> write_triples o
  else pre_format o >=> write o.
(* the same without the re-interpretation of a reconfigured tree: the pipeline as documented *)
Definition pipeline_doc (o : cli_opts) : stage tree str :=
  if o_triples o then normalise o >=> annotate o >=> write_triples o
  else normalise o >=> annotate o >=> layout_doc o >=> rearrange_stage o >=> relabel o >=> write o.

(* the graph of this tree has a non-empty error report and --check is on *)
Definition graph_has_errors (o : cli_opts) (t : tree) : bool :=
  o_check o &&
  match normalise o t with
  | Ok g => match errors (o_model o) g with [] => false | _ => true end
  | _ => false
  end.

(* ---- the documented output ---- *)
Definition BLANK_LINE : str := [LF; LF].
Definition render_stream (texts : list str) : str :=
  match texts with [] => [] | _ => join BLANK_LINE texts ++ [LF] end.

(* ---- inputs ---- *)
Definition ok_of {A} (x : outcome A) : option A := match x with Ok a => Some a | _ => None end.
Fixpoint mapM_opt {A B} (f : A -> option B) (l : list A) : option (list B) :=
  match l with
  | [] => Some []
  | a :: l' =>
      match f a, mapM_opt f l' with
      | Some b, Some bs => Some (b :: bs)
      | _, _ => None
      end
  end.
Definition parsed_ok (p : parsed) : bool := match snd p with Ok _ => true | _ => false end.
(* the inputs that are read: the FILE arguments, or stdin when there is none *)
Definition inputs_of {A} (files : list A) (stdin : A) : list A :=
  match files with [] => [stdin] | _ => files end.

(* what the command must write and return for inputs already split into trees;
   None = the run ends with an exception *)
Definition run_spec (o : cli_opts) (inputs : list parsed) : option (str * bool) :=
  if opts_ok o && forallb parsed_ok inputs then
    let ts := flat_map fst inputs in
    match mapM_opt (fun t => ok_of (pipeline o t)) ts with
    | Some texts => Some (render_stream texts, existsb (graph_has_errors o) ts)
    | None => None
    end
  else None.

(* the option set with other formatting options *)
Definition with_format (o : cli_opts) (indent : option Z) (compact : bool) : cli_opts :=
  mkOpts (o_model o) (o_canonicalize_roles o) (o_reify_edges o) (o_dereify_edges o)
         (o_reify_attributes o) (o_indicate_branches o) (o_reconfigure o) (o_rearrange o)
         (o_make_variables o) indent compact (o_triples o) (o_check o) (o_ov o).

(* no normalisation option after the tree stage, no --check, no --triples *)
Definition plain_rest (o : cli_opts) : bool :=
  negb (o_reify_edges o) && negb (o_dereify_edges o) &&
  negb (o_reify_attributes o) && negb (o_indicate_branches o) &&
  match given (o_reconfigure o) with None => true | _ => false end &&
  match given (o_rearrange o) with None => true | _ => false end &&
  match o_make_variables o with Some (_ :: _) => false | _ => true end &&
  negb (o_triples o) && negb (o_check o).
(* no normalisation option at all: formatting only *)
Definition plain (o : cli_opts) : bool := negb (o_canonicalize_roles o) && plain_rest o.
(* the tree stage as a partial function *)
Definition canon_of (o : cli_opts) (t : tree) : option tree :=
  if o_canonicalize_roles o then canonicalize_roles (o_model o) t else Some t.
