(** Declarative vocabulary for C01 / C09: which trees are "assembled from
    grammar-valid variables, roles, atoms, alignments and metadata" ([wf_tree],
    boolean), and the token stream a tree denotes ([tokens_of]).  Nothing here
    mentions the formatter or the parser; the lexeme classes are phrased with the
    scanners of Impl/Lexer.v ("exactly what m_align / m_string accept"). *)
From PM Require Export Impl.Lexer.

Definition tk := (tokty * str)%type.
Definition tok_tt (k : token) : tk := (tty k, ttext k).

(* ------------------------------------------------------------------ *)
(** * Lexeme classes *)

Definition no_lfcr (s : str) : bool := forallb (fun c => negb (eqc c 10) && negb (eqc c 13)) s.

(* Symbol: non-empty run of name characters not starting with a hash (N1) *)
Definition wf_symbol (s : str) : bool :=
  match s with
  | [] => false
  | c :: _ => negb (eqc c 35) && forallb is_name s
  end.

(* Alignment: tilde [letter [period]] digits (comma digits)* -- exactly the
   strings the ALIGNMENT scanner accepts entirely *)
Definition wf_align (a : str) : bool :=
  match m_align a with
  | Some (w, []) => str_eqb w a
  | _ => false
  end.

Definition opt_align (a : str) : bool := match a with [] => true | _ => wf_align a end.

(* text = base ++ alignment-suffix, split at the first tilde *)
Definition split_tilde (s : str) : str * str := span (fun c => negb (eqc c 126)) s.

(* atomic target / concept text: (Symbol | String) Alignment?  where a String is
   what the STRING scanner accepts (dquote ... dquote with backslash escapes)
   and contains neither LF nor CR *)
Definition wf_atom_text (c : str) : bool :=
  match m_string c with
  | Some (w, a) => no_lfcr w && opt_align a
  | None => let '(b, a) := split_tilde c in wf_symbol b && opt_align a
  end.

(* role text: colon, name characters (possibly none), Alignment? *)
Definition wf_role (r : str) : bool :=
  match r with
  | c :: r' =>
      eqc c 58 && (let '(b, a) := split_tilde r' in forallb is_name b && opt_align a)
  | [] => false
  end.

(* ------------------------------------------------------------------ *)
(** * Trees *)

Definition wf_atom_target (t : target) : bool :=
  match t with
  | TAtom ANone => true
  | TAtom (AStr c) => wf_atom_text c
  | _ => false
  end.

Definition wf_branch (rec : node -> bool) (b : branch) : bool :=
  if str_eqb (fst b) SLASHS then wf_atom_target (snd b)
  else wf_role (fst b) &&
       match snd b with
       | TNode n' => rec n'
       | t => wf_atom_target t
       end.

Definition not_slash (b : branch) : bool := negb (str_eqb (fst b) SLASHS).

(* the concept branch may only come first *)
Definition slash_only_first (bs : list branch) : bool :=
  match bs with [] => true | _ :: bs' => forallb not_slash bs' end.

Fixpoint wf_node (n : node) : bool :=
  match n with
  | Node v bs =>
      match v with
      | ANone => match bs with [] => true | _ => false end       (* the empty node *)
      | AStr s => wf_symbol s && forallb (wf_branch wf_node) bs && slash_only_first bs
      | ANum _ _ => false
      end
  end.

(* ------------------------------------------------------------------ *)
(** * Metadata *)

(* no two adjacent colons *)
Fixpoint no_dcolon (s : str) : bool :=
  match s with
  | c :: s' =>
      match s' with
      | d :: _ => negb (eqc c 58 && eqc d 58) && no_dcolon s'
      | [] => true
      end
  | [] => true
  end.

Definition wf_meta_key (k : str) : bool :=
  no_lfcr k && negb (isin 32%N k) && no_dcolon k &&
  match k with c :: _ => negb (eqc c 58) | [] => true end.

Definition wf_meta_value (v : str) : bool :=
  no_lfcr v && no_dcolon v && str_eqb (rstrip_ws v) v.

Fixpoint nodup_keys (d : list (str * str)) : bool :=
  match d with
  | [] => true
  | (k, _) :: d' => negb (existsb (fun kv => str_eqb k (fst kv)) d') && nodup_keys d'
  end.

Definition wf_meta (d : list (str * str)) : bool :=
  forallb (fun kv => wf_meta_key (fst kv) && wf_meta_value (snd kv)) d && nodup_keys d.

Definition wf_tree (t : tree) : bool := wf_meta (tmeta t) && wf_node (troot t).

(* ------------------------------------------------------------------ *)
(** * The token stream of a tree *)

Definition LP : tk := (LPAREN, [40%N]).
Definition RP : tk := (RPAREN, [41%N]).

Definition align_toks (a : str) : list tk := match a with [] => [] | _ => [(ALIGNMENT, a)] end.

Definition atom_toks (c : str) : list tk :=
  match m_string c with
  | Some (w, a) => (STRING, w) :: align_toks a
  | None => let '(b, a) := split_tilde c in (SYMBOL, b) :: align_toks a
  end.

Definition role_toks (r : str) : list tk :=
  if str_eqb r SLASHS then [(SLASH, SLASHS)]
  else let '(b, a) := split_tilde r in (ROLE, b) :: align_toks a.

Definition target_toks (rec : node -> list tk) (t : target) : list tk :=
  match t with
  | TAtom (AStr c) => atom_toks c
  | TAtom _ => []
  | TNode n' => rec n'
  end.

Definition branch_toks (rec : node -> list tk) (b : branch) : list tk :=
  role_toks (fst b) ++ target_toks rec (snd b).

Fixpoint node_toks (n : node) : list tk :=
  match n with
  | Node v bs =>
      match v with
      | AStr s => LP :: (SYMBOL, s) :: flat_map (branch_toks node_toks) bs ++ [RP]
      | _ => [LP; RP]
      end
  end.

(* one comment line per metadata entry: hash space colon colon key [space value] *)
Definition meta_line (kv : str * str) : str :=
  [35;32;58;58]%N ++ fst kv ++ match snd kv with [] => [] | v => 32%N :: v end.

Definition tokens_of (t : tree) : list tk :=
  map (fun kv => (COMMENT, meta_line kv)) (tmeta t) ++ node_toks (troot t).

(* ------------------------------------------------------------------ *)
(** * "differ only in whitespace between tokens" *)

(* [blank_interleave s ws]: [s] is the lexemes [ws] in order, separated by
   (possibly empty) runs of spaces and line feeds, and nothing else *)
Inductive blank_interleave : str -> list str -> Prop :=
| bi_nil : blank_interleave [] []
| bi_blank : forall c s ws, c = 32%N \/ c = 10%N -> blank_interleave s ws -> blank_interleave (c :: s) ws
| bi_tok : forall w s ws, blank_interleave s ws -> blank_interleave (w ++ s) (w :: ws).
