(** Declarative vocabulary for C13 (role inversion / canonicalisation laws). *)
From PM Require Export Impl.Model Impl.CanonRoles.

(* "-of" repeated k times *)
Fixpoint ofs (k : nat) : str := match k with O => [] | S k' => OF ++ ofs k' end.

(* canonical = fixed point of the inversion canonicaliser *)
Definition canonical (m : model) (r : str) : Prop := canonicalize_inversion m r = Some r.

(* a model-defined role never stays defined when "-of" is appended
   (true of every shipped model; re-checked from models/amr.py on every run).
   Needed: otherwise invert(':x') lands on the defined, non-inverted ':x-of',
   and a role inventory closed under appending "-of" makes the real
   _canonicalize_inversion loop grow forever (DESIGN.md N6). *)
Definition of_free (m : model) : Prop :=
  forall r, has_exact m r = true -> has_exact m (r ++ OF) = false.

(* normalisation targets are themselves canonical, start with ':' (or are '/'),
   contain no '~', and are not re-normalised (F19 shows this is needed) *)
Definition norm_closed_b (m : model) : bool :=
  forallb (fun kv : str * str =>
    let v := snd kv in
    str_eqb (ensure_colon_unless_slash v) v
    && negb (contains_char TILDE v)
    && match canonicalize_inversion m v with Some v' => str_eqb v' v | None => false end
    && match dget str_eqb v (norms m) with None => true | Some v' => str_eqb v' v end)
    (norms m).

(* erase the role text of every branch, keeping '~' + alignment *)
Definition role_suffix (role : str) : bool * str :=
  let '(_, tilde, aln) := partition [TILDE] role in (tilde, aln).
(* shape of a tree with role texts removed *)
Inductive shape := ShAtom (a : atom) | ShNode (v : atom) (bs : list (bool * str * shape)).
Fixpoint shape_of_node (n : node) : shape :=
  match n with
  | Node v bs =>
      ShNode v (map (fun b : branch =>
                       let '(tilde, aln) := role_suffix (fst b) in
                       (tilde, aln,
                        match snd b with
                        | TAtom a => ShAtom a
                        | TNode n' => shape_of_node n'
                        end)) bs)
  end.
