(** Declarative vocabulary for C08 (tokens tile the input and follow the
    documented lexical grammar).  Nothing here mentions the scanners of
    Impl/Lexer.v except [is_ws], [is_name], the token record and the
    alternation orders; the scanners are related to it in Proofs/Lexer_lemmas.v. *)
From PM Require Export Impl.Lexer.

(* ------------------------------------------------------------------ *)
(** * The lexical grammar, class by class *)

(* [0-9]+ *)
Definition digits1 (d : str) : Prop := d <> [] /\ forallb is_digit d = true.

(* (?:,[0-9]+)* *)
Inductive more_digits : str -> Prop :=
| md_nil : more_digits []
| md_cons : forall d m, digits1 d -> more_digits m -> more_digits (44%N :: d ++ m).

(* (?:[a-zA-Z]\.?)?  : nothing, one ASCII letter, or one ASCII letter and a period *)
Definition align_prefix (p : str) : Prop :=
  p = [] \/ exists c, is_ascii_alpha c = true /\ (p = [c] \/ p = [c; 46%N]).

(* the inside of a STRING after the opening dquote, up to and including the
   closing dquote: plain characters (neither dquote nor backslash), or a
   backslash followed by any character but LF; the first unescaped dquote ends it *)
Inductive str_body : str -> Prop :=
| sb_end : str_body [34%N]
| sb_plain : forall c w, c <> 34%N -> c <> 92%N -> str_body w -> str_body (c :: w)
| sb_esc : forall d w, d <> 10%N -> str_body w -> str_body (92%N :: d :: w).

(* the language of each token class *)
Definition class_ok (k : tokty) (w : str) : Prop :=
  match k with
  | COMMENT => exists a, w = 35%N :: a /\ forallb (fun c => negb (eqc c 10)) a = true
  | STRING => exists b, w = 34%N :: b /\ str_body b
  | LPAREN => w = [40%N]
  | RPAREN => w = [41%N]
  | SLASH => w = [47%N]
  | ROLE => exists a, w = 58%N :: a /\ forallb is_name a = true
  | SYMBOL => w <> [] /\ forallb is_name w = true
  | ALIGNMENT => exists p d m, w = 126%N :: p ++ d ++ m /\ align_prefix p /\ digits1 d /\ more_digits m
  | UNEXPECTED => exists c, w = [c] /\ is_ws c = false
  end.

Definition not_starting (p : N -> bool) (r : str) : Prop :=
  match r with [] => True | c :: _ => p c = false end.

(* the right context a lexeme of the class requires: greedy classes are maximal,
   a comment runs to the end of the line (or to a final LF when the caller
   passes lines that keep their terminator) *)
Definition follow_ok (k : tokty) (r : str) : Prop :=
  match k with
  | COMMENT => r = [] \/ r = [10%N]
  | ROLE | SYMBOL => not_starting is_name r
  | ALIGNMENT =>
      not_starting is_digit r /\
      match r with c :: r' => c = 44%N -> not_starting is_digit r' | [] => True end
  | _ => True
  end.

(* [w] is THE lexeme of class [k] at the head of [s], [r] is what follows *)
Definition lexeme (k : tokty) (s w r : str) : Prop :=
  s = w ++ r /\ class_ok k w /\ follow_ok k r.

Definition no_lexeme (k : tokty) (s : str) : Prop := forall w r, ~ lexeme k s w r.

(* ordered alternation: [k] is the first class of [alts] with a lexeme at [s] *)
Definition first_lexeme (alts : list tokty) (s : str) (k : tokty) (w r : str) : Prop :=
  exists pre post, alts = pre ++ k :: post /\
    (forall k', In k' pre -> no_lexeme k' s) /\ lexeme k s w r.

(* ------------------------------------------------------------------ *)
(** * One line: the scanning relation (finditer) *)

Inductive lex_rel (alts : list tokty) (ln : N) : N -> str -> list token -> Prop :=
| lr_nil : forall off, lex_rel alts ln off [] []
| lr_skip : forall off c s toks,
    (forall k, In k alts -> no_lexeme k (c :: s)) ->
    lex_rel alts ln (off + 1) s toks ->
    lex_rel alts ln off (c :: s) toks
| lr_tok : forall off s k w r toks,
    s <> [] -> first_lexeme alts s k w r ->
    lex_rel alts ln (off + N.of_nat (length w)) r toks ->
    lex_rel alts ln off s (mkToken k w ln off :: toks).

(* ------------------------------------------------------------------ *)
(** * One line: tiling *)

Definition all_ws (g : str) : Prop := forallb is_ws g = true.

Definition tend (t : token) : N := (toff t + N.of_nat (length (ttext t)))%N.

(* [tiles ln off s toks]: [s], which starts at column [off] of line [ln], is
   gap ++ text ++ gap ++ text ++ ... ++ gap with every gap made of ASCII
   blanks only and every text non-empty and carried, with its exact column
   and the line number, by the corresponding token *)
Inductive tiles (ln : N) : N -> str -> list token -> Prop :=
| tiles_nil : forall off g, all_ws g -> tiles ln off g []
| tiles_cons : forall off g t rest toks,
    all_ws g -> ttext t <> [] -> tline t = ln ->
    toff t = (off + N.of_nat (length g))%N ->
    tiles ln (tend t) rest toks ->
    tiles ln off (g ++ ttext t ++ rest) (t :: toks).

(* position [i] of the line lies inside token [t] *)
Definition covers (t : token) (i : nat) : Prop :=
  (toff t <= N.of_nat i /\ N.of_nat i < tend t)%N.

(* strictly increasing, non-overlapping spans starting at or after [off] *)
Fixpoint ordered (off : N) (toks : list token) : Prop :=
  match toks with
  | [] => True
  | t :: toks' => (off <= toff t)%N /\ (toff t < tend t)%N /\ ordered (tend t) toks'
  end.

(* the slice line[off : off+len] *)
Definition substr (s : str) (off : N) (len : nat) : str :=
  firstn len (skipn (N.to_nat off) s).

(* ------------------------------------------------------------------ *)
(** * Several lines *)

Fixpoint number_from (n : N) (ls : list str) : list (N * str) :=
  match ls with [] => [] | l :: ls' => (n, l) :: number_from (n + 1) ls' end.

Definition is_eol (c : N) : bool := eqc c 10 || eqc c 13.
Definition no_eol (p : str) : Prop := forallb (fun c => negb (is_eol c)) p = true.

(* s = p0 t1 p1 t2 ... tn pn : no piece contains LF or CR, every terminator
   is LF, CR LF or a CR that is not followed by LF *)
Inductive splits : str -> list str -> Prop :=
| sp_last : forall p, no_eol p -> splits p [p]
| sp_lf : forall p rest ps, no_eol p -> splits rest ps -> splits (p ++ 10%N :: rest) (p :: ps)
| sp_crlf : forall p rest ps, no_eol p -> splits rest ps ->
    splits (p ++ 13%N :: 10%N :: rest) (p :: ps)
| sp_cr : forall p rest ps, no_eol p -> not_starting (fun c => eqc c 10) rest ->
    splits rest ps -> splits (p ++ 13%N :: rest) (p :: ps).

(* what one terminator looks like, and rebuilding the text from pieces and terminators *)
Definition is_terminator (t : str) : Prop := t = [10%N] \/ t = [13%N; 10%N] \/ t = [13%N].
Fixpoint interleave (ps ts : list str) : str :=
  match ps, ts with
  | p :: ps', t :: ts' => p ++ t ++ interleave ps' ts'
  | p :: _, [] => p
  | [], _ => []
  end.
