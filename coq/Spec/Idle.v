(** Vocabulary of the idempotence certificate of C20 (Properties/C20c.v): decidable
    conditions on what the first pass of the penman command wrote under which the
    second pass has nothing left to reify or dereify.  Definitions only (extracted for the
    harness in Extract/ExCli.v); the theorems are in Proofs/NormIdem_lemmas.v. *)
From PM Require Export Spec.Pipeline Spec.WellFormed Spec.WfLayout.

Definition role_fixed (m : model) (t : triple) : bool := negb (is_role_reifiable m (trole t)).
Definition no_reifiable (m : model) (g : graph) : bool := forallb (role_fixed m) (triples g).

Definition not_attribute (vars : list atom) (t : triple) : bool :=
  str_eqb (trole t) INSTANCE || mem atom_eqb (ttgt t) vars.
Definition no_attributes (g : graph) : bool := forallb (not_attribute (variables g)) (triples g).

(* nothing collapsible: the agenda of dereify_edges is empty *)
Definition agenda_empty (m : model) (g : graph) : bool :=
  match dereify_agenda m g with Ok [] => true | _ => false end.

(* the same options without --reify-edges, --dereify-edges and --reify-attributes *)
Definition strip_reify (o : cli_opts) : cli_opts :=
  mkOpts (o_model o) (o_canonicalize_roles o) false false
         false (o_indicate_branches o) (o_reconfigure o) (o_rearrange o)
         (o_make_variables o) (o_indent o) (o_compact o) (o_triples o) (o_check o) (o_ov o).

(* the graph that enters the reify stage *)
Definition entering_graph (o : cli_opts) : stage tree graph := canonicalise o >=> interpret_stage o.

Definition idle_on (o : cli_opts) (g : graph) : bool :=
  (negb (o_reify_edges o) || no_reifiable (o_model o) g) &&
  (negb (o_dereify_edges o) || agenda_empty (o_model o) g) &&
  (negb (o_reify_attributes o) || no_attributes g).

Definition reify_only (o : cli_opts) : bool := plain (strip_reify o).

Definition root_has_var (t : tree) : bool :=
  match node_var (troot t) with ANone => false | _ => true end.

(* what the first pass wrote leaves the second pass nothing to do: decidable *)
Definition second_pass_idle (o : cli_opts) (t1 : tree) : bool :=
  wf_tree t1 && wf_layout_tree (o_model o) t1 && root_has_var t1 &&
  str_eqb (format (o_indent o) (o_compact o) (drop_empty_concepts t1))
          (format (o_indent o) (o_compact o) t1) &&
  match interpret (o_model o) t1 with
  | Ok g1 => idle_on o g1
  | _ => false
  end.

Definition reify_canon_only (o : cli_opts) : bool := plain_rest (strip_reify o).

(* the first-pass output, canonicalised again, is well formed, formats to the same
   text and leaves the reifications nothing to do *)
Definition second_pass_idle_c (o : cli_opts) (t1 : tree) : bool :=
  wf_tree t1 &&
  match canon_of o t1 with
  | Some t1c =>
      wf_layout_tree (o_model o) t1c && root_has_var t1c &&
      str_eqb (format (o_indent o) (o_compact o) (drop_empty_concepts t1c))
              (format (o_indent o) (o_compact o) t1) &&
      match interpret (o_model o) t1c with
      | Ok g1 => idle_on o g1
      | _ => false
      end
  | None => false
  end.

(* the boolean the harness evaluates on every tree of an input *)
Definition idempotence_certificate (o : cli_opts) (s : str) : bool :=
  reify_canon_only o &&
  forallb (fun t => match pre_format o t with Ok t1 => second_pass_idle_c o t1 | _ => false end)
          (fst (iterparse_str s)).

