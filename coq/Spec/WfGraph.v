(** Declarative vocabulary of C11 / C12: well-formed graphs, connectivity,
    collapsible nodes, unambiguous reification tables.  Everything here is a
    boolean decision procedure (or a Prop wrapper [... = true]) so that the
    hypotheses of the theorems can be evaluated on concrete graphs and tables. *)
From PM Require Export Impl.Transform.

(* ---- well-formed graphs -------------------------------------------------- *)
Definition has_colon (r : str) : bool := startswith r [COLON].
Definition is_inst (t : triple) : bool := str_eqb (trole t) INSTANCE.

(* number of instance triples whose source is [v] *)
Definition inst_count (ts : list triple) (v : atom) : nat :=
  length (filter (fun t => atom_eqb (tsrc t) v && is_inst t) ts).

Fixpoint nodup_b {A} (eqb : A -> A -> bool) (l : list A) : bool :=
  match l with
  | [] => true
  | x :: l' => negb (mem eqb x l') && nodup_b eqb l'
  end.

(* every source is a [str]; roles carry their colon; every variable (sources
   and the explicit top) owns exactly one instance triple; no triple twice *)
Definition wf_graph_b (g : graph) : bool :=
  forallb (fun t => is_astr (tsrc t)) (triples g)
  && forallb (fun t => has_colon (trole t)) (triples g)
  && forallb (fun v => Nat.eqb (inst_count (triples g) v) 1) (variables g)
  && nodup_b triple_eqb (triples g).
Definition wf_graph (g : graph) : Prop := wf_graph_b g = true.

(* the invariant every transformation preserves (C12): wf_graph without the
   pairwise-distinctness clause, which dereify_edges and indicate_branches can
   break by re-creating a triple that is already there *)
Definition node_graph_b (g : graph) : bool :=
  forallb (fun t => has_colon (trole t)) (triples g)
  && forallb (fun v => is_astr v && Nat.eqb (inst_count (triples g) v) 1) (variables g).
Definition node_graph (g : graph) : Prop := node_graph_b g = true.

(* no role of the reification table is (or becomes, once Graph() has added the
   colon) the instance role *)
Definition colon_inst (r : str) : bool := str_eqb (ensure_colon r) INSTANCE.
Definition table_inst_free (m : model) : bool :=
  forallb (fun '(r, c, s, t) => negb (colon_inst r) && negb (colon_inst s) && negb (colon_inst t)) (reifs m).

(* every variable is a [str] (indicate_branches asserts it) *)
Definition vars_are_str (g : graph) : Prop := forall x, is_var g x = true -> is_astr x = true.

(* ---- markers ------------------------------------------------------------- *)
(* dict invariant (a Python dict has no duplicate keys) and sanity of markers:
   keys talk about nodes of the graph, every Push names a variable *)
Definition epi_pushes_vars (g : graph) (es : list epi) : bool :=
  forallb (fun e => match e with Push v => is_var g v | _ => true end) es.
Definition epi_ok_b (g : graph) : bool :=
  nodup_b triple_eqb (dkeys (epidata g))
  && forallb (fun kv : triple * list epi => is_var g (tsrc (fst kv)) && epi_pushes_vars g (snd kv))
             (epidata g).
Definition epi_ok (g : graph) : Prop := epi_ok_b g = true.

(* canonical marker order of one triple, as interpret produces it:
   at most one role alignment, then target alignments, at most one Push, POPs *)
Definition canon_epis (l : list epi) : list epi :=
  push_list (last_such is_raln l) ++ filter is_aln l ++ push_list (last_such is_push l) ++ filter is_pop l.
Definition epis_canonical_b (l : list epi) : bool := list_eqb epi_eqb (canon_epis l) l.

(* ---- connectivity ---------------------------------------------------------- *)
(* undirected edges between variables: non-instance triples with a variable target *)
Definition is_edge (g : graph) (t : triple) : bool := negb (is_inst t) && is_var g (ttgt t).
Definition reach_step (g : graph) (seen : list atom) : list atom :=
  fold_left (fun acc t =>
               if is_edge g t then
                 if mem atom_eqb (tsrc t) acc && negb (mem atom_eqb (ttgt t) acc) then acc ++ [ttgt t]
                 else if mem atom_eqb (ttgt t) acc && negb (mem atom_eqb (tsrc t) acc) then acc ++ [tsrc t]
                 else acc
               else acc) (triples g) seen.
Fixpoint reach_iter (n : nat) (g : graph) (seen : list atom) : list atom :=
  match n with O => seen | S n' => reach_iter n' g (reach_step g seen) end.
Definition reachable (g : graph) : list atom :=
  match graph_top g with
  | Some t => reach_iter (length (variables g)) g [t]
  | None => []
  end.
Definition connected_b (g : graph) : bool :=
  forallb (fun v => mem atom_eqb v (reachable g)) (variables g).
Definition connected (g : graph) : Prop := connected_b g = true.

(* ---- collapsible nodes ------------------------------------------------------ *)
Definition no_collapsible (m : model) (g : graph) : Prop := dereify_agenda m g = Ok [].
Definition no_collapsible_b (m : model) (g : graph) : bool :=
  match dereify_agenda m g with Ok [] => true | _ => false end.

(* ---- unambiguous tables ----------------------------------------------------- *)
Definition outcome_is (o : outcome triple) (t : triple) : bool :=
  match o with Ok x => triple_eqb x t | _ => false end.
Definition MK_V : atom := AStr [118]%N.   (* v *)
Definition MK_A : atom := AStr [65]%N.    (* A *)
Definition MK_B : atom := AStr [66]%N.    (* B *)

(* shape conditions on the first row (c, sr, tr) of a reifiable role r *)
Definition row_shape_ok (m : model) (r : str) : bool :=
  match reif_rows m r with
  | [] => true
  | (c, sr, tr) :: _ =>
      negb (str_eqb r INSTANCE) && negb (str_eqb sr INSTANCE) && negb (str_eqb tr INSTANCE)
      && has_colon sr && has_colon tr && negb (str_eqb sr tr)
      && negb (is_role_reifiable m sr) && negb (is_role_reifiable m tr)
  end.
(* dereify gives back r when the reified triples are met in the WRITTEN order
   (in-triple first) ... *)
Definition row_plain_ok (m : model) (r : str) : bool :=
  match reif_rows m r with
  | [] => true
  | (c, sr, tr) :: _ =>
      outcome_is (dereify m (MK_V, INSTANCE, AStr c) (MK_V, sr, MK_A) (MK_V, tr, MK_B)) (MK_A, r, MK_B)
  end.
(* ... and when they are met in the INVERTED order (out-triple first) *)
Definition row_inv_ok (m : model) (r : str) : bool :=
  match reif_rows m r with
  | [] => true
  | (c, sr, tr) :: _ =>
      outcome_is (dereify m (MK_V, INSTANCE, AStr c) (MK_V, tr, MK_B) (MK_V, sr, MK_A)) (MK_A, r, MK_B)
  end.
Definition table_ok_role (m : model) (r : str) : bool :=
  row_shape_ok m r && row_plain_ok m r && row_inv_ok m r.
Definition table_ok (m : model) (roles : list str) : Prop :=
  forallb (table_ok_role m) roles = true.
Definition roles_used (g : graph) : list str := map trole (triples g).

(* per-triple version, the exact requirement: the inverted-order clause is only
   needed for triples that reify_edges swaps *)
Definition reify_swaps (g : graph) (t : triple) : bool :=
  negb (atom_eqb (tsrc t) (ttgt t)) && appears_inverted g t.
Definition table_ok_for (m : model) (g : graph) : bool :=
  forallb (fun t => row_shape_ok m (trole t)
                    && (if reify_swaps g t then row_inv_ok m (trole t) else row_plain_ok m (trole t)))
          (triples g).

(* ---- reify_attributes: contracting the new nodes ------------------------------- *)
(* a pair  (s, r, v) (v, :instance, c)  with v not among the old names is
   contracted to (s, r, c) *)
Fixpoint contract_attrs (old : list atom) (ts : list triple) : list triple :=
  match ts with
  | [] => []
  | t1 :: rest =>
      match rest with
      | t2 :: rest' =>
          if negb (is_inst t1) && negb (mem atom_eqb (ttgt t1) old)
             && is_inst t2 && atom_eqb (tsrc t2) (ttgt t1)
          then (tsrc t1, trole t1, ttgt t2) :: contract_attrs old rest'
          else t1 :: contract_attrs old rest
      | [] => [t1]
      end
  end.

(* ---- indicate_branches: which triples get a top-role triple in front ------------ *)
Definition indicates (g : graph) (t : triple) : bool :=
  match get_pushed_variable g t with
  | Some v => atom_eqb v (ttgt t) || (atom_eqb v (tsrc t) && is_var g (ttgt t))
  | None => false
  end.

(* ---- connectivity, declaratively --------------------------------------------- *)
(* the atoms reachable from the top along edges, in either direction *)
Inductive reach (g : graph) : atom -> Prop :=
| reach_top : forall t, graph_top g = Some t -> reach g t
| reach_eq : forall a b, reach g a -> atom_eqb a b = true -> reach g b
| reach_fwd : forall t, In t (triples g) -> is_edge g t = true -> reach g (tsrc t) -> reach g (ttgt t)
| reach_bwd : forall t, In t (triples g) -> is_edge g t = true -> reach g (ttgt t) -> reach g (tsrc t).
(* every variable hangs on the top *)
Definition connectedP (g : graph) : Prop := forall x, is_var g x = true -> reach g x.

(* ---- programs of transformations (C12: every composition) ------------------------ *)
Inductive xform := XReifyEdges | XDereifyEdges | XReifyAttributes | XIndicateBranches.
Definition apply_xform (m : model) (x : xform) (g : graph) : outcome graph :=
  match x with
  | XReifyEdges => reify_edges m g
  | XDereifyEdges => dereify_edges m g
  | XReifyAttributes => reify_attributes g
  | XIndicateBranches => indicate_branches m g
  end.
Fixpoint run_xforms (m : model) (prog : list xform) (g : graph) : outcome graph :=
  match prog with
  | [] => Ok g
  | x :: prog' => g1 <- apply_xform m x g ;; run_xforms m prog' g1
  end.
(* the order in which the command-line tool applies them (penman/__main__.py _process_in) *)
Definition cli_order : list xform := [XReifyEdges; XDereifyEdges; XReifyAttributes; XIndicateBranches].
