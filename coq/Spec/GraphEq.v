(** Declarative vocabulary of C03 / C05 / C06: what it means for a graph to be
    well formed, weakly connected from a top, and for two graphs to have the
    same content. *)
From PM Require Export Impl.Model Impl.Graph.
From Coq Require Export Sorting.Permutation.

(* ------------------------------------------------------------------ *)
(** * Atoms and triples compared by their written form

    A number is modelled by its [str()] text plus a truthiness flag
    (Base/Types.v); [atom_eqb] -- Python's [==] between the atoms the
    generators use -- looks at the text only.  [akey] erases the flag, so that
    [akey a = akey b] iff [atom_eqb a b = true] (Proofs/Configure_content.v,
    [akey_eq_iff]): comparing keys is comparing written forms. *)
Definition akey (a : atom) : atom :=
  match a with ANum t _ => ANum t false | _ => a end.
Definition tkey (t : triple) : triple := (akey (tsrc t), trole t, akey (ttgt t)).

Definition is_instance (t : triple) : bool := str_eqb (trole t) INSTANCE.

(* the branch that expresses a triple at the node of its source: the concept
   branch is spelled "/" *)
Definition edge_of (t : triple) : triple :=
  (akey (tsrc t), (if is_instance t then SLASHS else trole t), akey (ttgt t)).

(* ------------------------------------------------------------------ *)
(** * Variables, connectivity *)

(* an undirected step along a non-instance triple whose target is a variable *)
Definition link (g : graph) (a b : atom) : Prop :=
  exists t, In t (triples g) /\ is_instance t = false /\ is_var g (ttgt t) = true /\
    ((atom_eqb (tsrc t) a = true /\ atom_eqb (ttgt t) b = true) \/
     (atom_eqb (tsrc t) b = true /\ atom_eqb (ttgt t) a = true)).

Inductive reach (g : graph) (a : atom) : atom -> Prop :=
| reach_refl : forall b, atom_eqb a b = true -> reach g a b
| reach_step : forall b c, reach g a b -> link g b c -> reach g a c.

(* every variable is weakly connected to [top], and [top] is a variable *)
Definition connected (g : graph) (top : atom) : Prop :=
  is_var g top = true /\ forall v, is_var g v = true -> reach g top v.

(* boolean decision procedure: saturate the set reachable from [top] *)
Definition linkb (g : graph) (a b : atom) : bool :=
  existsb (fun t => negb (is_instance t) && is_var g (ttgt t) &&
                    ((atom_eqb (tsrc t) a && atom_eqb (ttgt t) b) ||
                     (atom_eqb (tsrc t) b && atom_eqb (ttgt t) a))) (triples g).
Definition grow (g : graph) (seen : list atom) : list atom :=
  seen ++ filter (fun v => negb (mem atom_eqb v seen) && existsb (fun s => linkb g s v) seen)
                 (variables g).
Fixpoint saturate (n : nat) (g : graph) (seen : list atom) : list atom :=
  match n with O => seen | S n' => saturate n' g (grow g seen) end.
Definition connectedb (g : graph) (top : atom) : bool :=
  is_var g top &&
  forallb (fun v => mem atom_eqb v (saturate (length (variables g)) g [top])) (variables g).

(* ------------------------------------------------------------------ *)
(** * Well-formed graphs (the domain of C03) *)

Definition wf_symbol_atom (a : atom) : Prop :=
  exists s, a = AStr s /\ s <> [] .

Definition instances_of (g : graph) (v : atom) : list triple :=
  filter (fun t => is_instance t && atom_eqb (tsrc t) v) (triples g).

Record wf_graph (g : graph) : Prop := {
  (* sources (the variables) are non-empty symbols *)
  wf_sources : forall t, In t (triples g) -> wf_symbol_atom (tsrc t);
  (* each variable has exactly one instance triple *)
  wf_one_instance : forall v, is_var g v = true -> length (instances_of g v) = 1;
  (* triples are pairwise distinct (by written form) *)
  wf_distinct : NoDup (map tkey (triples g));
  (* roles carry their colon, as the Graph constructor guarantees *)
  wf_roles : forall t, In t (triples g) -> startswith (trole t) [COLON] = true;
  (* an explicit top, if any, is a variable: automatic from [variables] *)
  wf_nonempty : triples g <> []
}.

(* ------------------------------------------------------------------ *)
(** * Same content *)

Definition retop (g : graph) (top : atom) : graph :=
  mkGraph (triples g) (Some top) (epidata g) (gmeta g).

Definition same_atoms (l1 l2 : list atom) : Prop :=
  forall a, mem atom_eqb a l1 = mem atom_eqb a l2.

(* same top, same variable set, triple lists equal as multisets after the
   model's single deinversion of each triple; constants by written form *)
Definition graph_eq (m : model) (g1 g2 : graph) : Prop :=
  option_map akey (graph_top g1) = option_map akey (graph_top g2) /\
  same_atoms (variables g1) (variables g2) /\
  Permutation (map (fun t => tkey (deinvert m t)) (triples g1))
              (map (fun t => tkey (deinvert m t)) (triples g2)).
