(** Declarative vocabulary of C03 / C05 / C06: what it means for a graph to be
    well formed, weakly connected from a top, and for two graphs to have the
    same content. *)
From PM Require Export Impl.Model Impl.Graph Impl.Format.
From Coq Require Export Sorting.Permutation.

(* ------------------------------------------------------------------ *)
(** * Atoms and triples compared by their written form

    A number is modelled by its [str()] text plus a truthiness flag
    (Base/Types.v); [atom_eqb] -- Python's [==] between the atoms the
    generators use -- looks at the text only.  [akey] erases the flag, so that
    [akey a = akey b] iff [atom_eqb a b = true] (Proofs/Configure_content.v,
    [akey_eq_iff]): comparing keys is comparing written forms. *)
Definition akey (a : atom) : atom :=
  match a with ANum t _ => ANum t false | _ => a end.
Definition tkey (t : triple) : triple := (akey (tsrc t), trole t, akey (ttgt t)).

Definition is_instance (t : triple) : bool := str_eqb (trole t) INSTANCE.

(* the branch that expresses a triple at the node of its source: the concept
   branch is spelled [/] *)
Definition edge_of (t : triple) : triple :=
  (akey (tsrc t), (if is_instance t then SLASHS else trole t), akey (ttgt t)).

(* ------------------------------------------------------------------ *)
(** * Variables, connectivity *)

(* an undirected step along a non-instance triple whose target is a variable *)
Definition link (g : graph) (a b : atom) : Prop :=
  exists t, In t (triples g) /\ is_instance t = false /\ is_var g (ttgt t) = true /\
    ((atom_eqb (tsrc t) a = true /\ atom_eqb (ttgt t) b = true) \/
     (atom_eqb (tsrc t) b = true /\ atom_eqb (ttgt t) a = true)).

Inductive reach (g : graph) (a : atom) : atom -> Prop :=
| reach_refl : forall b, atom_eqb a b = true -> reach g a b
| reach_step : forall b c, reach g a b -> link g b c -> reach g a c.

(* every variable is weakly connected to [top], and [top] is a variable *)
Definition connected (g : graph) (top : atom) : Prop :=
  is_var g top = true /\ forall v, is_var g v = true -> reach g top v.

(* boolean decision procedure: saturate the set reachable from [top] *)
Definition linkb (g : graph) (a b : atom) : bool :=
  existsb (fun t => negb (is_instance t) && is_var g (ttgt t) &&
                    ((atom_eqb (tsrc t) a && atom_eqb (ttgt t) b) ||
                     (atom_eqb (tsrc t) b && atom_eqb (ttgt t) a))) (triples g).
Definition grow (g : graph) (seen : list atom) : list atom :=
  seen ++ filter (fun v => negb (mem atom_eqb v seen) && existsb (fun s => linkb g s v) seen)
                 (variables g).
Fixpoint saturate (n : nat) (g : graph) (seen : list atom) : list atom :=
  match n with O => seen | S n' => saturate n' g (grow g seen) end.
Definition connectedb (g : graph) (top : atom) : bool :=
  is_var g top &&
  forallb (fun v => mem atom_eqb v (saturate (length (variables g)) g [top])) (variables g).

(* ------------------------------------------------------------------ *)
(** * Same content *)

Definition retop (g : graph) (top : atom) : graph :=
  mkGraph (triples g) (Some top) (epidata g) (gmeta g).

Definition same_atoms (l1 l2 : list atom) : Prop :=
  forall a, mem atom_eqb a l1 = mem atom_eqb a l2.

(* same top, same variable set, triple lists equal as multisets after the
   model's single deinversion of each triple; constants by written form *)
Definition graph_eq (m : model) (g1 g2 : graph) : Prop :=
  option_map akey (graph_top g1) = option_map akey (graph_top g2) /\
  same_atoms (variables g1) (variables g2) /\
  Permutation (map (fun t => tkey (deinvert m t)) (triples g1))
              (map (fun t => tkey (deinvert m t)) (triples g2)).

(* ------------------------------------------------------------------ *)
(** * Reading a tree: all its branches as triples, all its nodes *)

Definition target_atom (t : target) : atom :=
  match t with TAtom a => a | TNode n => node_var n end.

(* every branch (role, target) of every node, as (variable, role, target) with
   a nested node standing for its variable; the concept branch keeps role [/] *)
Fixpoint node_branch_triples (n : node) : list triple :=
  match n with
  | Node v bs =>
      flat_map (fun b : branch =>
                  (akey v, fst b, akey (target_atom (snd b)))
                  :: match snd b with TNode n' => node_branch_triples n' | TAtom _ => [] end) bs
  end.
Definition tree_triples (t : tree) : list triple := node_branch_triples (troot t).

(* the variable of every node of the tree (unnamed nodes included) *)
Fixpoint node_all_vars (n : node) : list atom :=
  match n with
  | Node v bs =>
      v :: flat_map (fun b : branch =>
                       match snd b with TNode n' => node_all_vars n' | TAtom _ => [] end) bs
  end.
Definition tree_node_vars (t : tree) : list atom := node_all_vars (troot t).

(* ------------------------------------------------------------------ *)
(** * Reading the branches back as graph triples *)

(* the concept branch [/ c] of node v is the triple (v, :instance, c) *)
Definition unslash (b : triple) : triple :=
  if str_eqb (trole b) SLASHS then (tsrc b, INSTANCE, ttgt b) else b.

(* an instance triple whose concept is None or '' is not written (the node is
   printed as [(v)]); every other triple is *)
Definition no_concept (a : atom) : bool :=
  match a with ANone => true | AStr [] => true | _ => false end.
Definition is_written (t : triple) : bool := negb (is_instance t && no_concept (ttgt t)).

(* the roles of [g] invert and deinvert consistently under [m]: inverting
   twice gives the role back, inversion flips inverted-ness, and no inversion
   yields the instance role.  Follows from C13 ([of_free m] and canonical
   roles other than :instance-of); see [canonical_roles_invertible]. *)
Definition role_invertible (m : model) (r : str) : Prop :=
  invert_role m (invert_role m r) = r /\
  is_role_inverted m (invert_role m r) = negb (is_role_inverted m r) /\
  str_eqb (invert_role m r) INSTANCE = false.
Definition roles_invertible (m : model) (g : graph) : Prop :=
  forall t, In t (triples g) -> is_instance t = false -> role_invertible m (trole t).

(* the content of a graph / of a tree, up to the model's single deinversion *)
Definition graph_content (m : model) (g : graph) : list triple :=
  map (fun t => tkey (deinvert m t)) (filter is_written (triples g)).
Definition tree_content (m : model) (bs : list triple) : list triple :=
  map (fun b => tkey (deinvert m (unslash b))) bs.

(* ------------------------------------------------------------------ *)
(** * Vocabulary of the placement theorem (T2) *)

(* the top [configure] is asked for: the argument, else the graph's own top *)
Definition requested_top (g : graph) (top : option atom) : option atom :=
  match top with Some t => Some t | None => graph_top g end.

(* the epidata holds layout markers (Push / POP) only -- in any number, any
   order, naming anything, attached to any triple *)
Definition layout_only (g : graph) : Prop :=
  forall t es, In (t, es) (epidata g) -> forallb is_layout es = true.

(* roles carry their colon, as the Graph constructor guarantees ([mk_graph]) *)
Definition roles_have_colon (g : graph) : Prop :=
  Forall (fun t => startswith (trole t) [COLON] = true) (triples g).

(* the branch list written for an oriented triple [o] at the node of its source *)
Definition written_for (o : triple) : list triple :=
  if is_instance o && no_concept (ttgt o) then [] else [edge_of o].

(* how one triple [x] of the graph is expressed in the tree: oriented as
   written, or inverted (by its Push marker and/or because only its target was
   available as a node); instance triples are never inverted *)
Definition expressed_as (m : model) (x : triple) (bs : list triple) : Prop :=
  exists t' o,
    (t' = x \/ (t' = invert m x /\ is_instance x = false)) /\
    (o = t' \/ (o = invert m t' /\ is_instance t' = false)) /\
    bs = written_for o.

(* ------------------------------------------------------------------ *)
(** * The text of a node in non-compact mode (what [encode] uses) *)

(* an atomic target is written unless it is None or '' -- in particular the
   numbers 0 and 0.0 are written *)
Definition atom_text (a : atom) : str :=
  match a with ANone => [] | AStr [] => [] | _ => SPACE ++ atom_str a end.

Definition edge_text (indent : option Z) (column' : Z) (e : branch) : str :=
  let role := role_text (fst e) in
  let col_e := if is_adaptive indent then (column' + zlen role + 1)%Z else column' in
  match snd e with
  | TAtom a => role ++ atom_text a
  | TNode n' => role ++ SPACE ++ format_node indent col_e [] n'
  end.

Definition node_column (indent : option Z) (column : Z) (var : atom) : Z :=
  match indent with
  | None => column
  | Some z => if Z.eqb z (-1) then (column + zlen (atom_str var) + 2)%Z else (column + z)%Z
  end.
Definition node_joiner (indent : option Z) (column' : Z) : str :=
  match indent with None => SPACE | Some _ => 10%N :: zspaces column' end.

(* N3: every Push marker names a variable of the graph *)
Definition pushes_name_variables (g : graph) : Prop :=
  forall t es pv, In (t, es) (epidata g) -> In (Push pv) es -> is_var g pv = true.

(* variables are named: None is not a variable *)
Definition variables_named (g : graph) : Prop :=
  forall v, is_var g v = true -> atom_eqb v ANone = false.

(* ------------------------------------------------------------------ *)
(** * Well-formed graphs (the domain of C03 / C06) *)

Definition instances_of (g : graph) (v : atom) : list triple :=
  filter (fun t => is_instance t && atom_eqb (tsrc t) v) (triples g).

Record wf_graph (m : model) (g : graph) : Prop := {
  wf_nonempty : triples g <> [];
  (* None is not a variable *)
  wf_named : variables_named g;
  (* roles carry their colon, as the Graph constructor guarantees *)
  wf_roles : roles_have_colon g;
  (* roles invert consistently under the model (canonical roles: C13) *)
  wf_invertible : roles_invertible m g;
  (* each variable has exactly one instance triple *)
  wf_one_instance : forall v, is_var g v = true -> length (instances_of g v) = 1;
  (* triples are pairwise distinct (by written form) *)
  wf_distinct : NoDup (map tkey (triples g))
}.
