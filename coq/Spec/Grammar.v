(** Spec.Grammar -- the documented PENMAN grammar over TOKEN TYPES
    (docs/notation.rst, PEG) with the three robustness extensions of
    penman/_parse.py, stated declaratively, plus an independent executable
    recogniser written as a one-pass pushdown automaton (explicit stack,
    structural recursion on the token list, no fuel, no iterator record, no
    outcome monad).  Nothing here mentions Impl.Parse.

      Node      <- LPAREN RPAREN                                  (ext. 1: empty node)
                 / LPAREN SYMBOL NodeLabel? Relation* RPAREN
      NodeLabel <- SLASH                                          (ext. 2: missing concept)
                 / SLASH Atom
      Relation  <- Role                                           (ext. 3: missing target)
                 / Role Atom
                 / Role Node
      Role      <- ROLE ALIGNMENT?
      Atom      <- (SYMBOL / STRING) ALIGNMENT?

    In a COMPLETE derivation of a node the lookahead conditions of the
    extensions hold by themselves: a missing concept or a missing target can only
    be followed by the next Relation (which starts with ROLE) or by the closing
    RPAREN.  They matter for WHERE an error is reported; that is captured by
    [viable] (prefix of a derivable sequence). *)
From PM Require Export Base.Types.

Definition is_atom_ty (k : tokty) : bool :=
  match k with SYMBOL | STRING => true | _ => false end.

Inductive derives_role : list token -> str -> Prop :=
| DR_plain : forall t, tty t = ROLE -> derives_role [t] (ttext t)
| DR_align : forall t a, tty t = ROLE -> tty a = ALIGNMENT ->
    derives_role [t; a] (ttext t ++ ttext a).

Inductive derives_atom : list token -> str -> Prop :=
| DA_plain : forall t, is_atom_ty (tty t) = true -> derives_atom [t] (ttext t)
| DA_align : forall t a, is_atom_ty (tty t) = true -> tty a = ALIGNMENT ->
    derives_atom [t; a] (ttext t ++ ttext a).

Inductive derives_label : list token -> list branch -> Prop :=
| DL_none : derives_label [] []
| DL_missing : forall s, tty s = SLASH -> derives_label [s] [(SLASHS, TAtom ANone)]
| DL_concept : forall s ct c, tty s = SLASH -> derives_atom ct c ->
    derives_label (s :: ct) [(SLASHS, TAtom (AStr c))].

Inductive derives_node : list token -> node -> Prop :=
| DN_empty : forall l r, tty l = LPAREN -> tty r = RPAREN ->
    derives_node [l; r] (Node ANone [])
| DN_full : forall l v lab lb es eb r,
    tty l = LPAREN -> tty v = SYMBOL -> derives_label lab lb ->
    derives_edges es eb -> tty r = RPAREN ->
    derives_node (l :: v :: lab ++ es ++ [r]) (Node (AStr (ttext v)) (lb ++ eb))
with derives_edges : list token -> list branch -> Prop :=
| DE_nil : derives_edges [] []
| DE_missing : forall rt role es eb,
    derives_role rt role -> derives_edges es eb ->
    derives_edges (rt ++ es) ((role, TAtom ANone) :: eb)
| DE_atom : forall rt role at_ a es eb,
    derives_role rt role -> derives_atom at_ a -> derives_edges es eb ->
    derives_edges (rt ++ at_ ++ es) ((role, TAtom (AStr a)) :: eb)
| DE_node : forall rt role nt n es eb,
    derives_role rt role -> derives_node nt n -> derives_edges es eb ->
    derives_edges (rt ++ nt ++ es) ((role, TNode n) :: eb).

Scheme derives_node_mind := Induction for derives_node Sort Prop
  with derives_edges_mind := Induction for derives_edges Sort Prop.
Combined Scheme derives_mutind from derives_node_mind, derives_edges_mind.

(** A token sequence is viable when some derivation can still continue from it. *)
Definition viable (ts : list token) : Prop :=
  exists suffix n, derives_node (ts ++ suffix) n.

(** A tree = leading COMMENT tokens, then a node. *)
Definition derives_tree_node (ts : list token) (n : node) : Prop :=
  exists cs nt, ts = cs ++ nt /\ Forall (fun t => tty t = COMMENT) cs /\ derives_node nt n.
Definition viable_tree (ts : list token) : Prop :=
  exists suffix n, derives_tree_node (ts ++ suffix) n.

(* ------------------------------------------------------------------------ *)
(** * The independent recogniser: a pushdown automaton, one token per step *)

Inductive mode :=
| MStart                          (* nothing read: LPAREN *)
| MOpen                           (* after LPAREN: SYMBOL or RPAREN *)
| MVar                            (* after the variable: SLASH, ROLE, RPAREN *)
| MSlash                          (* after SLASH: SYMBOL/STRING, ROLE, RPAREN *)
| MConcept (c : str)              (* after the concept: ALIGNMENT, ROLE, RPAREN *)
| MEdges                          (* between relations: ROLE, RPAREN *)
| MRole (r : str)                 (* after ROLE: ALIGNMENT, SYMBOL/STRING, LPAREN, ROLE, RPAREN *)
| MRoleA (r : str)                (* after ROLE ALIGNMENT: SYMBOL/STRING, LPAREN, ROLE, RPAREN *)
| MTarget (r : str) (a : str).    (* after an atomic target: ALIGNMENT, ROLE, RPAREN *)

(* the node under construction: its variable and its branches, newest first *)
Record frame := mkFrame { f_var : str; f_acc : list branch }.
(* an enclosing node waiting for the nested node that is the target of [role] *)
Definition pending := (frame * str)%type.
Record pstate := mkP { p_mode : mode; p_cur : frame; p_stack : list pending }.

Definition frame0 : frame := mkFrame [] [].
Definition pda_init : pstate := mkP MStart frame0 [].

Inductive pstep := PNext (st : pstate) | PDone (n : node) | PDead.

(* what a relation boundary (ROLE or RPAREN) commits to the current frame *)
Definition flush (m : mode) (acc : list branch) : option (list branch) :=
  match m with
  | MStart | MOpen => None
  | MVar | MEdges => Some acc
  | MSlash => Some ((SLASHS, TAtom ANone) :: acc)
  | MConcept c => Some ((SLASHS, TAtom (AStr c)) :: acc)
  | MRole r | MRoleA r => Some ((r, TAtom ANone) :: acc)
  | MTarget r a => Some ((r, TAtom (AStr a)) :: acc)
  end.

(* a finished node goes to the enclosing frame, or is the result *)
Definition close_node (n : node) (stack : list pending) : pstep :=
  match stack with
  | [] => PDone n
  | (fr, role) :: stack' =>
      PNext (mkP MEdges (mkFrame (f_var fr) ((role, TNode n) :: f_acc fr)) stack')
  end.

Definition pda_step (st : pstate) (t : token) : pstep :=
  let m := p_mode st in
  let cur := p_cur st in
  let stk := p_stack st in
  match tty t with
  | LPAREN =>
      match m with
      | MStart => PNext (mkP MOpen frame0 stk)
      | MRole r | MRoleA r => PNext (mkP MOpen frame0 ((cur, r) :: stk))
      | _ => PDead
      end
  | RPAREN =>
      match m with
      | MStart => PDead
      | MOpen => close_node (Node ANone []) stk
      | _ =>
          match flush m (f_acc cur) with
          | Some acc => close_node (Node (AStr (f_var cur)) (rev acc)) stk
          | None => PDead
          end
      end
  | SYMBOL =>
      match m with
      | MOpen => PNext (mkP MVar (mkFrame (ttext t) []) stk)
      | MSlash => PNext (mkP (MConcept (ttext t)) cur stk)
      | MRole r | MRoleA r => PNext (mkP (MTarget r (ttext t)) cur stk)
      | _ => PDead
      end
  | STRING =>
      match m with
      | MSlash => PNext (mkP (MConcept (ttext t)) cur stk)
      | MRole r | MRoleA r => PNext (mkP (MTarget r (ttext t)) cur stk)
      | _ => PDead
      end
  | SLASH =>
      match m with
      | MVar => PNext (mkP MSlash cur stk)
      | _ => PDead
      end
  | ROLE =>
      match flush m (f_acc cur) with
      | Some acc => PNext (mkP (MRole (ttext t)) (mkFrame (f_var cur) acc) stk)
      | None => PDead
      end
  | ALIGNMENT =>
      match m with
      | MConcept c =>
          PNext (mkP MEdges (mkFrame (f_var cur) ((SLASHS, TAtom (AStr (c ++ ttext t))) :: f_acc cur)) stk)
      | MRole r => PNext (mkP (MRoleA (r ++ ttext t)) cur stk)
      | MTarget r a =>
          PNext (mkP MEdges (mkFrame (f_var cur) ((r, TAtom (AStr (a ++ ttext t))) :: f_acc cur)) stk)
      | _ => PDead
      end
  | COMMENT | UNEXPECTED => PDead
  end.

(** Result of a run: accepted (node, unread tokens, the token that closed it);
    failed AT a token (the unread tokens, offender first); or input ran out
    (last token read). *)
Inductive rres :=
| RAccept (n : node) (rest : list token) (last : option token)
| RFail (rest : list token)
| REnd (last : option token).

Fixpoint pda_run (st : pstate) (last : option token) (ts : list token) : rres :=
  match ts with
  | [] => REnd last
  | t :: r =>
      match pda_step st t with
      | PNext st' => pda_run st' (Some t) r
      | PDone n => RAccept n r (Some t)
      | PDead => RFail ts
      end
  end.

(* the state reached after reading all of [ts], when the run neither died nor finished *)
Fixpoint pda_after (st : pstate) (ts : list token) : option pstate :=
  match ts with
  | [] => Some st
  | t :: r => match pda_step st t with PNext st' => pda_after st' r | _ => None end
  end.

Definition recognise_full (ts : list token) : rres := pda_run pda_init None ts.

Definition recognise (ts : list token) : option (node * list token) :=
  match recognise_full ts with RAccept n rest _ => Some (n, rest) | _ => None end.

(* leading comments are not part of the node grammar *)
Fixpoint skip_comments (last : option token) (ts : list token) : option token * list token :=
  match ts with
  | t :: r => match tty t with COMMENT => skip_comments (Some t) r | _ => (last, ts) end
  | [] => (last, [])
  end.
Definition recognise_tree_from (l : option token) (ts : list token) : rres :=
  pda_run pda_init (fst (skip_comments l ts)) (snd (skip_comments l ts)).
Definition recognise_tree (ts : list token) : rres := recognise_tree_from None ts.

(** Position reported for a result that is not an acceptance: the offending
    token's (line, offset); at end of input the END of the last token read, or
    (0,0) when nothing was read. *)
Definition tok_end_pos (t : token) : N * N := (tline t, (toff t + N.of_nat (length (ttext t)))%N).
Definition rres_pos (r : rres) : option (N * N) :=
  match r with
  | RAccept _ _ _ => None
  | RFail (t :: _) => Some (tline t, toff t)
  | RFail [] => None
  | REnd (Some t) => Some (tok_end_pos t)
  | REnd None => Some (0%N, 0%N)
  end.

(* index of the offending token in the input (None: accepted or ran out) *)
Definition rres_index (ts : list token) (r : rres) : option nat :=
  match r with RFail rest => Some (length ts - length rest) | _ => None end.

(** A sequence of trees, as iterparse reads them: while a token remains and it is a
    COMMENT or an LPAREN, recognise one tree.  Result: the nodes recognised and the
    position of the error that ended the sequence, if any.  The counter only bounds
    the number of rounds (each consumes at least one token). *)
Definition starts_tree (t : token) : bool :=
  match tty t with COMMENT | LPAREN => true | _ => false end.
Fixpoint recognise_seq (f : nat) (l : option token) (ts : list token) (acc : list node)
  : list node * option (N * N) :=
  match f with
  | O => (rev acc, None)
  | S f' =>
      match ts with
      | [] => (rev acc, None)
      | t :: _ =>
          if starts_tree t then
            match recognise_tree_from l ts with
            | RAccept n rest last => recognise_seq f' last rest (n :: acc)
            | r => (rev acc, rres_pos r)
            end
          else (rev acc, None)
      end
  end.
Definition recognise_all (ts : list token) : list node * option (N * N) :=
  recognise_seq (S (length ts)) None ts [].
