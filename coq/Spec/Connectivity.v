(** Declarative vocabulary for C16: weak connectivity of a graph's sources.

    Atoms are compared with [atom_eqb] (on [None] and [str] that is equality;
    two numbers are equal when their texts are), exactly the comparison the
    Python dictionaries perform in the modelled domain. *)
From PM Require Export Impl.Graph Impl.Model Impl.Errors Impl.Interpret.

(* v is the source of some triple of g *)
Definition is_source (g : graph) (v : atom) : Prop :=
  mem atom_eqb v (map tsrc (triples g)) = true.

(* an edge u -> v of the graph: a NON-instance triple from u to v whose target
   is itself a source (so both ends are sources) *)
Definition link (g : graph) (u v : atom) : Prop :=
  exists t, In t (triples g) /\ str_eqb (trole t) INSTANCE = false /\
            atom_eqb (tsrc t) u = true /\ atom_eqb (ttgt t) v = true /\ is_source g v.

(* reflexive-symmetric-transitive closure of [link] *)
Inductive reachable (g : graph) : atom -> atom -> Prop :=
| reach_refl : forall u v, atom_eqb u v = true -> reachable g u v
| reach_edge : forall u v, link g u v -> reachable g u v
| reach_sym : forall u v, reachable g u v -> reachable g v u
| reach_trans : forall u v w, reachable g u v -> reachable g v w -> reachable g u w.

(* the sources are Python strings: the domain on which [sorted(unreachable)]
   is modelled (see Impl/Errors.v) *)
Definition str_sources (g : graph) : Prop :=
  forall t, In t (triples g) -> exists s, tsrc t = AStr s.

(* t occurs in the triple list (up to the dictionary's key equality) *)
Definition tmem (t : triple) (ts : list triple) : bool := existsb (triple_eqb t) ts.

(* has_role, said directly: defined, or a single inversion of a defined role *)
Definition role_defined (m : model) (r : str) : Prop :=
  has_exact m r = true \/ exists r0, r = r0 ++ OF /\ has_exact m r0 = true.

(* message [msg] is listed under context [k] of an error report *)
Definition reported (e : errdict) (k : ctx) (msg : emsg) : Prop :=
  exists l, dget ctx_eqb k e = Some l /\ In msg l.

(** Domain restriction N8 (decoded graphs): no NODE-target branch of the tree
    writes an instance triple, i.e. the concept role is not spelled literally
    (":instance", or ":instance-of" under a model that deinverts it, with or
    without a role alignment) on a branch whose target is a node.  The library
    itself cannot re-encode such a graph. *)
(* the role of the triple written by a branch, as it appears in the graph *)
Definition final_role (m : model) (role' : str) : str :=
  ensure_colon (trole (deinvert m (ANone, role', ANone))).
(* a node-target branch does not produce an instance triple *)
Definition node_role_ok (m : model) (role : str) : bool :=
  match process_role role with
  | Ok (role', _) => negb (str_eqb (final_role m role') INSTANCE)
  | _ => true
  end.
Fixpoint edges_not_instance (m : model) (n : node) : bool :=
  match n with
  | Node _ bs =>
      (fix go (bs : list branch) : bool :=
         match bs with
         | [] => true
         | (role, TAtom _) :: bs' => go bs'
         | (role, TNode n') :: bs' => node_role_ok m role && edges_not_instance m n' && go bs'
         end) bs
  end.
