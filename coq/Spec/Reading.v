(** Reference reading of PENMAN trees, written from docs/notation.rst and
    docs/structures.rst (C04, C14).

    Deliberately NOT in the style of Impl.Interpret: two phases (first the
    surface check of every alignment suffix, then a pure, total reading), no
    accumulators, no list patching: the number of node contexts that end on
    a triple is handed DOWN the tree ([k] below), and the alignment maps are
    computed from the items, not from an epidata list.

    Shared with the implementation model on purpose (they are the vocabulary,
    not the thing under test): the role predicates of Impl.Model
    ([is_role_inverted], [deinverts]) and the marker text parser
    [Impl.Surface.aln_from_string] (AlignmentMarker.from_string). *)
From PM Require Export Impl.Model Impl.Surface.

(** * Text level: where an alignment suffix starts *)

Definition marker := (list N * option str)%type.     (* indices, prefix *)

(* cut at the FIRST tilde: (text before, text after the tilde if there is one) *)
Fixpoint cut_tilde (s : str) : str * option str :=
  match s with
  | [] => ([], None)
  | c :: s' =>
      if eqc c TILDE then ([], Some s')
      else (c :: fst (cut_tilde s'), snd (cut_tilde s'))
  end.

(* a quoted string: everything up to and including the LAST dquote, and the rest *)
Definition split_after_last_quote (s : str) : str * str :=
  let sr := span (fun c => negb (eqc c QUOTE)) (rev s) in
  (rev (snd sr), rev (fst sr)).

(* role text -> (role of the triple, alignment text).  The concept sign "/"
   reads as the role ":instance" and carries no alignment. *)
Definition read_role (role : str) : str * option str :=
  if str_eqb role SLASHS then (INSTANCE, None) else cut_tilde role.

(* atomic target text -> (target of the triple, alignment text).  For a quoted
   string only text AFTER the closing dquote is a suffix; a tilde inside the
   quotes is content.  A text without any tilde is never split. *)
Definition read_atom (a : atom) : atom * option str :=
  match a with
  | AStr s =>
      if startswith s [QUOTE] then
        if contains_char TILDE s then
          match snd (split_after_last_quote s) with
          | [] => (a, None)
          | suf => (AStr (fst (split_after_last_quote s)), Some suf)
          end
        else (a, None)
      else
        match snd (cut_tilde s) with
        | Some x => (AStr (fst (cut_tilde s)), Some x)
        | None => (a, None)
        end
  | _ => (a, None)
  end.

Definition parse_marker (txt : option str) : outcome (option marker) :=
  match txt with
  | None => Ok None
  | Some a => x <- aln_from_string a ;; Ok (Some x)
  end.
(* total version, used after the surface check has passed *)
Definition marker_of (txt : option str) : option marker :=
  match parse_marker txt with Ok x => x | _ => None end.

(** * Phase 1: surface check, in document order.  SurfaceErr for the first
    alignment suffix that does not parse; a non-zero NUMBER as an atomic
    target (hand-built trees only) is the TypeError of [in] on a number. *)
Definition check_atom (a : atom) : outcome unit :=
  match a with
  | ANum _ false => Other 6
  | _ => _ <- parse_marker (snd (read_atom a)) ;; Ok tt
  end.

Fixpoint surface_check (n : node) : outcome unit :=
  match n with
  | Node _ bs =>
      (fix go (bs : list branch) : outcome unit :=
         match bs with
         | [] => Ok tt
         | (role, tgt) :: bs' =>
             _ <- parse_marker (snd (read_role role)) ;;
             _ <- match tgt with
                  | TAtom a => check_atom a
                  | TNode n' => surface_check n'
                  end ;;
             go bs'
         end) bs
  end.

(** * Variables of the tree *)

(* variables that DEFINE a node (a node without variable defines none) *)
Fixpoint defined_vars (n : node) : list atom :=
  match n with
  | Node v bs =>
      match v with ANone => [] | _ => [v] end ++
      flat_map (fun b : branch =>
                  match snd b with TAtom _ => [] | TNode n' => defined_vars n' end) bs
  end.
(* the variable slot of every node, [None] included *)
Fixpoint all_node_vars (n : node) : list atom :=
  match n with
  | Node v bs =>
      v :: flat_map (fun b : branch =>
                       match snd b with TAtom _ => [] | TNode n' => all_node_vars n' end) bs
  end.

(** * Phase 2: the reading.  One [item] per triple, in document order. *)
Record item := mkItem {
  i_triple : triple;            (* the triple; role as split from the text (no colon forced) *)
  i_ralign : option marker;     (* alignment that followed the ROLE *)
  i_talign : option marker;     (* alignment that followed the TARGET / concept *)
  i_ctx : atom;                 (* variable of the node whose branch list wrote it *)
  i_opened : option atom;       (* variable of the nested node this branch opened *)
  i_winv : bool;                (* written from its target's node with an inverted role *)
  i_closes : nat;               (* number of nested nodes whose last triple this is *)
  i_src : option (str * option atom)  (* the branch text: role, atomic target; None = not written *)
}.

(* orientation of a branch (v :role x).  [edge_like]: x names a node. *)
Definition orient (m : model) (v : atom) (role : str) (x : atom) (edge_like : bool)
  : triple * bool :=
  if deinverts m && is_role_inverted m role && edge_like
  then ((x, drop_last 3 role, v), true)
  else ((v, role, x), false).

Definition synth_item (v : atom) (k : nat) : item :=
  mkItem (v, INSTANCE, ANone) None None v None false k None.

Definition atom_item (m : model) (vars : list atom) (v : atom) (role : str) (a : atom) (k : nat)
  : item :=
  let r := read_role role in
  let x := read_atom a in
  let o := orient m v (fst r) (fst x) (mem atom_eqb (fst x) vars) in
  mkItem (fst o) (marker_of (snd r)) (marker_of (snd x)) v None (snd o) k (Some (role, Some a)).

Definition open_item (m : model) (v : atom) (role : str) (v' : atom) : item :=
  let r := read_role role in
  let o := orient m v (fst r) v' true in
  mkItem (fst o) (marker_of (snd r)) None v (Some v') (snd o) 0 (Some (role, None)).

(* does the branch list write the concept ("/" or a role that reads ":instance") *)
Definition writes_concept (bs : list branch) : bool :=
  existsb (fun b : branch => str_eqb (fst (read_role (fst b))) INSTANCE) bs.

(* [node_items m vars n k]: the triples of node [n], whose LAST triple also
   ends [k] enclosing node contexts. *)
Fixpoint node_items (m : model) (vars : list atom) (n : node) (k : nat) {struct n} : list item :=
  match n with
  | Node v bs =>
      let fix go (bs : list branch) : list item :=
        match bs with
        | [] => []
        | (role, tgt) :: bs' =>
            let k' := match bs' with [] => k | _ :: _ => O end in
            match tgt with
            | TAtom a => [atom_item m vars v role a k']
            | TNode n' => open_item m v role (node_var n') :: node_items m vars n' (S k')
            end ++ go bs'
        end in
      if writes_concept bs then go bs
      else synth_item v (match bs with [] => k | _ :: _ => O end) :: go bs
  end.

(* Graph(...) forces a colon on every role *)
Definition with_colon (t : triple) : triple :=
  (tsrc t, (if startswith (trole t) [COLON] then trole t else COLON :: trole t), ttgt t).

(* items whose triple did not occur earlier (the first occurrence wins) *)
Fixpoint firsts (its : list item) : list item :=
  match its with
  | [] => []
  | it :: rest =>
      it :: filter (fun x => negb (triple_eqb (i_triple x) (i_triple it))) (firsts rest)
  end.

Definition aligns_of (its : list item) : list (triple * marker) :=
  flat_map (fun it => match i_talign it with Some k => [(i_triple it, k)] | None => [] end)
           (firsts its).
Definition raligns_of (its : list item) : list (triple * marker) :=
  flat_map (fun it => match i_ralign it with Some k => [(i_triple it, k)] | None => [] end)
           (firsts its).

Record reading_result := mkReading {
  r_top : atom;                          (* the root variable *)
  r_triples : list triple;               (* document order *)
  r_aligns : list (triple * marker);     (* target / concept alignments, keyed by triple *)
  r_raligns : list (triple * marker);    (* role alignments *)
  r_vars : list atom;                    (* variable slot of every node *)
  r_items : list item
}.

Definition reading_of (m : model) (root : node) : reading_result :=
  let its := node_items m (defined_vars root) root 0 in
  mkReading (node_var root) (map (fun it => with_colon (i_triple it)) its)
            (aligns_of its) (raligns_of its) (all_node_vars root) its.

Definition reading (m : model) (t : tree) : outcome reading_result :=
  _ <- surface_check (troot t) ;; Ok (reading_of m (troot t)).

(** * The epigraph the documentation describes (structures.rst): alignment
    markers first (role, then target), a Push when the branch opened a node, one
    POP per node that ends on the triple; duplicates keep the first entry. *)
Definition item_markers (it : item) : list epi :=
  match i_ralign it with Some (i, p) => [RAln i p] | None => [] end ++
  match i_talign it with Some (i, p) => [Aln i p] | None => [] end ++
  match i_opened it with Some v => [Push v] | None => [] end ++
  repeat Pop (i_closes it).
Definition item_entry (it : item) : triple * list epi := (i_triple it, item_markers it).

Definition reading_graph (r : reading_result) (meta : dict str str) : graph :=
  mkGraph (r_triples r)
          (match r_top r with ANone => None | v => Some v end)
          (map item_entry (firsts (r_items r))) meta.

(** * Counting (C04_triple_count) *)
Fixpoint count_branches (n : node) : nat :=
  match n with
  | Node _ bs =>
      fold_right (fun (b : branch) acc =>
                    S (match snd b with TAtom _ => O | TNode n' => count_branches n' end) + acc) O bs
  end.
Fixpoint count_conceptless (n : node) : nat :=
  match n with
  | Node _ bs =>
      (if writes_concept bs then O else 1) +
      fold_right (fun (b : branch) acc =>
                    (match snd b with TAtom _ => O | TNode n' => count_conceptless n' end) + acc) O bs
  end.
Fixpoint count_nested (n : node) : nat :=
  match n with
  | Node _ bs =>
      fold_right (fun (b : branch) acc =>
                    (match snd b with TAtom _ => O | TNode n' => S (count_nested n') end) + acc) O bs
  end.

(** * The text as written, without any model (C04_noop_never_deinverts) *)
Fixpoint written_triples (n : node) : list triple :=
  match n with
  | Node v bs =>
      (if writes_concept bs then [] else [(v, INSTANCE, ANone)]) ++
      flat_map (fun b : branch =>
                  match snd b with
                  | TAtom a => [(v, fst (read_role (fst b)), fst (read_atom a))]
                  | TNode n' => (v, fst (read_role (fst b)), node_var n') :: written_triples n'
                  end) bs
  end.

(* a string lexeme: starts with a dquote and ends with one (so the last
   dquote is the last character; every complete STRING token is of this form) *)
Definition complete_string (s : str) : bool :=
  startswith s [QUOTE] && endswith s [QUOTE].

(** * Well-formedness for the layout diagnostics (C14) *)
Definition distinct_triples (its : list item) : bool :=
  Nat.eqb (length (firsts its)) (length its).

Definition item_wf (it : item) : bool :=
  negb (falsy (i_ctx it))
  && match i_opened it with Some v => negb (falsy v) | None => true end
  && startswith (trole (i_triple it)) [COLON]
  && negb (i_winv it && str_eqb (trole (i_triple it)) INSTANCE).

(* every node variable is a real (truthy) variable; roles carry their colon;
   no ":instance-of" deinverted into a second instance triple; the triples read
   off the tree are pairwise distinct; alignment suffixes parse *)
Definition wf_layout_tree (m : model) (t : tree) : bool :=
  match surface_check (troot t) with
  | Ok _ =>
      let its := node_items m (defined_vars (troot t)) (troot t) 0 in
      forallb item_wf its && distinct_triples its
  | _ => false
  end.

(* the whole graph (triples, top, epigraph, metadata) the reading describes *)
Definition reading_as_graph (m : model) (t : tree) : outcome graph :=
  r <- reading m t ;; Ok (reading_graph r (tmeta t)).

(** * Diagnostics on a graph WITHOUT markers (C14_no_markers) *)
(* is [c] an eligible node context for triple [t]: its source, or its target
   when that is a variable and the triple is not an instance triple *)
Definition eligible (vs : list atom) (t : triple) (c : atom) : bool :=
  mem atom_eqb c
      (tsrc t :: (if negb (str_eqb (trole t) INSTANCE) && mem atom_eqb (ttgt t) vs
                  then [ttgt t] else [])).
Fixpoint take_while {A : Type} (p : A -> bool) (l : list A) : list A :=
  match l with [] => [] | x :: r => if p x then x :: take_while p r else [] end.
(* [Some top] while top is eligible, unknown from the first triple where it is not *)
Fixpoint ctx_prefix (p : triple -> bool) (top : atom) (ts : list triple) : list (option atom) :=
  match ts with
  | [] => []
  | t :: r => if p t then Some top :: ctx_prefix p top r else map (fun _ => None) ts
  end.
Definition top_or_none (g : graph) : atom :=
  match graph_top g with Some t => t | None => ANone end.
