(** Mirror of penman/transform.py canonicalize_roles / _canonicalize_node. *)
From PM Require Export Impl.Model.

Definition canon_role_text (m : model) (role : str) : option str :=
  let '(r, tilde, aln) := partition [TILDE] role in
  match canonicalize_role m r with
  | Some cr => Some (cr ++ (if tilde then [TILDE] else []) ++ aln)
  | None => None
  end.

Fixpoint canon_node (m : model) (n : node) : option node :=
  match n with
  | Node v bs =>
      let fix go (bs : list branch) : option (list branch) :=
        match bs with
        | [] => Some []
        | (role, tgt) :: bs' =>
            let tgt' := match tgt with
                        | TAtom a => Some (TAtom a)
                        | TNode n' => match canon_node m n' with Some x => Some (TNode x) | None => None end
                        end in
            match tgt', canon_role_text m role, go bs' with
            | Some t, Some r, Some rest => Some ((r, t) :: rest)
            | _, _, _ => None
            end
        end in
      match go bs with Some bs' => Some (Node v bs') | None => None end
  end.

(* None = out of fuel in _canonicalize_inversion (excluded by theorem) *)
Definition canonicalize_roles (m : model) (t : tree) : option tree :=
  match canon_node m (troot t) with
  | Some n => Some (mkTree n (tmeta t))
  | None => None
  end.
