(** Mirror of penman/_format.py: format, _format_node, _format_edge,
    format_triples (with the F5 repair, as in /repo). *)
From PM Require Export Impl.Tree.

(* indent: None | Some z  (z = -1 adaptive, z >= 0 fixed width) *)
Definition zspaces (col : Z) : str := spaces (Z.to_nat col).
Definition zlen (s : str) : Z := Z.of_nat (length s).
Definition is_adaptive (indent : option Z) : bool :=
  match indent with Some z => Z.eqb z (-1) | None => false end.

Definition role_text (role : str) : str :=
  if negb (str_eqb role SLASHS) && negb (startswith role [COLON]) then COLON :: role else role.

Definition SPACE : str := [32%N].

Fixpoint format_node (indent : option Z) (column : Z) (vars : list atom) (n : node) : str :=
  match n with
  | Node var edges =>
      if falsy var then [40;41]%N
      else
        match edges with
        | [] => [40%N] ++ atom_str var ++ [41%N]
        | _ =>
            let column' :=
              match indent with
              | None => column
              | Some z => if Z.eqb z (-1) then (column + zlen (atom_str var) + 2)%Z else (column + z)%Z
              end in
            let joiner := match indent with None => SPACE | Some _ => 10%N :: zspaces column' end in
            let fmt_edge (e : branch) : str :=
              let role := role_text (fst e) in
              let col_e := if is_adaptive indent then (column' + zlen role + 1)%Z else column' in
              match snd e with
              | TAtom a =>
                  match a with
                  | ANone => role
                  | AStr [] => role
                  | _ => role ++ SPACE ++ atom_str a
                  end
              | TNode n' => role ++ SPACE ++ format_node indent col_e vars n'
              end in
            let fix go (es : list branch) (compact : bool) (parts : list str) : bool * list str :=
              match es with
              | [] => (compact, parts)
              | e :: es' =>
                  let breaks := compact &&
                    match snd e with
                    | TNode _ => true
                    | TAtom a => mem atom_eqb a vars
                    end in
                  let compact' := if breaks then false else compact in
                  let parts' := if breaks then match parts with [] => [] | _ => [join SPACE parts] end else parts in
                  go es' compact' (parts' ++ [fmt_edge e])
              end in
            let '(compact, parts) := go edges (match vars with [] => false | _ => true end) [] in
            let parts := if compact then [join SPACE parts] else parts in
            [40%N] ++ atom_str var ++ SPACE ++ join joiner parts ++ [41%N]
        end
  end.

Definition META_PREFIX : str := [35;32;58;58]%N.   (* "# ::" *)
Definition format_meta (kv : str * str) : str :=
  META_PREFIX ++ fst kv ++ match snd kv with [] => [] | v => SPACE ++ v end.

Definition format (indent : option Z) (compact : bool) (t : tree) : str :=
  let vars := if compact then tree_vars (troot t) else [] in
  join [10%N] (map format_meta (tmeta t) ++ [format_node indent 0 (dedup atom_eqb vars) (troot t)]).

(* format_triples(triples, indent) *)
Definition format_triple (t : triple) : str :=
  lstrip_char COLON (trole t) ++ [40%N] ++ atom_str (tsrc t) ++ [44;32]%N ++ atom_str (ttgt t) ++ [41%N].
Definition format_triples (ts : list triple) (indent : bool) : str :=
  join (if indent then [32;94;10]%N else [32;94;32]%N) (map format_triple ts).
