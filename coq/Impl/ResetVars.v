(** Mirror of penman/tree.py Tree.reset_variables, _map_vars and
    _default_variable_prefix (with the F7 repair: the alignment suffix of a
    re-entrancy is split off before the lookup, and the F20 repair: ValueError
    when a candidate name repeats).

    [str.format] is modelled for formats made of literal text, the escapes
    "{{" and "}}" and the plain fields {prefix}, {i}, {j}; [parse_fmt] rejects
    everything else (conversions, format specs, other field names, unbalanced
    braces): those formats are outside the model.
    [str.isalpha] / [str.lower] are PARAMETERS ([is_alpha], [lower]): no
    property of them is assumed anywhere. *)
From PM Require Export Impl.Tree.

(* ---- the format string ---- *)
Inductive piece := Lit (s : str) | Prefix | Idx | Jdx.   (* literal text, {prefix}, {i}, {j} *)

Definition LBRACE : N := 123%N.
Definition RBRACE : N := 125%N.
Definition F_PREFIX : str := [112;114;101;102;105;120]%N.   (* prefix *)
Definition F_I : str := [105]%N.
Definition F_J : str := [106]%N.

(* add a literal character, merging with a preceding literal *)
Definition lit_char (c : N) (acc : list piece) : list piece :=
  match acc with
  | Lit s :: acc' => Lit (s ++ [c]) :: acc'
  | _ => Lit [c] :: acc
  end.

(* acc is kept reversed; fuel = length of the input *)
Fixpoint parse_fmt_loop (fuel : nat) (s : str) (acc : list piece) : option (list piece) :=
  match fuel with
  | O => match s with [] => Some (rev acc) | _ => None end
  | S f =>
      match s with
      | [] => Some (rev acc)
      | c :: s' =>
          if eqc c LBRACE then
            match s' with
            | d :: s'' =>
                if eqc d LBRACE then parse_fmt_loop f s'' (lit_char LBRACE acc)
                else
                  let '(name, rest) := span (fun x => negb (eqc x RBRACE)) s' in
                  match rest with
                  | _ :: rest' =>      (* the closing brace *)
                      if str_eqb name F_PREFIX then parse_fmt_loop f rest' (Prefix :: acc)
                      else if str_eqb name F_I then parse_fmt_loop f rest' (Idx :: acc)
                      else if str_eqb name F_J then parse_fmt_loop f rest' (Jdx :: acc)
                      else None
                  | [] => None
                  end
            | [] => None
            end
          else if eqc c RBRACE then
            match s' with
            | d :: s'' => if eqc d RBRACE then parse_fmt_loop f s'' (lit_char RBRACE acc) else None
            | [] => None
            end
          else parse_fmt_loop f s' (lit_char c acc)
      end
  end.
Definition parse_fmt (s : str) : option (list piece) := parse_fmt_loop (length s) s [].

(* fmt.format(prefix=pre, i=i, j='' if i == 0 else i + 1) *)
Definition render_piece (pre : str) (i : N) (p : piece) : str :=
  match p with
  | Lit s => s
  | Prefix => pre
  | Idx => N_to_str i
  | Jdx => if N.eqb i 0 then [] else N_to_str (i + 1)
  end.
Definition render (ps : list piece) (pre : str) (i : N) : str :=
  flat_map (render_piece pre i) ps.

Definition is_index (p : piece) : bool := match p with Idx | Jdx => true | _ => false end.
Definition uses_index (ps : list piece) : bool := existsb is_index ps.

Section ResetVars.
  Variable is_alpha : N -> bool.      (* str.isalpha on one character *)
  Variable lower : N -> str.          (* str.lower on one character (may be longer than one) *)

  Definition USCORE_S : str := [95]%N.

  (* _default_variable_prefix *)
  Fixpoint first_alpha (s : str) : option N :=
    match s with
    | [] => None
    | c :: s' => if is_alpha c then Some c else first_alpha s'
    end.
  Definition default_variable_prefix (concept : option target) : str :=
    match concept with
    | Some (TAtom (AStr s)) =>
        match first_alpha s with Some c => lower c | None => USCORE_S end
    | _ => USCORE_S                  (* None, numbers, a node, the empty string *)
    end.

  (* next((tgt for role, tgt in branches if role == '/'), None) *)
  Fixpoint concept_of (bs : list branch) : option target :=
    match bs with
    | [] => None
    | (role, tgt) :: bs' => if str_eqb role SLASHS then Some tgt else concept_of bs'
    end.

  (* while newvar is None or newvar in used: ...  one unit of fuel per iteration *)
  Fixpoint pick_loop (fuel : nat) (ps : list piece) (pre : str) (used : list str)
    (newvar : option str) (i : N) : outcome str :=
    if match newvar with Some v => mem str_eqb v used | None => true end then
      match fuel with
      | O => OutOfFuel
      | S f =>
          let nv := render ps pre i in
          if match newvar with Some p => str_eqb nv p | None => false end
          then Other 5                                    (* ValueError (F20 repair) *)
          else pick_loop f ps pre used (Some nv) (i + 1)
      end
    else match newvar with Some v => Ok v | None => OutOfFuel end.

  (* first pass: varmap (first definition of a variable wins) and used *)
  Fixpoint build_map (fuel : nat) (ps : list piece) (ns : list node)
    (varmap : dict atom str) (used : list str) : outcome (dict atom str) :=
    match ns with
    | [] => Ok varmap
    | n :: ns' =>
        if dmem atom_eqb (node_var n) varmap then build_map fuel ps ns' varmap used
        else
          v <- pick_loop fuel ps (default_variable_prefix (concept_of (node_branches n))) used None 0 ;;
          build_map fuel ps ns' (dset atom_eqb (node_var n) v varmap) (v :: used)
    end.

  (* second pass: _map_vars.  varmap[var] raises KeyError (Other 2) for a node
     without variable (such nodes are not in Tree.nodes()) *)
  Definition map_atom (varmap : dict atom str) (role : str) (a : atom) : atom :=
    match a with
    | AStr s =>
        if negb (str_eqb role SLASHS) then
          let '(v, found, aln) := partition [TILDE] s in
          match dget atom_eqb (AStr v) varmap with
          | Some nv => AStr (nv ++ (if found then [TILDE] else []) ++ aln)
          | None => a
          end
        else a
    | _ => a
    end.
  Fixpoint map_vars (varmap : dict atom str) (n : node) : outcome node :=
    match n with
    | Node var bs =>
        let fix go (bs : list branch) : outcome (list branch) :=
          match bs with
          | [] => Ok []
          | (role, tgt) :: bs' =>
              tgt' <- match tgt with
                      | TNode n' => (n'' <- map_vars varmap n' ;; Ok (TNode n''))
                      | TAtom a => Ok (TAtom (map_atom varmap role a))
                      end ;;
              rest <- go bs' ;;
              Ok ((role, tgt') :: rest)
          end in
        bs' <- go bs ;;
        match dget atom_eqb var varmap with
        | Some nv => Ok (Node (AStr nv) bs')
        | None => Other 2
        end
    end.

  Definition reset_fuel (t : tree) : nat := S (length (nodes_of (troot t))).
  Definition reset_map (ps : list piece) (t : tree) : outcome (dict atom str) :=
    build_map (reset_fuel t) ps (nodes_of (troot t)) [] [].
  Definition reset_variables (ps : list piece) (t : tree) : outcome tree :=
    varmap <- reset_map ps t ;;
    n' <- map_vars varmap (troot t) ;;
    Ok (mkTree n' (tmeta t)).
End ResetVars.

(* ---- the executable instance of is_alpha / lower used by the extracted driver:
   ASCII + Latin-1 (validated against CPython on every run), with an override
   table computed by CPython for every other character of the input ---- *)
Definition latin1_is_alpha (c : N) : bool :=
  is_ascii_alpha c || eqc c 170 || eqc c 181 || eqc c 186
  || (N.leb 192 c && N.leb c 214) || (N.leb 216 c && N.leb c 246) || (N.leb 248 c && N.leb c 255).
Definition latin1_lower (c : N) : str :=
  if is_ascii_upper c || (N.leb 192 c && N.leb c 222 && negb (eqc c 215)) then [(c + 32)%N] else [c].
Definition latin1_applies (c : N) : bool := N.leb c 255.

Definition overrides := list (N * (bool * str)).
Fixpoint ov_find (c : N) (ov : overrides) : option (bool * str) :=
  match ov with
  | [] => None
  | (d, e) :: ov' => if eqc c d then Some e else ov_find c ov'
  end.
Definition ov_is_alpha (ov : overrides) (c : N) : bool :=
  match ov_find c ov with Some e => fst e | None => latin1_is_alpha c end.
Definition ov_lower (ov : overrides) (c : N) : str :=
  match ov_find c ov with Some e => snd e | None => latin1_lower c end.
Definition reset_variables_ov (ov : overrides) (ps : list piece) (t : tree) : outcome tree :=
  reset_variables (ov_is_alpha ov) (ov_lower ov) ps t.
Definition prefix_ov (ov : overrides) (concept : option target) : str :=
  default_variable_prefix (ov_is_alpha ov) (ov_lower ov) concept.
