(** Mirror of penman/graph.py, second half: the top setter, reentrancies,
    the set operations __or__ / __ior__ / __sub__ / __isub__ and __eq__.
    Executable definitions only; lemmas are in Proofs/Graph_lemmas.v.

    A graph value is the record (triples, _top, epidata, metadata); an in-place
    operation is the function returning the new state of its LEFT operand (the
    right operand is only read, which is a fact about the Python that the
    harness checks by deep snapshots before and after). *)
From PM Require Export Impl.Graph.

Definition with_top (g : graph) (t : option atom) : graph :=
  mkGraph (triples g) t (epidata g) (gmeta g).
Definition with_meta (g : graph) (m : dict str str) : graph :=
  mkGraph (triples g) (gtop g) (epidata g) m.

(* g.top = v   (v is a Python value: ANone is None)
     if top is not None and top not in self.variables(): raise GraphError
     self._top = top *)
Definition set_top (g : graph) (v : atom) : outcome graph :=
  match v with
  | ANone => Ok (with_top g None)
  | _ => if is_var g v then Ok (with_top g (Some v)) else GraphErr
  end.

(* entrancies[k] += 1 on a defaultdict(int): a missing key is appended with 1 *)
Definition dincr (k : atom) (d : dict atom N) : dict atom N :=
  dset atom_eqb k (match dget atom_eqb k d with Some n => (n + 1)%N | None => 1%N end) d.

(* the defaultdict after both loops of reentrancies().  [self.top is not None]:
   the implicit top can be the None source of the first triple *)
Definition entrancies (g : graph) : dict atom N :=
  let d0 := match graph_top g with
            | None => []
            | Some ANone => []
            | Some t => dincr t []
            end in
  fold_left (fun d t => dincr (ttgt t) d) (edges g None None None) d0.

(* dict((v, cnt - 1) for v, cnt in entrancies.items() if cnt >= 2) *)
Definition reentrancies (g : graph) : dict atom N :=
  dict_of_pairs atom_eqb
    (map (fun kv => (fst kv, (snd kv - 1)%N))
         (filter (fun kv => N.leb 2 (snd kv)) (entrancies g))).

(* t in new, where new = set(other.triples) - set(self.triples), for t taken
   from other.triples *)
Definition is_new (a : graph) (t : triple) : bool := negb (mem triple_eqb t (triples a)).

(* __ior__ (after the F15 repair: the loop runs over other.triples, not over the set)
     self.triples.extend(t for t in other.triples if t in new)
     for t in other.triples:
         if t in new and t in other.epidata: self.epidata[t] = list(other.epidata[t])
     self.epidata.update(other.epidata) *)
Definition ior_epidata (a b : graph) : dict triple (list epi) :=
  let e1 := fold_left
              (fun ed t =>
                 if is_new a t then
                   match dget triple_eqb t (epidata b) with
                   | Some l => dset triple_eqb t l ed
                   | None => ed
                   end
                 else ed)
              (triples b) (epidata a) in
  dupdate triple_eqb e1 (epidata b).

Definition g_ior (a b : graph) : graph :=
  mkGraph (triples a ++ filter (is_new a) (triples b)) (gtop a) (ior_epidata a b) (gmeta a).

(* __or__: g = deepcopy(self); g.metadata.clear(); g |= other *)
Definition g_or (a b : graph) : graph := g_ior (with_meta a []) b.

(* __isub__
     removed = set(other.triples)
     self.triples[:] = [t for t in self.triples if t not in removed]
     for t in removed:                      (iteration over a SET: [order])
         if t in self.epidata: del self.epidata[t]
     possible_variables = set(v for t in self.triples for v in t[::2])
     if self._top not in possible_variables: self._top = None
   [order] is the iteration order of the set [removed]; Graph_lemmas.isub_order_irrelevant
   shows the result does not depend on it. *)
Definition isub_epidata (order : list triple) (ed : dict triple (list epi)) : dict triple (list epi) :=
  fold_left (fun e t => if dmem triple_eqb t e then ddel triple_eqb t e else e) order ed.

Definition possible_variables (ts : list triple) : list atom :=
  flat_map (fun t => [tsrc t; ttgt t]) ts.

Definition g_isub_ord (order : list triple) (a b : graph) : graph :=
  let ts := filter (fun t => negb (mem triple_eqb t (triples b))) (triples a) in
  mkGraph ts
    (match gtop a with
     | None => None        (* [None not in pv] or not: _top stays None either way *)
     | Some v => if mem atom_eqb v (possible_variables ts) then Some v else None
     end)
    (isub_epidata order (epidata a)) (gmeta a).

Definition g_isub (a b : graph) : graph := g_isub_ord (dedup triple_eqb (triples b)) a b.

(* __sub__: g = deepcopy(self); g.metadata.clear(); g -= other *)
Definition g_sub (a b : graph) : graph := g_isub (with_meta a []) b.

(* __eq__: same top PROPERTY, same number of triples, same set of triples *)
Definition subset_b (x y : list triple) : bool := forallb (fun t => mem triple_eqb t y) x.
(* the value of the [top] property as a Python value (None = ANone) *)
Definition top_value (g : graph) : atom :=
  match graph_top g with Some t => t | None => ANone end.
Definition graph_eq_py (a b : graph) : bool :=
  atom_eqb (top_value a) (top_value b)
  && Nat.eqb (length (triples a)) (length (triples b))
  && subset_b (triples a) (triples b) && subset_b (triples b) (triples a).
