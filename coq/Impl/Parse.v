(** Mirror of penman/_parse.py and of TokenIterator (penman/_lexer.py). *)
From PM Require Export Impl.Lexer.

(* ---- TokenIterator: remaining tokens + the last token returned ---- *)
Record titer := mkIter { it_rest : list token; it_last : option token }.
Definition iter_of (ts : list token) : titer := mkIter ts None.

Definition tok_end (t : token) : N := (toff t + N.of_nat (length (ttext t)))%N.
(* error(message) without token: position after the last token, or (0,0) *)
Definition err_end {A} (it : titer) : outcome A :=
  match it_last it with
  | Some t => DecodeErr (tline t) (tok_end t)
  | None => DecodeErr 0 0
  end.
Definition err_at {A} (t : token) : outcome A := DecodeErr (tline t) (toff t).

Definition peek (it : titer) : outcome token :=
  match it_rest it with t :: _ => Ok t | [] => err_end it end.
(* next(): StopIteration (Other 1) when exhausted *)
Definition next (it : titer) : outcome (token * titer) :=
  match it_rest it with
  | t :: r => Ok (t, mkIter r (Some t))
  | [] => Other 1
  end.
Definition ty_in (t : tokty) (l : list tokty) : bool := existsb (tokty_eqb t) l.
Definition expect (it : titer) (choices : list tokty) : outcome (token * titer) :=
  match it_rest it with
  | [] => err_end it
  | t :: r => if ty_in (tty t) choices then Ok (t, mkIter r (Some t)) else err_at t
  end.
Definition accept (it : titer) (choices : list tokty) : option (token * titer) :=
  match it_rest it with
  | t :: r => if ty_in (tty t) choices then Some (t, mkIter r (Some t)) else None
  | [] => None
  end.
Definition iter_nonempty (it : titer) : bool := match it_rest it with [] => false | _ => true end.

(* ---- _parse_comments ---- *)
Definition DCOLON : str := [58;58]%N.
Fixpoint comment_meta (f : nat) (comment : str) (md : dict str str) : dict str str :=
  match f with
  | O => md
  | S f' =>
      match comment with
      | [] => md
      | _ =>
          let '(head, found, meta) := rpartition DCOLON comment in
          if found then
            let '(key, _, value) := partition [32%N] meta in
            comment_meta f' head (dset str_eqb key (rstrip_ws value) md)
          else md
      end
  end.
(* text.rstrip('\r\n'): a retained CR / LF terminator is not part of the comment (F26 repair) *)
Fixpoint lstrip_crlf (s : str) : str :=
  match s with c :: s' => if eqc c 13 || eqc c 10 then lstrip_crlf s' else s | [] => [] end.
Definition rstrip_crlf (s : str) : str := rev (lstrip_crlf (rev s)).

Fixpoint parse_comments (f : nat) (it : titer) (md : dict str str)
  : outcome (dict str str * titer) :=
  match f with
  | O => OutOfFuel
  | S f' =>
      t <- peek it ;;
      if tokty_eqb (tty t) COMMENT then
        '(c, it') <- next it ;;
        let text := rstrip_crlf (ttext c) in
        parse_comments f' it' (comment_meta (S (length text)) text md)
      else Ok (md, it)
  end.

(* optional ALIGNMENT token glued to the preceding text *)
Definition glue_alignment (text : str) (it : titer) : outcome (str * titer) :=
  t <- peek it ;;
  if tokty_eqb (tty t) ALIGNMENT then
    '(a, it') <- next it ;; Ok (text ++ ttext a, it')
  else Ok (text, it).

(* ---- _parse_node / _parse_edge (mutually recursive; fuel bounds nesting+edges) ---- *)
Fixpoint parse_node (f : nat) (it : titer) : outcome (node * titer) :=
  match f with
  | O => OutOfFuel
  | S f' =>
      '(_, it) <- expect it [LPAREN] ;;
      t <- peek it ;;
      if tokty_eqb (tty t) RPAREN then
        '(_, it) <- expect it [RPAREN] ;; Ok (Node ANone [], it)
      else
        '(v, it) <- expect it [SYMBOL] ;;
        t <- peek it ;;
        '(edges0, it) <-
          (if tokty_eqb (tty t) SLASH then
             '(_, it) <- next it ;;
             t2 <- peek it ;;
             if ty_in (tty t2) [SYMBOL; STRING] then
               '(c, it) <- next it ;;
               '(concept, it) <- glue_alignment (ttext c) it ;;
               Ok ([(SLASHS, TAtom (AStr concept))], it)
             else Ok ([(SLASHS, TAtom ANone)], it)
           else Ok ([], it)) ;;
        (fix edges (g : nat) (acc : list branch) (it : titer) {struct g} : outcome (node * titer) :=
           match g with
           | O => OutOfFuel
           | S g' =>
               t <- peek it ;;
               if tokty_eqb (tty t) RPAREN then
                 '(_, it) <- expect it [RPAREN] ;; Ok (Node (AStr (ttext v)) (rev acc), it)
               else
                 (* _parse_edge *)
                 '(rt, it) <- expect it [ROLE] ;;
                 '(role, it) <- glue_alignment (ttext rt) it ;;
                 nx <- peek it ;;
                 if ty_in (tty nx) [SYMBOL; STRING] then
                   '(tg, it) <- next it ;;
                   '(target, it) <- glue_alignment (ttext tg) it ;;
                   edges g' ((role, TAtom (AStr target)) :: acc) it
                 else if tokty_eqb (tty nx) LPAREN then
                   '(n, it) <- parse_node f' it ;;
                   edges g' ((role, TNode n) :: acc) it
                 else if ty_in (tty nx) [ROLE; RPAREN] then
                   edges g' ((role, TAtom ANone) :: acc) it
                 else err_at nx
           end) (S (length (it_rest it))) (rev edges0) it
  end.

Definition parse_fuel (ts : list token) : nat := S (length ts).

(* _parse *)
Definition parse_tree (it : titer) : outcome (tree * titer) :=
  let f := parse_fuel (it_rest it) in
  '(md, it) <- parse_comments f it [] ;;
  '(n, it) <- parse_node f it ;;
  Ok (mkTree n md, it).

(* parse(s): trailing tokens are ignored, as in the Python *)
Definition parse (s : str) : outcome tree :=
  '(t, _) <- parse_tree (iter_of (lex_str PENMAN_ALTS s)) ;; Ok t.

(* iterparse as the list it yields plus how it ended (Ok tt, or the error) *)
Fixpoint iterparse_toks (f : nat) (it : titer) (acc : list tree) : list tree * outcome unit :=
  match f with
  | O => (rev acc, OutOfFuel)
  | S f' =>
      match it_rest it with
      | [] => (rev acc, Ok tt)
      | t :: _ =>
          if ty_in (tty t) [COMMENT; LPAREN] then
            match parse_tree it with
            | Ok (tr, it') => iterparse_toks f' it' (tr :: acc)
            | DecodeErr l o => (rev acc, DecodeErr l o)
            | LayoutErr k => (rev acc, LayoutErr k) | ConstErr => (rev acc, ConstErr)
            | ModelErr => (rev acc, ModelErr) | SurfaceErr => (rev acc, SurfaceErr)
            | GraphErr => (rev acc, GraphErr) | Other k => (rev acc, Other k)
            | OutOfFuel => (rev acc, OutOfFuel)
            end
          else (rev acc, Ok tt)
      end
  end.
Definition iterparse_lines (lines : list str) : list tree * outcome unit :=
  let ts := lex_lines PENMAN_ALTS lines in iterparse_toks (S (length ts)) (iter_of ts) [].
Definition iterparse_str (s : str) : list tree * outcome unit := iterparse_lines (split_lines s).

(* ---- triple conjunctions ---- *)
Definition CARET : N := 94%N.
Definition COMMA : N := 44%N.

(* _parse_triple(symbol, tokens): (source, target, iterator) *)
Definition parse_triple (symbol : token) (it : titer) : outcome (str * option str * titer) :=
  let '(source, comma, rest) := partition [COMMA] (ttext symbol) in
  match rest with
  | _ :: _ => Ok (source, Some rest, it)
  | [] =>
      if comma then
        match accept it [SYMBOL; STRING] with
        | Some (nx, it') => Ok (source, Some (ttext nx), it')
        | None => Ok (source, None, it)
        end
      else
        match accept it [SYMBOL] with
        | None => Ok (source, None, it)
        | Some (nx, it') =>
            if str_eqb (ttext nx) [COMMA] then
              match accept it' [SYMBOL; STRING] with
              | Some (n2, it'') => Ok (source, Some (ttext n2), it'')
              | None => Ok (source, None, it')
              end
            else if startswith (ttext nx) [COMMA] then Ok (source, Some (skipn 1 (ttext nx)), it')
            else err_at nx
        end
  end.

Fixpoint parse_triples_loop (f : nat) (it : titer) (strip_caret : bool) (acc : list (str * str * option str))
  : outcome (list (str * str * option str)) :=
  match f with
  | O => OutOfFuel
  | S f' =>
      '(rt, it) <- expect it [SYMBOL] ;;
      let role := ttext rt in
      let role := if strip_caret && startswith role [CARET] then skipn 1 role else role in
      let role := if startswith role [COLON] then role else COLON :: role in
      '(_, it) <- expect it [LPAREN] ;;
      '(sym, it) <- expect it [SYMBOL] ;;
      '(source, target, it) <- parse_triple sym it ;;
      '(_, it) <- expect it [RPAREN] ;;
      let acc' := (source, role, target) :: acc in
      match it_rest it with
      | [] => Ok (rev acc')
      | nx :: _ =>
          if negb (tokty_eqb (tty nx) SYMBOL) || negb (startswith (ttext nx) [CARET]) then Ok (rev acc')
          else if str_eqb (ttext nx) [CARET] then
            '(_, it) <- next it ;; parse_triples_loop f' it false acc'
          else parse_triples_loop f' it true acc'
      end
  end.
Definition parse_triples (s : str) : outcome (list (str * str * option str)) :=
  let ts := lex_str TRIPLE_ALTS s in
  parse_triples_loop (S (length ts)) (iter_of ts) false [].
