(** Mirror of penman/codec.py: decode, iterdecode, encode, loads, dumps and the
    text written by _dump_stream, composed from Parse / Interpret / Configure /
    Format; plus the line containers a caller can hand to iterdecode. *)
From PM Require Export Impl.Parse Impl.Format Impl.Interpret Impl.Configure.

(* re-type an outcome that is known not to be used as a value *)
Definition as_unit {A} (o : outcome A) : outcome unit := bind o (fun _ => Ok tt).

(* PENMANCodec.decode *)
Definition decode (m : model) (s : str) : outcome graph :=
  t <- parse s ;; interpret m t.

(* PENMANCodec.encode(g, top, indent, compact) *)
Definition encode_top (m : model) (indent : option Z) (compact : bool) (g : graph) (top : option atom)
  : outcome str :=
  t <- configure m g top ;; Ok (format indent compact t).
Definition encode (m : model) (indent : option Z) (compact : bool) (g : graph) : outcome str :=
  encode_top m indent compact g None.

(* PENMANCodec.iterdecode: the graphs yielded, and how the generator ended.
   Each tree is interpreted as soon as it is parsed, so an interpretation error
   stops the generator before the next tree is parsed; the trees parsed before a
   DecodeError are still yielded. *)
Fixpoint interpret_all (m : model) (ts : list tree) (fin : outcome unit) : list graph * outcome unit :=
  match ts with
  | [] => ([], fin)
  | t :: ts' =>
      match interpret m t with
      | Ok g => let '(gs, o) := interpret_all m ts' fin in (g :: gs, o)
      | e => ([], as_unit e)
      end
  end.
Definition iterdecode_lines (m : model) (lines : list str) : list graph * outcome unit :=
  let '(ts, o) := iterparse_lines lines in interpret_all m ts o.
Definition iterdecode_str (m : model) (s : str) : list graph * outcome unit :=
  iterdecode_lines m (split_lines s).

(* list(generator): all of it or the exception *)
Definition collect {A} (r : list A * outcome unit) : outcome (list A) :=
  _ <- snd r ;; Ok (fst r).

(* _loads(string) ; _load(file) = list(iterdecode(lines of the file)) *)
Definition loads (m : model) (s : str) : outcome (list graph) := collect (iterdecode_str m s).
Definition load_lines (m : model) (lines : list str) : outcome (list graph) :=
  collect (iterdecode_lines m lines).

(* [codec.encode(g) for g in graphs] *)
Fixpoint encode_all (m : model) (indent : option Z) (compact : bool) (gs : list graph)
  : outcome (list str) :=
  match gs with
  | [] => Ok []
  | g :: gs' =>
      s <- encode m indent compact g ;;
      ss <- encode_all m indent compact gs' ;;
      Ok (s :: ss)
  end.

(* [codec.decode(s) for s in strings] *)
Fixpoint decode_all (m : model) (ss : list str) : outcome (list graph) :=
  match ss with
  | [] => Ok []
  | s :: ss' =>
      g <- decode m s ;;
      gs <- decode_all m ss' ;;
      Ok (g :: gs)
  end.

Definition BLANKLINE : str := [10;10]%N.

(* _dumps *)
Definition dumps (m : model) (indent : option Z) (compact : bool) (gs : list graph) : outcome str :=
  ss <- encode_all m indent compact gs ;; Ok (join BLANKLINE ss).

(* _dump_stream: the characters written to the stream and how the call ended.
   print(s) writes s and LF; print() writes LF.  Graphs are encoded lazily, so
   the text of the graphs before a failing one has been written already. *)
Fixpoint dump_rest (m : model) (indent : option Z) (compact : bool) (gs : list graph)
  : str * outcome unit :=
  match gs with
  | [] => ([], Ok tt)
  | g :: gs' =>
      match encode m indent compact g with
      | Ok s => let '(w, o) := dump_rest m indent compact gs' in (10%N :: s ++ 10%N :: w, o)
      | e => ([], as_unit e)
      end
  end.
Definition dump_text (m : model) (indent : option Z) (compact : bool) (gs : list graph)
  : str * outcome unit :=
  match gs with
  | [] => ([], Ok tt)
  | g :: gs' =>
      match encode m indent compact g with
      | Ok s => let '(w, o) := dump_rest m indent compact gs' in (s ++ 10%N :: w, o)
      | e => ([], as_unit e)
      end
  end.

(* ---- containers ---- *)

(* the lines of a text WITH their terminators (LF, CRLF or CR), as produced by
   iterating a text file opened with newline='' or by str.splitlines(True) on a
   text whose only separators are these three; no final empty line *)
Fixpoint keepends_aux (s : str) (cur : str) : list str :=
  match s with
  | [] => match cur with [] => [] | _ => [rev cur] end
  | c :: s' =>
      if eqc c 10 then rev (c :: cur) :: keepends_aux s' []
      else if eqc c 13 then
        match s' with
        | d :: s'' =>
            if eqc d 10 then rev (d :: c :: cur) :: keepends_aux s'' []
            else rev (c :: cur) :: keepends_aux s' []
        | [] => [rev (c :: cur)]
        end
      else keepends_aux s' (c :: cur)
  end.
Definition lines_keepends (s : str) : list str := keepends_aux s [].

(* universal-newlines translation of a text-mode file: CRLF and CR become LF *)
Fixpoint universal_newlines (s : str) : str :=
  match s with
  | [] => []
  | c :: s' =>
      if eqc c 13 then
        match s' with
        | d :: s'' => if eqc d 10 then 10%N :: universal_newlines s'' else 10%N :: universal_newlines s'
        | [] => [10%N]
        end
      else c :: universal_newlines s'
  end.
