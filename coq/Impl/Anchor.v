(** Forces every shared datatype into each group's extraction so that the
    common OCaml glue (ocaml/conv.ml) compiles against it. *)
From PM Require Export Impl.Model.
Definition types_anchor (a : atom) (t : tree) (g : graph) (k : token) (e : epi)
  (m : mtable) (o : outcome unit) : N * Z * nat * positive * model :=
  (conv_anchor, model_of_table m).
