(** Mirror of penman/model.py (class Model) — role algebra, reification tables,
    sort keys.  [has_exact] is the compiled role regex [_has_role]: theorems
    quantify over an arbitrary predicate; concrete models come from tables. *)
From PM Require Export Base.Types.

Record model := mkModel {
  has_exact : str -> bool;                 (* Model._has_role *)
  deinverts : bool;                        (* false for NoOpModel.deinvert *)
  norms : dict str str;                    (* normalizations *)
  reifs : list (str * str * str * str);    (* (role, concept, source, target) rows, source order *)
  top_role : str;
  top_var : str
}.

(* ---- restricted role patterns (what models/amr.py and the tests use) ---- *)
Inductive pitem := PChar (c : N) | PRange (lo hi : N) | PRangePlus (lo hi : N).
Definition rpat := list pitem.
Definition in_range (lo hi c : N) : bool := N.leb lo c && N.leb c hi.

Fixpoint match_pat (p : rpat) (s : str) : bool :=
  match p with
  | [] => match s with [] => true | _ => false end
  | PChar c :: p' =>
      match s with d :: s' => eqc c d && match_pat p' s' | [] => false end
  | PRange lo hi :: p' =>
      match s with d :: s' => in_range lo hi d && match_pat p' s' | [] => false end
  | PRangePlus lo hi :: p' =>
      (fix plus (s : str) : bool :=
         match s with
         | d :: s' => in_range lo hi d && (match_pat p' s' || plus s')
         | [] => false
         end) s
  end.
Definition lit (s : str) : rpat := map PChar s.

Record mtable := mkTable {
  t_roles : list rpat;
  t_deinverts : bool;
  t_norms : list (str * str);
  t_reifs : list (str * str * str * str);
  t_top_role : str;
  t_top_var : str
}.
Definition table_has_exact (t : mtable) (r : str) : bool :=
  existsb (fun p => match_pat p r) (t_roles t ++ [lit (t_top_role t); lit INSTANCE]).
Definition model_of_table (t : mtable) : model :=
  {| has_exact := table_has_exact t; deinverts := t_deinverts t;
     norms := dict_of_pairs str_eqb (t_norms t); reifs := t_reifs t;
     top_role := t_top_role t; top_var := t_top_var t |}.
Definition default_table : mtable := mkTable [] true [] [] TOPROLE TOPVAR.
Definition noop_table : mtable := mkTable [] false [] [] TOPROLE TOPVAR.
Definition default_model : model := model_of_table default_table.
Definition noop_model : model := model_of_table noop_table.

(* ---- role algebra ---- *)
Definition has_role (m : model) (r : str) : bool :=
  has_exact m r || (endswith r OF && has_exact m (drop_last 3 r)).
Definition is_role_inverted (m : model) (r : str) : bool :=
  negb (has_exact m r) && endswith r OF.
Definition invert_role (m : model) (r : str) : str :=
  if is_role_inverted m r then drop_last 3 r else r ++ OF.
Definition invert (m : model) (t : triple) : triple :=
  (ttgt t, invert_role m (trole t), tsrc t).
Definition deinvert (m : model) (t : triple) : triple :=
  if deinverts m then (if is_role_inverted m (trole t) then invert m t else t) else t.

(* _canonicalize_inversion: [while True] loop on fuel; None = out of fuel *)
Fixpoint canon_inv_loop (f : nat) (m : model) (role : str) : option str :=
  match f with
  | O => None
  | S f' =>
      let role' := invert_role m (invert_role m role) in
      if str_eqb role role' then Some role else canon_inv_loop f' m role'
  end.
Definition canon_inv_fuel (role : str) : nat := length role + 3.
Definition canonicalize_inversion (m : model) (role : str) : option str :=
  if has_exact m role then Some role else canon_inv_loop (canon_inv_fuel role) m role.
Definition ensure_colon_unless_slash (role : str) : str :=
  if negb (str_eqb role SLASHS) && negb (startswith role [COLON]) then COLON :: role else role.
Definition canonicalize_role (m : model) (role : str) : option str :=
  match canonicalize_inversion m (ensure_colon_unless_slash role) with
  | Some r => Some (match dget str_eqb r (norms m) with Some r' => r' | None => r end)
  | None => None
  end.
Definition canonicalize (m : model) (t : triple) : option triple :=
  match canonicalize_role m (trole t) with
  | Some r => Some (tsrc t, r, ttgt t)
  | None => None
  end.

(* ---- reification ---- *)
Definition reif_rows (m : model) (role : str) : list (str * str * str) :=
  flat_map (fun '(r, c, s, t) => if str_eqb r role then [(c, s, t)] else []) (reifs m).
Definition deif_rows (m : model) (concept : str) : list (str * str * str) :=
  flat_map (fun '(r, c, s, t) => if str_eqb c concept then [(r, s, t)] else []) (reifs m).
Definition is_role_reifiable (m : model) (role : str) : bool :=
  match reif_rows m role with [] => false | _ => true end.
Definition is_concept_dereifiable (m : model) (c : atom) : bool :=
  match c with AStr c => match deif_rows m c with [] => false | _ => true end | _ => false end.

Definition USCORE : str := [95]%N.
(* fresh variable '_', '_2', '_3', ... not in [vars]; fuel = |vars|+1 suffices *)
Fixpoint fresh_loop (f : nat) (vars : list atom) (i : N) : str :=
  let v := USCORE ++ N_to_str i in
  match f with
  | O => v
  | S f' => if mem atom_eqb (AStr v) vars then fresh_loop f' vars (i + 1)%N else v
  end.
Definition fresh_var (vars : list atom) : str :=
  if mem atom_eqb (AStr USCORE) vars then fresh_loop (length vars) vars 2%N else USCORE.

(* Model.reify(triple, variables): ModelErr if not reifiable *)
Definition reify (m : model) (t : triple) (vars : list atom) : outcome (triple * triple * triple) :=
  match reif_rows m (trole t) with
  | [] => ModelErr
  | (concept, srole, trole') :: _ =>
      let var := AStr (match vars with [] => USCORE | _ => fresh_var vars end) in
      Ok ((var, srole, tsrc t), (var, INSTANCE, AStr concept), (var, trole', ttgt t))
  end.

(* Model.dereify: exact-orientation rows first, then reversed rows *)
Definition dereify (m : model) (inst src tgt : triple) : outcome triple :=
  if negb (str_eqb (trole inst) INSTANCE) then Other 5
  else if negb (atom_eqb (tsrc inst) (tsrc src) && atom_eqb (tsrc src) (tsrc tgt)) then Other 5
  else
    match ttgt inst with
    | AStr c =>
        match deif_rows m c with
        | [] => ModelErr
        | rows =>
            match find (fun '(r, s, t) => str_eqb s (trole src) && str_eqb t (trole tgt)) rows with
            | Some (r, _, _) => Ok (ttgt src, r, ttgt tgt)
            | None =>
                match find (fun '(r, s, t) => str_eqb t (trole src) && str_eqb s (trole tgt)) rows with
                | Some (r, _, _) => Ok (ttgt tgt, r, ttgt src)
                | None => ModelErr
                end
            end
        end
    | _ => ModelErr
    end.

(* ---- sort keys ---- *)
(* alphanumeric_order: re.match(r'(.*\D)(\d+)$', role) on ASCII roles *)
Definition alnum_key (role : str) : str * N :=
  let '(rdigits, rrest) := span is_digit (rev role) in
  match rdigits, rrest with
  | _ :: _, _ :: _ => (rev rrest, digits_to_N (rev rdigits))
  | _, _ => (role, 0%N)
  end.
Definition alnum_ltb (a b : str * N) : bool :=
  str_ltb (fst a) (fst b) || (str_eqb (fst a) (fst b) && N.ltb (snd a) (snd b)).
Definition alnum_eqb (a b : str * N) : bool := str_eqb (fst a) (fst b) && N.eqb (snd a) (snd b).
Definition canonical_key (m : model) (role : str) : bool * (str * N) :=
  (is_role_inverted m role, alnum_key role).
