(** Mirror of penman/graph.py: construction, top, variables, queries. *)
From PM Require Export Base.Types.

Definition ensure_colon (role : str) : str :=
  if startswith role [COLON] then role else COLON :: role.

(* Graph(triples, top, epidata, metadata) *)
Definition mk_graph (ts : list triple) (top : option atom)
  (ed : dict triple (list epi)) (meta : dict str str) : graph :=
  mkGraph (map (fun t => (tsrc t, ensure_colon (trole t), ttgt t)) ts) top ed meta.

(* the [top] property: explicit top, else the source of the first triple *)
Definition graph_top (g : graph) : option atom :=
  match gtop g with
  | Some t => Some t
  | None => match triples g with t :: _ => Some (tsrc t) | [] => None end
  end.

(* variables(): a set; modelled as the de-duplicated list in first-occurrence
   order (sources in triple order, then the explicit top).  Only membership is
   observable except where noted in Impl files that iterate it. *)
Definition variables (g : graph) : list atom :=
  dedup atom_eqb (map tsrc (triples g) ++ match gtop g with Some t => [t] | None => [] end).
Definition is_var (g : graph) (a : atom) : bool := mem atom_eqb a (variables g).

Definition epis_of (g : graph) (t : triple) : list epi :=
  match dget triple_eqb t (epidata g) with Some l => l | None => [] end.

Definition opt_match {A} (eqb : A -> A -> bool) (pat : option A) (x : A) : bool :=
  match pat with None => true | Some p => eqb p x end.
Definition filter_triples (g : graph) (s : option atom) (r : option str) (t : option atom) : list triple :=
  filter (fun x => opt_match atom_eqb s (tsrc x) && opt_match str_eqb r (trole x)
                   && opt_match atom_eqb t (ttgt x)) (triples g).
Definition instances (g : graph) : list triple := filter_triples g None (Some INSTANCE) None.
Definition edges (g : graph) (s : option atom) (r : option str) (t : option atom) : list triple :=
  filter (fun x => negb (str_eqb (trole x) INSTANCE) && is_var g (ttgt x)) (filter_triples g s r t).
Definition attributes (g : graph) (s : option atom) (r : option str) (t : option atom) : list triple :=
  filter (fun x => negb (str_eqb (trole x) INSTANCE) && negb (is_var g (ttgt x))) (filter_triples g s r t).
