(** Mirror of penman/layout.py: configure, _configure, _preconfigure,
    _configure_node (with the F14 repair), _find_next, _get_or_establish_site,
    _process_epigraph.

    The Python builds the tree by in-place mutation of nested tuples/lists that
    are shared with [nodemap].  Here: an explicit STORE of nodes indexed by
    allocation order; frames and [nodemap] hold ids exactly where Python holds
    object references.  The data stack's HEAD is Python's [data[-1]]. *)
From PM Require Export Impl.Model Impl.Surface Impl.Graph.

Inductive datum := DT (t : triple) (push : bool) (es : list epi) | DPop.
Definition datum_is_pop (d : datum) : bool := match d with DPop => true | _ => false end.

(* ---- _preconfigure ---- *)
(* state while scanning one triple's markers: (triple, push, kept epis, #pops, pushed set) *)
Definition preconf_one (m : model) (t : triple) (es : list epi) (pushed : list atom)
  : triple * bool * list epi * nat * list atom :=
  let var := tsrc t in let role := trole t in let target := ttgt t in
  fold_left (fun (st : triple * bool * list epi * nat * list atom) e =>
    let '(t', push, keep, pops, pushed) := st in
    match e with
    | Push pv =>
        if mem atom_eqb pv pushed then st
        else if negb (atom_eqb pv var || atom_eqb pv target) || str_eqb role INSTANCE then st
        else ((if atom_eqb pv var then invert m t' else t'), true, keep, pops, pv :: pushed)
    | Pop => (t', push, keep, S pops, pushed)
    | _ => (t', push, keep ++ [e], pops, pushed)
    end) es (t, false, [], O, pushed).

(* Python order (first triple first) *)
Fixpoint preconf (m : model) (ts : list triple) (ed : dict triple (list epi)) (pushed : list atom)
  : list datum :=
  match ts with
  | [] => []
  | t :: ts' =>
      let es := match dget triple_eqb t ed with Some l => l | None => [] end in
      let '(t', push, keep, pops, pushed') := preconf_one m t es pushed in
      DT t' push keep :: repeat DPop pops ++ preconf m ts' ed pushed'
  end.

(* ---- the store ---- *)
Inductive ctgt := CA (a : atom) | CN (id : nat).
Definition cedge := (str * ctgt * list epi)%type.
Definition store := list (atom * list cedge).
Definition nmap := dict atom (option nat).

Fixpoint upd {A} (n : nat) (f : A -> A) (l : list A) : list A :=
  match l, n with
  | [], _ => []
  | x :: l', O => f x :: l'
  | x :: l', S n' => x :: upd n' f l'
  end.
Definition add_edge_end (id : nat) (e : cedge) (st : store) : store :=
  upd id (fun ve => (fst ve, snd ve ++ [e])) st.
Definition add_edge_front (id : nat) (e : cedge) (st : store) : store :=
  upd id (fun ve => (fst ve, e :: snd ve)) st.

(* _has_node(var, nodemap): nodemap[var] is the node OF var *)
Definition has_node (v : atom) (st : store) (nm : nmap) : bool :=
  match dget atom_eqb v nm with
  | Some (Some id) => match nth_error st id with Some (v', _) => atom_eqb v' v | None => false end
  | _ => false
  end.

(* [target is None or target == '']: a missing concept (numbers, even 0, are written: F27 repair) *)
Definition missing_concept (a : atom) : bool :=
  match a with ANone => true | AStr [] => true | _ => false end.

(* ---- _configure_node ----  returns (surprising, data, store, nodemap) *)
Fixpoint cnode (f : nat) (m : model) (var : atom) (id : nat) (surp : bool)
  (data : list datum) (st : store) (nm : nmap) : outcome (bool * list datum * store * nmap) :=
  match f with
  | O => OutOfFuel
  | S f' =>
      match data with
      | [] => Ok (surp, [], st, nm)
      | DPop :: data' => Ok (surp, data', st, nm)
      | (DT t push es as d) :: data' =>
          let placed :=
            if atom_eqb (tsrc t) var then Some (trole t, ttgt t, push, surp)
            else if atom_eqb (ttgt t) var && negb (str_eqb (trole t) INSTANCE) then
              let t' := invert m t in Some (trole t', ttgt t', false, true)
            else None in
          match placed with
          | None => Ok (true, d :: data', st, nm)
          | Some (role, target, push, surp) =>
              if str_eqb role INSTANCE then
                if missing_concept target then cnode f' m var id surp data' st nm
                else cnode f' m var id surp data' (add_edge_front id (SLASHS, CA target, es) st) nm
              else
                let push := push && negb (has_node target st nm) in
                if push then
                  let cid := length st in
                  let st1 := st ++ [(target, [])] in
                  let nm1 := dset atom_eqb target (Some cid) nm in
                  match cnode f' m target cid false data' st1 nm1 with
                  | Ok (s2, data2, st2, nm2) =>
                      cnode f' m var id (surp && s2) data2
                            (add_edge_end id (role, CN cid, es) st2) nm2
                  | DecodeErr l o => DecodeErr l o | LayoutErr k => LayoutErr k
                  | ConstErr => ConstErr | ModelErr => ModelErr | SurfaceErr => SurfaceErr
                  | GraphErr => GraphErr | Other k => Other k | OutOfFuel => OutOfFuel
                  end
                else
                  let nm1 := match dget atom_eqb target nm with
                             | Some None => dset atom_eqb target (Some id) nm
                             | _ => nm
                             end in
                  cnode f' m var id surp data' (add_edge_end id (role, CA target, es) st) nm1
          end
      end
  end.

Fixpoint drop_pops (d : list datum) : list datum :=
  match d with DPop :: d' => drop_pops d' | _ => d end.

(* ---- _get_or_establish_site ---- *)
Fixpoint replace_first (var : atom) (nid : nat) (es : list cedge) : list cedge :=
  match es with
  | [] => []
  | ((r, CA a, ep) as e) :: es' =>
      if atom_eqb a var && negb (str_eqb r SLASHS) then (r, CN nid, ep) :: es'
      else e :: replace_first var nid es'
  | e :: es' => e :: replace_first var nid es'
  end.
Definition site (var : atom) (st : store) (nm : nmap) : bool * store * nmap :=
  match dget atom_eqb var nm with
  | Some (Some id) =>
      match nth_error st id with
      | Some (v', _) =>
          if atom_eqb var v' then (true, st, nm)
          else let nid := length st in
               let st1 := upd id (fun ve => (fst ve, replace_first var nid (snd ve))) st in
               (true, st1 ++ [(var, [])], dset atom_eqb var (Some nid) nm)
      | None => (false, st, nm)
      end
  | _ => (false, st, nm)
  end.

(* ---- _find_next ----  (skipped in Python order, var, remaining data) *)
Fixpoint find_next (data : list datum) (acc : list datum) (st : store) (nm : nmap)
  : list datum * option atom * list datum * store * nmap :=
  match data with
  | [] => (acc, None, [], st, nm)
  | DPop :: data' =>
      match data' with
      | [] => (acc, None, data, st, nm)
      | _ => find_next data' (DPop :: acc) st nm
      end
  | (DT t _ _ as d) :: data' =>
      let '(ok1, st1, nm1) := if dmem atom_eqb (tsrc t) nm then site (tsrc t) st nm else (false, st, nm) in
      if ok1 then (acc, Some (tsrc t), data, st1, nm1)
      else
        let '(ok2, st2, nm2) := if dmem atom_eqb (ttgt t) nm then site (ttgt t) st nm else (false, st, nm) in
        if ok2 then (acc, Some (ttgt t), data, st2, nm2)
        else match data' with
             | [] => (acc, None, data, st, nm)
             | _ => find_next data' (d :: acc) st nm
             end
  end.

(* ---- the while loop of configure ---- *)
Fixpoint cloop (f : nat) (m : model) (data skipped : list datum) (st : store) (nm : nmap)
  : outcome store :=
  match f with
  | O => OutOfFuel
  | S f' =>
      match data with
      | [] => match skipped with [] => Ok st | _ => LayoutErr 3 end
      | _ =>
          let '(sk, var, data1, st1, nm1) := find_next data [] st nm in
          let skipped1 := skipped ++ sk in
          let cnt := length data1 in
          match var with
          | None => LayoutErr 1
          | Some ANone => LayoutErr 1      (* [if var is None]: the variable None is indistinguishable *)
          | Some v =>
              if Nat.eqb cnt 0 then LayoutErr 1
              else
                match dget atom_eqb v nm1 with
                | Some (Some id) =>
                    r <- cnode (S cnt) m v id false data1 st1 nm1 ;;
                    let '(surp, data2, st2, nm2) := r in
                    if Nat.eqb (length data2) cnt && surp then
                      match data2 with
                      | d :: data3 => cloop f' m (drop_pops data3) (d :: skipped1) st2 nm2
                      | [] => Other 3
                      end
                    else if Nat.leb cnt (length data2) then LayoutErr 2
                    else cloop f' m (drop_pops (data2 ++ rev skipped1)) [] st2 nm2
                | _ => Other 2
                end
          end
      end
  end.

(* ---- _process_epigraph + reading the tree off the store ---- *)
Definition apply_epis (role : str) (tgt : target) (es : list epi) : str * target :=
  fold_left (fun (rt : str * target) e =>
    let '(role, tgt) := rt in
    match e with
    | RAln _ _ => (role ++ epi_str e, tgt)
    | Aln _ _ =>
        match tgt with
        | TAtom a => (role, TAtom (AStr (atom_str a ++ epi_str e)))
        | TNode _ => (role, tgt)
        end
    | _ => (role, tgt)
    end) es (role, tgt).

Fixpoint build (f : nat) (st : store) (id : nat) : node :=
  match f with
  | O => Node ANone []
  | S f' =>
      match nth_error st id with
      | Some (v, es) =>
          Node v (map (fun e : cedge =>
                         let '(r, t, ep) := e in
                         apply_epis r (match t with CA a => TAtom a | CN i => TNode (build f' st i) end) ep)
                      es)
      | None => Node ANone []
      end
  end.

Definition configure_fuel (n : nat) : nat := S n * S n.

Definition configure (m : model) (g : graph) (top : option atom) : outcome tree :=
  match triples g with
  | [] => Ok (mkTree (Node (match graph_top g with Some t => t | None => ANone end) []) (gmeta g))
  | _ =>
      let vars := variables g in
      match (match top with Some t => Some t | None => graph_top g end) with
      | None => LayoutErr 4
      | Some top =>
          if negb (mem atom_eqb top vars) then LayoutErr 4
          else
            let nm : nmap := dset atom_eqb top (Some O) (map (fun v => (v, None)) vars) in
            let st : store := [(top, [])] in
            let data := preconf m (triples g) (epidata g) [] in
            r <- cnode (S (length data)) m top O false data st nm ;;
            let '(_, data1, st1, nm1) := r in
            st2 <- cloop (configure_fuel (length data1)) m (drop_pops data1) [] st1 nm1 ;;
            Ok (mkTree (build (S (length st2)) st2 O) (gmeta g))
      end
  end.
