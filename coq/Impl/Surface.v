(** Mirror of penman/surface.py: alignment markers (parse / print / collect). *)
From PM Require Export Impl.Graph.

(* int(s) accepted only for non-empty ASCII digit strings (the lexer never
   produces anything else; signs, blanks, underscores are outside the model) *)
Definition parse_int (s : str) : option N :=
  match s with
  | [] => None
  | _ => if forallb is_digit s then Some (digits_to_N s) else None
  end.
Fixpoint parse_ints (l : list str) : option (list N) :=
  match l with
  | [] => Some []
  | x :: l' => match parse_int x, parse_ints l' with
               | Some n, Some r => Some (n :: r)
               | _, _ => None
               end
  end.

(* AlignmentMarker.from_string: (indices, prefix) or SurfaceError.
   str.isalpha is modelled on ASCII letters (the ALIGNMENT token class). *)
Definition aln_from_string (s : str) : outcome (list N * option str) :=
  let s1 := lstrip_char TILDE s in
  match s1 with
  | [] => SurfaceErr                                  (* _s[0] IndexError *)
  | c :: r =>
      if is_ascii_alpha c then
        match r with
        | [] => SurfaceErr                            (* _s[1] IndexError *)
        | d :: r' =>
            let '(pre, rest) := if eqc d 46 then ([c; d], r') else ([c], r) in
            match parse_ints (split_char 44 rest) with
            | Some idx => Ok (idx, Some pre)
            | None => SurfaceErr
            end
        end
      else
        match parse_ints (split_char 44 s1) with
        | Some idx => Ok (idx, None)
        | None => SurfaceErr
        end
  end.

(* str(marker) : '~' + (prefix or '') + ','.join(map(str, indices)) *)
Definition aln_to_string (idx : list N) (pre : option str) : str :=
  TILDE :: match pre with Some p => p | None => [] end ++ join [44%N] (map N_to_str idx).
Definition epi_str (e : epi) : str :=
  match e with
  | Aln i p | RAln i p => aln_to_string i p
  | Push _ | Pop => []
  end.
Definition epi_mode (e : epi) : N :=
  match e with RAln _ _ => 1%N | Aln _ _ => 2%N | _ => 0%N end.

(* surface.alignments / role_alignments: per triple, the LAST marker of the class *)
Definition last_such (p : epi -> bool) (l : list epi) : option epi :=
  fold_left (fun acc e => if p e then Some e else acc) l None.
Definition is_aln (e : epi) := match e with Aln _ _ => true | _ => false end.
Definition is_raln (e : epi) := match e with RAln _ _ => true | _ => false end.
Definition get_alignments (p : epi -> bool) (g : graph) : dict triple epi :=
  flat_map (fun kv : triple * list epi =>
              match last_such p (snd kv) with Some e => [(fst kv, e)] | None => [] end) (epidata g).
Definition alignments (g : graph) := get_alignments is_aln g.
Definition role_alignments (g : graph) := get_alignments is_raln g.
