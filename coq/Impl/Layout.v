(** Mirror of penman/layout.py: reconfigure, rearrange, _rearrange, and of the
    role sort keys of penman/model.py (original_order, alphanumeric_order,
    canonical_order, random_order).

    A sort key is a function [S -> str -> S * K] threading a state [S]: the pure
    keys ignore it; [random_order] draws the next number of an arbitrary stream
    (one call per element, in list order, as CPython's list.sort does).  Keys are
    compared with a [leb : K -> K -> bool] reading "not (b < a)". *)
From PM Require Export Impl.Configure Impl.Interpret Base.PySort.

(* ---- comparisons of the key values Python builds ---- *)
Definition bool_leb (a b : bool) : bool := negb a || b.          (* False < True *)
Definition unit_leb (_ _ : unit) : bool := true.
(* tuples: the first differing component decides *)
Definition pair_leb {A B} (la : A -> A -> bool) (lb : B -> B -> bool) (x y : A * B) : bool :=
  la (fst x) (fst y) && (negb (la (fst y) (fst x)) || lb (snd x) (snd y)).
Definition alnum_leb (a b : str * N) : bool := negb (alnum_ltb b a).
Definition canonical_leb : bool * (str * N) -> bool * (str * N) -> bool := pair_leb bool_leb alnum_leb.

(* ---- the keys of model.py ---- *)
Definition pure_key {S K} (k : str -> K) : S -> str -> S * K := fun s r => (s, k r).
Definition original_key (_ : str) : bool := true.                    (* original_order *)
(* alphanumeric_order = Impl.Model.alnum_key ; canonical_order = Impl.Model.canonical_key m *)
(* random_order: the next number of the stream (0 when a finite stream is exhausted) *)
Definition stream_key (s : list N) (_ : str) : list N * N :=
  match s with x :: s' => (s', x) | [] => ([], 0%N) end.
(* an arbitrary key given as a finite table (default 0) *)
Definition table_key (tbl : list (str * N)) (r : str) : N :=
  match dget str_eqb r tbl with Some n => n | None => 0%N end.
(* the command line's composite key: [f(role) for f in funcs], compared as lists *)
Fixpoint list_leb {K} (leb : K -> K -> bool) (a b : list K) : bool :=
  match a, b with
  | [], _ => true
  | _ :: _, [] => false
  | x :: a', y :: b' => leb x y && (negb (leb y x) || list_leb leb a' b')
  end.

(* ---- rearrange ---- *)
Section Rearrange.
  Context {K S : Type}.
  Variable leb : K -> K -> bool.
  Variable key : S -> str -> S * K.
  Variable vars : list atom.          (* node variables if attributes_first, else empty *)

  Definition crit1 (b : branch) : bool :=
    match snd b with
    | TAtom a => mem atom_eqb a vars
    | TNode n => mem atom_eqb (node_var n) vars
    end.
  (* sort_key(branch) = (criterion1, key(role)) *)
  Definition branch_key (s : S) (b : branch) : S * (bool * K) :=
    let '(s', k) := key s (fst b) in (s', (crit1 b, k)).
  Definition branch_leb : bool * K -> bool * K -> bool := pair_leb bool_leb leb.

  (* _rearrange: nested nodes of [rest] first (in order), then this node's sort *)
  Fixpoint rearrange_node (s : S) (n : node) : S * node :=
    match n with
    | Node v bs =>
        let fix go (s : S) (bs : list branch) : S * list branch :=
          match bs with
          | [] => (s, [])
          | (r, TAtom a) :: bs' => let '(s1, l) := go s bs' in (s1, (r, TAtom a) :: l)
          | (r, TNode n') :: bs' =>
              let '(s1, n1) := rearrange_node s n' in
              let '(s2, l) := go s1 bs' in (s2, (r, TNode n1) :: l)
          end in
        match bs with
        | (r, t) :: bs' =>
            if str_eqb r SLASHS then
              let '(s1, rest) := go s bs' in
              let '(s2, srt) := sorted_st branch_leb branch_key s1 rest in
              (s2, Node v ((r, t) :: srt))
            else
              let '(s1, rest) := go s bs in
              let '(s2, srt) := sorted_st branch_leb branch_key s1 rest in
              (s2, Node v srt)
        | [] => (s, Node v [])
        end
    end.
End Rearrange.

(* rearrange(t, key, attributes_first) with a state-threading key *)
Definition rearrange_st {K S} (leb : K -> K -> bool) (key : S -> str -> S * K)
  (attributes_first : bool) (s : S) (t : tree) : S * tree :=
  let vars := if attributes_first then tree_vars (troot t) else [] in
  let '(s', n) := rearrange_node leb key vars s (troot t) in (s', mkTree n (tmeta t)).

(* ... with a pure key or key=None (criterion2 = True for every branch) *)
Definition rearrange {K} (leb : K -> K -> bool) (key : option (str -> K))
  (attributes_first : bool) (t : tree) : tree :=
  match key with
  | None => snd (rearrange_st unit_leb (pure_key (fun _ => tt)) attributes_first tt t)
  | Some k => snd (rearrange_st leb (pure_key k) attributes_first tt t)
  end.

(* ---- reconfigure ---- *)
Definition strip_layout (ed : dict triple (list epi)) : dict triple (list epi) :=
  map (fun kv => (fst kv, filter (fun e => negb (is_layout e)) (snd kv))) ed.

(* the graph handed to configure: markers stripped, triples optionally sorted *)
Definition reconfigure_graph_st {K S} (leb : K -> K -> bool)
  (key : option (S -> str -> S * K)) (s : S) (g : graph) : S * graph :=
  let ed := strip_layout (epidata g) in
  match key with
  | None => (s, mkGraph (triples g) (gtop g) ed (gmeta g))
  | Some k =>
      let '(s', ts) := sorted_st leb (fun s t => k s (trole t)) s (triples g) in
      (s', mkGraph ts (gtop g) ed (gmeta g))
  end.

(* [if top is None: top = g.top]: an implicit top is resolved on the ORIGINAL
   graph, before the triples are sorted (F31 repair) *)
Definition reconfigure_top (g : graph) (top : option atom) : option atom :=
  match top with Some t => Some t | None => graph_top g end.

Definition reconfigure_st {K S} (leb : K -> K -> bool) (m : model) (g : graph)
  (top : option atom) (key : option (S -> str -> S * K)) (s : S) : outcome tree :=
  configure m (snd (reconfigure_graph_st leb key s g)) (reconfigure_top g top).

Definition reconfigure {K} (leb : K -> K -> bool) (m : model) (g : graph)
  (top : option atom) (key : option (str -> K)) : outcome tree :=
  reconfigure_st leb m g top (option_map (fun k => pure_key (S := unit) k) key) tt.
