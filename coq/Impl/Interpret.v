(** Mirror of penman/layout.py: interpret, _interpret_node, _process_role,
    _process_atomic (with the F1 and F11 repairs, as in /repo). *)
From PM Require Export Impl.Model Impl.Surface Impl.Tree.

(* _process_role *)
Definition process_role (role : str) : outcome (str * list epi) :=
  if str_eqb role SLASHS then Ok (INSTANCE, [])
  else if contains_char TILDE role then
    let '(r, _, aln) := partition [TILDE] role in
    '(idx, pre) <- aln_from_string aln ;; Ok (r, [RAln idx pre])
  else Ok (role, []).

(* _process_atomic.  [target and '~' in target] raises TypeError for a
   non-zero number (hand-built trees only). *)
Definition process_atomic (a : atom) : outcome (atom * list epi) :=
  match a with
  | ANone => Ok (a, [])
  | ANum _ z => if z then Ok (a, []) else Other 6
  | AStr s =>
      if negb (contains_char TILDE s) then Ok (a, [])
      else if startswith s [QUOTE] then
        match rindex QUOTE s with
        | Some i =>
            let pivot := S i in
            if Nat.ltb pivot (length s) then
              '(idx, pre) <- aln_from_string (skipn pivot s) ;;
              Ok (AStr (firstn pivot s), [Aln idx pre])
            else Ok (a, [])
        | None => Ok (a, [])       (* unreachable: s starts with a dquote *)
        end
      else
        let '(t, _, aln) := partition [TILDE] s in
        '(idx, pre) <- aln_from_string aln ;; Ok (AStr t, [Aln idx pre])
  end.

Definition epientry := (triple * list epi)%type.

(* append POP to the marker list of the LAST entry *)
Fixpoint add_pop_last (es : list epientry) : list epientry :=
  match es with
  | [] => []
  | [(t, l)] => [(t, l ++ [Pop])]
  | e :: es' => e :: add_pop_last es'
  end.

Fixpoint interp_node (m : model) (vars : list atom) (n : node)
  : outcome (list triple * list epientry) :=
  match n with
  | Node var bs =>
      let fix go (bs : list branch) (hc : bool) (ts : list triple) (es : list epientry)
        : outcome (bool * list triple * list epientry) :=
        match bs with
        | [] => Ok (hc, ts, es)
        | (role, tgt) :: bs' =>
            '(role', repis) <- process_role role ;;
            let hc' := hc || str_eqb role' INSTANCE in
            match tgt with
            | TAtom a =>
                '(a', tepis) <- process_atomic a ;;
                let tr0 : triple := (var, role', a') in
                let tr := if is_role_inverted m role' && mem atom_eqb a' vars
                          then deinvert m tr0 else tr0 in
                go bs' hc' (ts ++ [tr]) (es ++ [(tr, repis ++ tepis)])
            | TNode n' =>
                let v' := node_var n' in
                let tr := deinvert m (var, role', v') in
                '(ts2, es2) <- interp_node m vars n' ;;
                go bs' hc' (ts ++ tr :: ts2)
                   (es ++ (tr, repis ++ [Push v']) :: add_pop_last es2)
            end
        end in
      '(hc, ts, es) <- go bs false [] [] ;;
      if hc then Ok (ts, es)
      else let inst : triple := (var, INSTANCE, ANone) in Ok (inst :: ts, (inst, []) :: es)
  end.

(* epimap: the first entry of a duplicated triple wins *)
Definition epimap_of (es : list epientry) : dict triple (list epi) :=
  fold_left (fun d e => if dmem triple_eqb (fst e) d then d else d ++ [e]) es [].

Definition interpret (m : model) (t : tree) : outcome graph :=
  let vars := tree_vars (troot t) in
  '(ts, es) <- interp_node m vars (troot t) ;;
  Ok (mk_graph ts (match node_var (troot t) with ANone => None | v => Some v end)
               (epimap_of es) (tmeta t)).
