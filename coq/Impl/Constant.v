(** Mirror of penman/constant.py: [quote], [evaluate], [type].

    [quote] is json.dumps(str(x)) with ensure_ascii=True.  [evaluate] needs
    json.loads(text, parse_constant=str): modelled by a complete recogniser of
    what CPython 3.12's json scanner (Modules/_json.c: scan_once_unicode,
    _parse_object_unicode, _parse_array_unicode, scanstring_unicode,
    _match_number_unicode; json/decoder.py: JSONDecoder.decode) accepts, which
    returns the KIND of the decoded value (and the decoded text for strings),
    never a numeric value.  Executable definitions only; proofs are in
    Proofs/Constant_lemmas.v. *)
From PM Require Export Base.Types.

(* ------------------------------------------------------------------ *)
(** * quote = json.dumps(str(constant)), ensure_ascii=True *)

(* '0123456789abcdef'[d] *)
Definition hex_digit (d : N) : N := if N.ltb d 10 then (48 + d)%N else (87 + d)%N.

(* '\\u{0:04x}'.format(c) for c < 0x10000 *)
Definition u_escape (c : N) : str :=
  [92; 117; hex_digit (c / 4096); hex_digit ((c / 256) mod 16);
   hex_digit ((c / 16) mod 16); hex_digit (c mod 16)]%N.

(* ESCAPE_ASCII: dquote, backslash and everything outside SP..tilde, with the replacement
   table of py_encode_basestring_ascii *)
Definition esc_char (c : N) : str :=
  if eqc c 34 then [92; 34]%N
  else if eqc c 92 then [92; 92]%N
  else if eqc c 10 then [92; 110]%N
  else if eqc c 13 then [92; 114]%N
  else if eqc c 9 then [92; 116]%N
  else if eqc c 8 then [92; 98]%N
  else if eqc c 12 then [92; 102]%N
  else if N.leb 32 c && N.leb c 126 then [c]
  else if N.ltb c 65536 then u_escape c
  else
    (* n -= 0x10000; s1 = 0xd800 | ((n >> 10) & 0x3ff); s2 = 0xdc00 | (n & 0x3ff) *)
    let v := (c - 65536)%N in
    u_escape (55296 + (v / 1024) mod 1024) ++ u_escape (56320 + v mod 1024).

Definition quote_str (s : str) : str := 34%N :: flat_map esc_char s ++ [34%N].

(* quote(constant): None -> two dquotes; otherwise json.dumps(str(constant)) *)
Definition quote (a : atom) : str :=
  match a with
  | ANone => [34; 34]%N
  | AStr s => quote_str s
  | ANum txt _ => quote_str txt
  end.

(* ------------------------------------------------------------------ *)
(** * json.loads(text, parse_constant=str): recogniser *)

Definition TRUE_S : str := [116;114;117;101]%N.
Definition FALSE_S : str := [102;97;108;115;101]%N.
Definition NULL_S : str := [110;117;108;108]%N.
Definition NAN_S : str := [78;97;78]%N.
Definition INF_S : str := [73;110;102;105;110;105;116;121]%N.
Definition NINF_S : str := 45%N :: INF_S.

(* JSON whitespace: space, TAB, LF, CR  (WHITESPACE = [ \t\n\r]* ) *)
Definition is_jws (c : N) : bool := isin c [32;9;10;13]%N.
Fixpoint skip_ws (s : str) : str :=
  match s with
  | c :: r => if is_jws c then skip_ws r else s
  | [] => []
  end.

Definition hex_val (c : N) : option N :=
  if is_digit c then Some (c - 48)%N
  else if N.leb 97 c && N.leb c 102 then Some (c - 87)%N
  else if N.leb 65 c && N.leb c 70 then Some (c - 55)%N
  else None.

(* _decode_uXXXX: exactly four ASCII hex digits *)
Definition hex4 (a b c d : N) : option N :=
  match hex_val a, hex_val b, hex_val c, hex_val d with
  | Some x, Some y, Some z, Some w => Some (((x * 16 + y) * 16 + z) * 16 + w)%N
  | _, _, _, _ => None
  end.

Definition is_high (u : N) : bool := N.leb 55296 u && N.leb u 56319.   (* D800..DBFF *)
Definition is_low (u : N) : bool := N.leb 56320 u && N.leb u 57343.    (* DC00..DFFF *)
(* 0x10000 + (((hi - 0xd800) << 10) | (lo - 0xdc00)) *)
Definition join_surrogates (hi lo : N) : N :=
  (65536 + N.lor (N.shiftl (hi - 55296) 10) (lo - 56320))%N.

(* BACKSLASH table of json.decoder *)
Definition simple_escape (e : N) : option N :=
  if eqc e 34 then Some 34%N
  else if eqc e 92 then Some 92%N
  else if eqc e 47 then Some 47%N
  else if eqc e 98 then Some 8%N
  else if eqc e 102 then Some 12%N
  else if eqc e 110 then Some 10%N
  else if eqc e 114 then Some 13%N
  else if eqc e 116 then Some 9%N
  else None.

Definition scons (c : N) (r : option (str * str)) : option (str * str) :=
  match r with Some (a, b) => Some (c :: a, b) | None => None end.

(* scanstring (strict=True), called just after the opening dquote:
   Some (decoded, rest after the closing dquote) or None (JSONDecodeError) *)
Fixpoint scan_str (s : str) : option (str * str) :=
  match s with
  | [] => None                                       (* unterminated string *)
  | c :: r =>
      if eqc c 34 then Some ([], r)
      else if eqc c 92 then
        match r with
        | [] => None
        | e :: r1 =>
            if eqc e 117 then
              match r1 with
              | h1 :: h2 :: h3 :: h4 :: r2 =>
                  match hex4 h1 h2 h3 h4 with
                  | None => None                     (* invalid \uXXXX escape *)
                  | Some u =>
                      if is_high u then
                        match r2 with
                        | b :: v :: g1 :: g2 :: g3 :: g4 :: r3 =>
                            if eqc b 92 && eqc v 117 then
                              match hex4 g1 g2 g3 g4 with
                              | None => None
                              | Some u2 =>
                                  if is_low u2 then scons (join_surrogates u u2) (scan_str r3)
                                  else scons u (scan_str r2)
                              end
                            else scons u (scan_str r2)
                        | _ => scons u (scan_str r2)
                        end
                      else scons u (scan_str r2)
                  end
              | _ => None
              end
            else
              match simple_escape e with
              | Some d => scons d (scan_str r1)
              | None => None                         (* invalid \escape *)
              end
        end
      else if N.ltb c 32 then None                   (* invalid control character *)
      else scons c (scan_str r)
  end.

(* _match_number_unicode: optional minus; 0 or a digit 1-9 followed by digits;
   optional point and digits; optional e or E, optional sign, digits; with the
   C code's backtracking: a point or exponent not followed by digits is left unread.
   Some (is_float, number of integer digits, rest) *)
Definition is_digit19 (c : N) : bool := N.leb 49 c && N.leb c 57.
Definition scan_frac (s : str) : bool * str :=
  match s with
  | d :: r =>
      if eqc d 46 then
        match span is_digit r with
        | ([], _) => (false, s)
        | (_, r') => (true, r')
        end
      else (false, s)
  | [] => (false, s)
  end.
Definition scan_exp (s : str) : bool * str :=
  match s with
  | e :: r =>
      if eqc e 101 || eqc e 69 then
        let r' := match r with
                  | sg :: t => if eqc sg 45 || eqc sg 43 then t else r
                  | [] => r
                  end in
        match span is_digit r' with
        | ([], _) => (false, s)
        | (_, r'') => (true, r'')
        end
      else (false, s)
  | [] => (false, s)
  end.
Definition scan_int (s : str) : option (nat * str) :=
  match s with
  | c :: r =>
      if is_digit19 c then let '(ds, r') := span is_digit r in Some (S (length ds), r')
      else if eqc c 48 then Some (1%nat, r)
      else None
  | [] => None
  end.
Definition scan_number (s : str) : option (bool * nat * str) :=
  let s1 := match s with c :: r => if eqc c 45 then r else s | [] => s end in
  match scan_int s1 with
  | None => None
  | Some (nd, r1) =>
      let '(f1, r2) := scan_frac r1 in
      let '(f2, r3) := scan_exp r2 in
      Some (f1 || f2, nd, r3)
  end.

(* sys.get_int_max_str_digits() *)
Definition INT_MAX_STR_DIGITS : N := 4300.

Inductive jval :=
| JStr (s : str)        (* a str decoded from a JSON string *)
| JInt | JFloat         (* an int / a float (value not modelled) *)
| JConst (s : str)      (* parse_constant=str applied to NaN, Infinity, -Infinity *)
| JBool (b : bool)
| JNull
| JContainer.           (* a list or a dict *)

Inductive jres :=
| JOk (v : jval) (rest : str)
| JFail                 (* json.JSONDecodeError *)
| JValErr               (* ValueError: Exceeds the limit (4300 digits) for integer string conversion *)
| JFuel.

(* _parse_array_unicode after the opening bracket, the blanks and the test for
   an immediate closing bracket; [scan] is scan_once *)
Fixpoint arr_loop (scan : str -> jres) (n : nat) (s : str) : jres :=
  match n with
  | O => JFuel
  | S n' =>
      match scan s with
      | JOk _ r1 =>
          match skip_ws r1 with
          | d :: r2 =>
              if eqc d 93 then JOk JContainer r2
              else if eqc d 44 then arr_loop scan n' (skip_ws r2)
              else JFail
          | [] => JFail
          end
      | e => e
      end
  end.

(* _parse_object_unicode, likewise *)
Fixpoint obj_loop (scan : str -> jres) (n : nat) (s : str) : jres :=
  match n with
  | O => JFuel
  | S n' =>
      match s with
      | c :: r =>
          if eqc c 34 then
            match scan_str r with
            | None => JFail
            | Some (_, r1) =>
                match skip_ws r1 with
                | d :: r2 =>
                    if eqc d 58 then
                      match scan (skip_ws r2) with
                      | JOk _ r3 =>
                          match skip_ws r3 with
                          | e :: r4 =>
                              if eqc e 125 then JOk JContainer r4
                              else if eqc e 44 then obj_loop scan n' (skip_ws r4)
                              else JFail
                          | [] => JFail
                          end
                      | e => e
                      end
                    else JFail
                | [] => JFail
                end
            end
          else JFail                      (* expecting property name in dquotes *)
      | [] => JFail
      end
  end.

(* scan_once_unicode *)
Fixpoint scan_once (f : nat) (s : str) : jres :=
  match f with
  | O => JFuel
  | S f' =>
      match s with
      | [] => JFail                                        (* StopIteration *)
      | c :: r =>
          if eqc c 34 then
            match scan_str r with
            | Some (v, rest) => JOk (JStr v) rest
            | None => JFail
            end
          else if eqc c 123 then
            match skip_ws r with
            | d :: r1 => if eqc d 125 then JOk JContainer r1 else obj_loop (scan_once f') f' (skip_ws r)
            | [] => JFail
            end
          else if eqc c 91 then
            match skip_ws r with
            | d :: r1 => if eqc d 93 then JOk JContainer r1 else arr_loop (scan_once f') f' (skip_ws r)
            | [] => JFail
            end
          else if startswith s NULL_S then JOk JNull (skipn 4 s)
          else if startswith s TRUE_S then JOk (JBool true) (skipn 4 s)
          else if startswith s FALSE_S then JOk (JBool false) (skipn 5 s)
          else if startswith s NAN_S then JOk (JConst NAN_S) (skipn 3 s)
          else if startswith s INF_S then JOk (JConst INF_S) (skipn 8 s)
          else if startswith s NINF_S then JOk (JConst NINF_S) (skipn 9 s)
          else
            match scan_number s with
            | None => JFail
            | Some (isf, nd, rest) =>
                if isf then JOk JFloat rest
                else if N.ltb INT_MAX_STR_DIGITS (N.of_nat nd) then JValErr
                else JOk JInt rest
            end
      end
  end.

(* json.loads(s, parse_constant=str) = JSONDecoder.decode: BOM test, leading
   blanks, one value, trailing blanks, nothing else (Extra data) *)
Definition json_loads (s : str) : jres :=
  if startswith s [65279%N] then JFail
  else
    match scan_once (S (length s)) (skip_ws s) with
    | JOk v rest => match skip_ws rest with [] => JOk v [] | _ :: _ => JFail end
    | e => e
    end.

(* ------------------------------------------------------------------ *)
(** * evaluate, type *)

Inductive result :=
| RNull                 (* None *)
| RInt | RFloat         (* an int / a float *)
| RStr (s : str)        (* a str: the symbol unchanged, or the decoded string *)
| RConstErr             (* ConstantError *)
| RFuel.

Definition str_in (s : str) (l : list str) : bool := existsb (str_eqb s) l.

(* s.endswith(c) for a single character c, in one pass (Base.PyStr.endswith
   reverses s with the quadratic List.rev, too slow for 4300-digit texts in the
   extracted driver); Constant_lemmas.ends_with_endswith proves it equal to
   endswith s [c] *)
Fixpoint ends_with (s : str) (c : N) : bool :=
  match s with
  | [] => false
  | d :: r => match r with [] => eqc c d | _ :: _ => ends_with r c end
  end.

Definition evaluate (o : option str) : result :=
  match o with
  | None => RNull
  | Some [] => RNull
  | Some s =>
      if xorb (startswith s [34%N]) (ends_with s 34%N) then RConstErr   (* unbalanced quotes *)
      else if str_in s [TRUE_S; FALSE_S; NULL_S] then RStr s
      else
        match json_loads s with
        | JOk (JStr v) _ => RStr v
        | JOk JInt _ => RInt
        | JOk JFloat _ => RFloat
        | JOk (JConst t) _ => RStr t
        | JOk (JBool _) _ => RStr s           (* else: value is None or a bool -> the text *)
        | JOk JNull _ => RStr s
        | JOk JContainer _ => RConstErr       (* invalid constant *)
        | JFail => RStr s
        | JValErr => RStr s                   (* except ValueError *)
        | JFuel => RFuel
        end
  end.

Inductive ty :=
| TySymbol | TyString | TyInteger | TyFloat | TyNull
| TyConstErr            (* ConstantError from evaluate *)
| TyFuel.

Definition ctype (o : option str) : ty :=
  match o with
  | None => TyNull
  | Some s =>
      match evaluate (Some s) with
      | RNull => TyNull
      | RInt => TyInteger
      | RFloat => TyFloat
      | RStr _ => if startswith s [34%N] && ends_with s 34%N then TyString else TySymbol
      | RConstErr => TyConstErr
      | RFuel => TyFuel
      end
  end.
