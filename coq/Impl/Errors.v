(** Mirror of penman/model.py Model.errors, _dfs (with the F21 repair: instance
    triples are not edges) and of penman/__main__.py _check, process (exit code
    accumulation, F3 repair) and the per-file loop of main.

    Domain note.  [sorted(unreachable)] compares variables with Python's [<]:
    on [str] that is code-point lexicographic order ([str_ltb]).  A [None] or a
    number among two or more unreachable sources raises TypeError (or compares
    numerically): such graphs are OUTSIDE this model; the theorems that look at
    the general-graph report carry the guard [Spec.Connectivity.str_sources].
    Graphs decoded from text never reach that branch with a non-empty
    unreachable set when their edges are not instance-labelled. *)
From PM Require Export Impl.Model Impl.Graph.

Inductive emsg := Empty | NoTop | TopNotVar | InvalidRole | Unreachable.
Definition emsg_eqb (a b : emsg) : bool :=
  match a, b with
  | Empty, Empty | NoTop, NoTop | TopNotVar, TopNotVar
  | InvalidRole, InvalidRole | Unreachable, Unreachable => true
  | _, _ => false
  end.

(* error context: None (general) or a triple *)
Definition ctx := option triple.
Definition ctx_eqb : ctx -> ctx -> bool := option_eqb triple_eqb.
Definition errdict := dict ctx (list emsg).

(* defaultdict(list): d[k].append(v); a new key goes to the end *)
Section AppendDict.
  Context {K V : Type} (keq : K -> K -> bool).
  Definition dappend (k : K) (v : V) (d : dict K (list V)) : dict K (list V) :=
    match dget keq k d with
    | Some l => dset keq k (l ++ [v]) d
    | None => dset keq k [v] d
    end.
End AppendDict.

Definition err_append (k : ctx) (msg : emsg) (e : errdict) : errdict :=
  dappend ctx_eqb k msg e.

(* g : Dict[Variable, List[BasicTriple]] -- insertion order = first occurrence *)
Definition gdict := dict atom (list triple).
Definition g_add (t : triple) (g : gdict) : gdict := dappend atom_eqb (tsrc t) t g.

(* ---- _dfs ---- *)
(* Python sets used for membership/iteration whose order is unobservable in
   the result: lists without duplicates, insertion order. *)
Definition set_add (x : atom) (s : list atom) : list atom :=
  if mem atom_eqb x s then s else s ++ [x].
Definition adjacency := dict atom (list atom).

(* { target for _, role, target in triples if role != CONCEPT_ROLE and target in g } *)
Definition edge_targets (g : gdict) (ts : list triple) : list atom :=
  fold_left (fun s t =>
               if negb (str_eqb (trole t) INSTANCE) && dmem atom_eqb (ttgt t) g
               then set_add (ttgt t) s else s) ts [].
Definition adjacency_of (g : gdict) : adjacency :=
  map (fun kv : atom * list triple => (fst kv, edge_targets g (snd kv))) g.

Definition q_get (q : adjacency) (v : atom) : list atom :=
  match dget atom_eqb v q with Some s => s | None => [] end.
(* if target not in q: q[target] = set() ; q[target].add(var) *)
Definition q_add (tgt var : atom) (q : adjacency) : adjacency :=
  match dget atom_eqb tgt q with
  | Some s => dset atom_eqb tgt (set_add var s) q
  | None => dset atom_eqb tgt [var] q
  end.
(* for var, targets in q.items(): for target in targets: ...   (keys never
   change: every target is a key of g, hence of q) *)
Definition make_bidirectional (q0 : adjacency) : adjacency :=
  fold_left (fun q var => fold_left (fun q tgt => q_add tgt var q) (q_get q var) q)
            (dkeys q0) q0.

(* while agenda: cur = agenda.pop(); ...   The agenda is kept with its END
   (where Python pops) at the head of the list. *)
Fixpoint dfs_loop (fuel : nat) (q : adjacency) (visited agenda : list atom) : option (list atom) :=
  match fuel with
  | O => None
  | S f =>
      match agenda with
      | [] => Some visited
      | cur :: rest =>
          if mem atom_eqb cur visited then dfs_loop f q visited rest
          else
            let visited' := visited ++ [cur] in
            let new := filter (fun t => negb (mem atom_eqb t visited')) (q_get q cur) in
            dfs_loop f q visited' (rev new ++ rest)
      end
  end.
Definition dfs_fuel (q : adjacency) : nat := 2 + length (flat_map snd q).
Definition dfs (g : gdict) (top : atom) : option (list atom) :=
  let q := make_bidirectional (adjacency_of g) in
  dfs_loop (dfs_fuel q) q [] [top].

(* ---- sorted(unreachable) on str variables: insertion sort by code points ---- *)
Definition atom_ltb (a b : atom) : bool :=
  match a, b with AStr x, AStr y => str_ltb x y | _, _ => false end.
Fixpoint insert_sorted (x : atom) (l : list atom) : list atom :=
  match l with
  | [] => [x]
  | y :: l' => if atom_ltb x y then x :: l else y :: insert_sorted x l'
  end.
Definition sort_atoms (l : list atom) : list atom := fold_right insert_sorted [] l.

(* ---- Model.errors ---- *)
Definition first_pass (m : model) (ts : list triple) : errdict * gdict :=
  fold_left (fun (st : errdict * gdict) t =>
               let e := if has_role m (trole t) then fst st
                        else err_append (Some t) InvalidRole (fst st) in
               (e, g_add t (snd st))) ts ([], []).

Definition g_get (g : gdict) (v : atom) : list triple :=
  match dget atom_eqb v g with Some l => l | None => [] end.

Definition top_falsy (top : option atom) : bool :=
  match top with None => true | Some a => falsy a end.

(* None = the work-list ran out of fuel (excluded by C16_dfs_is_component) *)
Definition errors_opt (m : model) (gr : graph) : option errdict :=
  match triples gr with
  | [] => Some (err_append None Empty [])
  | ts =>
      let '(e, g) := first_pass m ts in
      match graph_top gr with
      | None => Some (err_append None NoTop e)
      | Some top =>
          if falsy top then Some (err_append None NoTop e)
          else if negb (dmem atom_eqb top g) then Some (err_append None TopNotVar e)
          else
            match dfs g top with
            | None => None
            | Some reachable =>
                let unreachable :=
                  filter (fun v => negb (mem atom_eqb v reachable)) (dkeys g) in
                Some (fold_left
                        (fun e uvar =>
                           fold_left (fun e t => err_append (Some t) Unreachable e) (g_get g uvar) e)
                        (sort_atoms unreachable) e)
            end
      end
  end.
Definition errors (m : model) (gr : graph) : errdict :=
  match errors_opt m gr with Some e => e | None => [] end.

(* ---- __main__._check ---- *)
Definition emsg_text (e : emsg) : str :=
  match e with
  | Empty => [103;114;97;112;104;32;105;115;32;101;109;112;116;121]          (* graph is empty *)
  | NoTop => [116;111;112;32;105;115;32;110;111;116;32;115;101;116]          (* top is not set *)
  | TopNotVar => [116;111;112;32;105;115;32;110;111;116;32;97;32;118;97;114;105;97;98;108;101;
                  32;105;110;32;116;104;101;32;103;114;97;112;104]           (* top is not a variable in the graph *)
  | InvalidRole => [105;110;118;97;108;105;100;32;114;111;108;101]           (* invalid role *)
  | Unreachable => [117;110;114;101;97;99;104;97;98;108;101]                 (* unreachable *)
  end%N.
(* '({}) '.format(' '.join(map(str, triple))) or '' *)
Definition ctx_text (k : ctx) : str :=
  match k with
  | None => []
  | Some t => [40%N] ++ join [32%N] [atom_str (tsrc t); trole t; atom_str (ttgt t)] ++ [41%N; 32%N]
  end.
Definition ERROR_DASH : str := [101;114;114;111;114;45]%N.                   (* error- *)
Definition error_key (i : N) : str := ERROR_DASH ++ N_to_str i.

Definition check_step (st : N * dict str str) (kv : ctx * list emsg) : N * dict str str :=
  (fst st + 1,
   fold_left (fun md msg => dset str_eqb (error_key (fst st)) (ctx_text (fst kv) ++ emsg_text msg) md)
             (snd kv) (snd st))%N.
(* returns (exit status is 1, new metadata of the graph) *)
Definition check_graph (m : model) (g : graph) : bool * dict str str :=
  match errors m g with
  | [] => (false, gmeta g)
  | e => (true, snd (fold_left check_step e (1%N, gmeta g)))
  end.

(* process(): exitcode = 0; for each graph: exitcode |= _check(g, model) *)
Definition process_exit (m : model) (gs : list graph) : bool :=
  fold_left (fun acc g => acc || fst (check_graph m g)) gs false.
(* main(): exitcode = 0; for file in FILEs: exitcode |= process(...) ;
   without FILE arguments: exitcode = process(stdin) *)
Definition cli_exit_code (m : model) (files : list (list graph)) : bool :=
  fold_left (fun acc f => acc || process_exit m f) files false.
Definition cli_exit_code_stdin (m : model) (gs : list graph) : bool := process_exit m gs.
