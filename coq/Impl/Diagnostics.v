(** Mirror of penman/layout.py: get_pushed_variable, node_contexts,
    appears_inverted (with the F9 / F23 repairs, as in /repo). *)
From PM Require Export Impl.Graph.

(* first Push marker of the triple, if any: Some v (v may be ANone) *)
Definition get_pushed_variable (g : graph) (t : triple) : option atom :=
  match find is_push (epis_of g t) with
  | Some (Push v) => Some v
  | _ => None
  end.

(* Python result of get_pushed_variable: None when absent (Push(None) also gives None) *)
Definition pushed_value (g : graph) (t : triple) : atom :=
  match get_pushed_variable g t with Some v => v | None => ANone end.

(* pop the stack once per POP marker; None = IndexError (more POPs than contexts) *)
Fixpoint pop_n (n : nat) (stack : list atom) : option (list atom) :=
  match n with
  | O => Some stack
  | S n' => match stack with [] => None | _ :: s' => pop_n n' s' end
  end.

(* the stack's head is Python's stack[-1]; contexts are [Some var] or [None] (unknown) *)
Fixpoint node_contexts_loop (g : graph) (vars : list atom) (ts : list triple) (stack : list atom)
  : list (option atom) :=
  match ts with
  | [] => []
  | t :: ts' =>
      let eligible := tsrc t :: (if negb (str_eqb (trole t) INSTANCE) && mem atom_eqb (ttgt t) vars
                                 then [ttgt t] else []) in
      match stack with
      | [] => map (fun _ => None) ts
      | top :: _ =>
          if negb (mem atom_eqb top eligible) then map (fun _ => None) ts
          else
            let pushed := pushed_value g t in
            let stack1 := if falsy pushed then stack else pushed :: stack in
            let npops := length (filter is_pop (epis_of g t)) in
            match pop_n npops stack1 with
            | Some stack2 => Some top :: node_contexts_loop g vars ts' stack2
            | None => Some top :: map (fun _ => None) ts'
            end
      end
  end.
(* stack = [g.top]: g.top may be None (then it is the atom None on the stack) *)
Definition node_contexts (g : graph) : list (option atom) :=
  node_contexts_loop g (variables g) (triples g)
    [match graph_top g with Some t => t | None => ANone end].

(* a context value as Python sees it: [None] both for unknown and for the variable None *)
Definition ctx_is_none (c : option atom) : bool :=
  match c with None => true | Some ANone => true | _ => false end.

Fixpoint appears_inverted_scan (t : triple) (cs : list (option atom)) (ts : list triple) : bool :=
  match cs, ts with
  | c :: cs', t' :: ts' =>
      if ctx_is_none c then false
      else if triple_eqb t' t then
        match c with Some v => atom_eqb (ttgt t) v | None => false end
      else appears_inverted_scan t cs' ts'
  | _, _ => false
  end.
Definition appears_inverted (g : graph) (t : triple) : bool :=
  if str_eqb (trole t) INSTANCE || negb (is_var g (ttgt t)) then false
  else
    match pushed_value g t with
    | ANone => appears_inverted_scan t (node_contexts g) (triples g)
    | v => atom_eqb v (tsrc t)
    end.
