(** Mirror of penman/_lexer.py: the nine token patterns as deterministic
    scanners implementing CPython's leftmost-alternative / greedy / backtracking
    semantics for exactly these patterns, [_lex], the line splitter of [lex],
    and [TokenIterator]. *)
From PM Require Export Base.Types.

Definition is_ws (c : N) : bool := isin c [32;9;13;10;11;12]%N.
(* name characters: anything but the six ASCII blanks, dquote, parens, slash, colon, tilde *)
Definition is_name (c : N) : bool := negb (isin c [32;9;13;10;11;12;34;40;41;47;58;126]%N).

(* every matcher: Some (lexeme, rest) or None *)
Definition matcher := str -> option (str * str).

(* COMMENT: hash, then any chars but LF, then end (end of string or before a final LF) *)
Definition m_comment : matcher := fun s =>
  match s with
  | c :: s' =>
      if eqc c 35 then
        let '(a, b) := span (fun c => negb (eqc c 10)) s' in
        match b with
        | [] => Some (c :: a, [])
        | [_] => Some (c :: a, b)          (* b = [LF] *)
        | _ => None
        end
      else None
  | [] => None
  end.

(* STRING: dquote, then non-dquote-non-backslash chars and backslash-escapes (backslash + any char but LF), then dquote *)
Fixpoint m_string_body (s : str) : option (str * str) :=
  match s with
  | [] => None
  | c :: r =>
      if eqc c 34 then Some ([c], r)
      else if eqc c 92 then
        match r with
        | d :: r' =>
            if eqc d 10 then None
            else match m_string_body r' with
                 | Some (a, b) => Some (c :: d :: a, b)
                 | None => None
                 end
        | [] => None
        end
      else match m_string_body r with
           | Some (a, b) => Some (c :: a, b)
           | None => None
           end
  end.
Definition m_string : matcher := fun s =>
  match s with
  | c :: r =>
      if eqc c 34 then
        match m_string_body r with Some (a, b) => Some (c :: a, b) | None => None end
      else None
  | [] => None
  end.

Definition m_char (k : N) : matcher := fun s =>
  match s with c :: r => if eqc c k then Some ([c], r) else None | [] => None end.

Definition m_role : matcher := fun s =>
  match s with
  | c :: r => if eqc c 58 then let '(a, b) := span is_name r in Some (c :: a, b) else None
  | [] => None
  end.

Definition m_symbol : matcher := fun s =>
  match span is_name s with ([], _) => None | (a, b) => Some (a, b) end.

(* ALIGNMENT: tilde, optional (ASCII letter, optional period), digits, then (comma digits) repeated *)
Fixpoint m_more (f : nat) (s : str) : str * str :=
  match f with
  | O => ([], s)
  | S f' =>
      match s with
      | c :: r =>
          if eqc c 44 then
            match span is_digit r with
            | ([], _) => ([], s)
            | (d, r') => let '(a, b) := m_more f' r' in (c :: d ++ a, b)
            end
          else ([], s)
      | [] => ([], s)
      end
  end.
Definition m_digits_list (s : str) : option (str * str) :=
  match span is_digit s with
  | ([], _) => None
  | (d, r) => let '(a, b) := m_more (length r) r in Some (d ++ a, b)
  end.
Definition m_align : matcher := fun s =>
  match s with
  | t :: r =>
      if eqc t 126 then
        let with_prefix :=
          match r with
          | c :: r1 =>
              if is_ascii_alpha c then
                let nodot := match m_digits_list r1 with
                             | Some (a, b) => Some (t :: c :: a, b)
                             | None => None
                             end in
                match r1 with
                | d :: r2 =>
                    if eqc d 46 then
                      match m_digits_list r2 with
                      | Some (a, b) => Some (t :: c :: d :: a, b)
                      | None => nodot
                      end
                    else nodot
                | [] => nodot
                end
              else None
          | [] => None
          end in
        match with_prefix with
        | Some x => Some x
        | None => match m_digits_list r with Some (a, b) => Some (t :: a, b) | None => None end
        end
      else None
  | [] => None
  end.

(* UNEXPECTED: one non-blank character *)
Definition m_unexp : matcher := fun s =>
  match s with c :: r => if is_ws c then None else Some ([c], r) | [] => None end.

Definition matcher_of (t : tokty) : matcher :=
  match t with
  | COMMENT => m_comment | STRING => m_string | LPAREN => m_char 40 | RPAREN => m_char 41
  | SLASH => m_char 47 | ROLE => m_role | SYMBOL => m_symbol | ALIGNMENT => m_align
  | UNEXPECTED => m_unexp
  end.

(* alternation orders of PENMAN_RE and TRIPLE_RE *)
Definition PENMAN_ALTS : list tokty :=
  [COMMENT; STRING; LPAREN; RPAREN; SLASH; ROLE; SYMBOL; ALIGNMENT; UNEXPECTED].
Definition TRIPLE_ALTS : list tokty := [COMMENT; STRING; LPAREN; RPAREN; SYMBOL; UNEXPECTED].

Fixpoint first_match (alts : list tokty) (s : str) : option (tokty * str * str) :=
  match alts with
  | [] => None
  | t :: alts' =>
      match matcher_of t s with
      | Some (a, b) => Some (t, a, b)
      | None => first_match alts' s
      end
  end.

(* regex.finditer over one line *)
Fixpoint lex_line_fuel (f : nat) (alts : list tokty) (ln : N) (s : str) (off : N) : list token :=
  match f with
  | O => []
  | S f' =>
      match s with
      | [] => []
      | _ :: s' =>
          match first_match alts s with
          | Some (t, a, b) =>
              mkToken t a ln off :: lex_line_fuel f' alts ln b (off + N.of_nat (length a))
          | None => lex_line_fuel f' alts ln s' (off + 1)
          end
      end
  end.
Definition lex_line (alts : list tokty) (ln : N) (s : str) : list token :=
  lex_line_fuel (S (length s)) alts ln s 0.

(* _lex: enumerate(lines, 1) *)
Fixpoint lex_lines_from (alts : list tokty) (ln : N) (lines : list str) : list token :=
  match lines with
  | [] => []
  | l :: ls => lex_line alts ln l ++ lex_lines_from alts (ln + 1) ls
  end.
Definition lex_lines (alts : list tokty) (lines : list str) : list token :=
  lex_lines_from alts 1 lines.

(* re.split on CRLF | CR | LF : always at least one piece *)
Fixpoint split_lines (s : str) : list str :=
  match s with
  | [] => [[]]
  | c :: s' =>
      if eqc c 10 then [] :: split_lines s'
      else if eqc c 13 then
        match s' with
        | d :: s'' => if eqc d 10 then [] :: split_lines s'' else [] :: split_lines s'
        | [] => [[]; []]
        end
      else match split_lines s' with
           | p :: ps => (c :: p) :: ps
           | [] => [[c]]
           end
  end.

(* lex(str) *)
Definition lex_str (alts : list tokty) (s : str) : list token := lex_lines alts (split_lines s).
