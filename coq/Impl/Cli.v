(** Mirror of penman/__main__.py: the plumbing of the penman command --
    REARRANGE_KEYS / RECONFIGURE_KEYS, _make_sort_key, _process_in, _check,
    _process_out, process (the blank-line separator and the shared [first]
    state, F18 repair), main (exit status accumulated over the FILE arguments,
    F3 repair; the model handed to reconfigure, F13 repair).

    NOT modelled: argparse (the options arrive decoded in [cli_opts]; [_indent]
    and [_get_model] are decoded by the harness: indent None / Some z, the model
    as a value), -q / -v, encodings, the file system.  A file is the text read
    from it; iterating a text-mode file and splitting the text at line ends give
    the same trees (theorem C09_framing).  The sort key [random] needs the state
    of the random module and is outside the model: no [ukey] stands for it.
    Executable definitions only. *)
From PM Require Export Impl.Parse Impl.CanonRoles Impl.Interpret Impl.Transform Impl.Errors
  Impl.Configure Impl.Layout Impl.ResetVars Impl.Format.

(* ---- the two key tables, as written in __main__.py (name on the command line,
   name of the Model attribute).  Properties/C20.v proves that the tables pinned
   from the CURRENT source (Gen/Pins.v) are these. ---- *)
Definition K_RANDOM : str := [114;97;110;100;111;109]%N.
Definition K_CANONICAL : str := [99;97;110;111;110;105;99;97;108]%N.
Definition K_ALPHANUMERIC : str := [97;108;112;104;97;110;117;109;101;114;105;99]%N.
Definition K_INVERTED_LAST : str := [105;110;118;101;114;116;101;100;45;108;97;115;116]%N.
Definition K_ATTRIBUTES_FIRST : str := [97;116;116;114;105;98;117;116;101;115;45;102;105;114;115;116]%N.
Definition K_ORIGINAL : str := [111;114;105;103;105;110;97;108]%N.
Definition A_RANDOM_ORDER : str := [114;97;110;100;111;109;95;111;114;100;101;114]%N.
Definition A_CANONICAL_ORDER : str := [99;97;110;111;110;105;99;97;108;95;111;114;100;101;114]%N.
Definition A_ALPHANUMERIC_ORDER : str := [97;108;112;104;97;110;117;109;101;114;105;99;95;111;114;100;101;114]%N.
Definition A_IS_ROLE_INVERTED : str := [105;115;95;114;111;108;101;95;105;110;118;101;114;116;101;100]%N.
Definition A_ATTRIBUTES_FIRST : str := [97;116;116;114;105;98;117;116;101;115;95;102;105;114;115;116]%N.
Definition A_ORIGINAL_ORDER : str := [111;114;105;103;105;110;97;108;95;111;114;100;101;114]%N.

Definition REARRANGE_KEYS : dict str str :=
  [ (K_RANDOM, A_RANDOM_ORDER); (K_CANONICAL, A_CANONICAL_ORDER);
    (K_ALPHANUMERIC, A_ALPHANUMERIC_ORDER); (K_INVERTED_LAST, A_IS_ROLE_INVERTED);
    (K_ATTRIBUTES_FIRST, A_ATTRIBUTES_FIRST) ].
Definition RECONFIGURE_KEYS : dict str str :=
  [ (K_ORIGINAL, A_ORIGINAL_ORDER); (K_RANDOM, A_RANDOM_ORDER); (K_CANONICAL, A_CANONICAL_ORDER) ].

(* the key names a user can write (all of them but random) *)
Inductive ukey := UCanonical | UAlphanumeric | UInvertedLast | UAttributesFirst | UOriginal.
Definition ukey_text (k : ukey) : str :=
  match k with
  | UCanonical => K_CANONICAL | UAlphanumeric => K_ALPHANUMERIC | UInvertedLast => K_INVERTED_LAST
  | UAttributesFirst => K_ATTRIBUTES_FIRST | UOriginal => K_ORIGINAL
  end.

(* ---- getattr(model, name, None) for the names of the tables ---- *)
Inductive method := MOriginal | MCanonical | MAlnum | MInverted.
Inductive attr := AMethod (me : method) | ARandom | ANoAttr.
Definition getattr_model (name : str) : attr :=
  if str_eqb name A_ORIGINAL_ORDER then AMethod MOriginal
  else if str_eqb name A_CANONICAL_ORDER then AMethod MCanonical
  else if str_eqb name A_ALPHANUMERIC_ORDER then AMethod MAlnum
  else if str_eqb name A_IS_ROLE_INVERTED then AMethod MInverted
  else if str_eqb name A_RANDOM_ORDER then ARandom
  else ANoAttr.

(* ---- the values the key functions return, and Python's comparison of them.
   Position i of every composite key is produced by the same function, so two
   values of different shape are never compared (Python would raise TypeError
   there); the last case is unreachable. ---- *)
Inductive keyval := KBool (b : bool) | KAlnum (k : str * N) | KCanon (k : bool * (str * N)).
Definition keyval_leb (a b : keyval) : bool :=
  match a, b with
  | KBool x, KBool y => bool_leb x y
  | KAlnum x, KAlnum y => alnum_leb x y
  | KCanon x, KCanon y => canonical_leb x y
  | _, _ => true
  end.
Definition method_key (m : model) (me : method) (role : str) : keyval :=
  match me with
  | MOriginal => KBool (original_key role)
  | MCanonical => KCanon (canonical_key m role)
  | MAlnum => KAlnum (alnum_key role)
  | MInverted => KBool (is_role_inverted m role)
  end.

(* _make_sort_key(keys, model, key_funcs) = (sort_key, kwargs): [funcs] in the
   order of the user's list; a name that is not an attribute of the model becomes
   the keyword argument name=True.  key_funcs[key] raises KeyError (argparse has
   rejected such a key before).  Other 0: random_order, outside the model. *)
Fixpoint make_sort_key_loop (keys : list ukey) (key_funcs : dict str str)
  (kwargs : dict str bool) (funcs : list method) : outcome (list method * dict str bool) :=
  match keys with
  | [] => Ok (funcs, kwargs)
  | k :: ks =>
      match dget str_eqb (ukey_text k) key_funcs with
      | None => Other 2
      | Some name =>
          match getattr_model name with
          | ANoAttr => make_sort_key_loop ks key_funcs (dset str_eqb name true kwargs) funcs
          | AMethod me => make_sort_key_loop ks key_funcs kwargs (funcs ++ [me])
          | ARandom => Other 0
          end
      end
  end.
Definition make_sort_key (keys : list ukey) (key_funcs : dict str str)
  : outcome (list method * dict str bool) :=
  make_sort_key_loop keys key_funcs [] [].
(* sort_key(role) = [func(role) for func in funcs] *)
Definition sort_key (m : model) (funcs : list method) (role : str) : list keyval :=
  map (fun me => method_key m me role) funcs.
Definition sort_key_leb : list keyval -> list keyval -> bool := list_leb keyval_leb.

(* ---- the options after main() has decoded them ---- *)
Record cli_opts := mkOpts {
  o_model : model;                          (* _get_model(args.amr, args.noop, args.model) *)
  o_canonicalize_roles : bool;
  o_reify_edges : bool;
  o_dereify_edges : bool;
  o_reify_attributes : bool;
  o_indicate_branches : bool;
  o_reconfigure : option (list ukey);       (* args.reconfigure before _make_sort_key *)
  o_rearrange : option (list ukey);
  o_make_variables : option (list piece);   (* the format string, parsed by parse_fmt *)
  o_indent : option Z;                      (* _indent: None = no, Some (-1) = default *)
  o_compact : bool;
  o_triples : bool;
  o_check : bool;
  o_ov : overrides                          (* str.isalpha / str.lower outside Latin-1 *)
}.

(* normalize_options after main(): [if args.rearrange:] is false for None and for
   an empty list, and then the option stays falsy in _process_out *)
Definition sort_option (keys : option (list ukey)) (key_funcs : dict str str)
  : outcome (option (list method * dict str bool)) :=
  match keys with
  | Some (k :: ks) => r <- make_sort_key (k :: ks) key_funcs ;; Ok (Some r)
  | _ => Ok None
  end.

(* ---- _process_in ---- *)
Definition process_in (o : cli_opts) (t : tree) : outcome graph :=
  let m := o_model o in
  t <- (if o_canonicalize_roles o
        then match canonicalize_roles m t with Some t' => Ok t' | None => OutOfFuel end
        else Ok t) ;;
  g <- interpret m t ;;
  g <- (if o_reify_edges o then reify_edges m g else Ok g) ;;
  g <- (if o_dereify_edges o then dereify_edges m g else Ok g) ;;
  g <- (if o_reify_attributes o then reify_attributes g else Ok g) ;;
  (if o_indicate_branches o then indicate_branches m g else Ok g).

(* ---- _check: returns the status and the graph with its metadata updated ---- *)
Definition set_gmeta (g : graph) (md : dict str str) : graph :=
  mkGraph (triples g) (gtop g) (epidata g) md.
Definition check (m : model) (g : graph) : bool * graph :=
  let '(b, md) := check_graph m g in (b, set_gmeta g md).

(* ---- the keyword calls of _process_out ---- *)
(* layout.reconfigure(g, model=model, key=key, **kwargs): no other keyword exists *)
Definition call_reconfigure (m : model) (g : graph) (funcs : list method) (kwargs : dict str bool)
  : outcome tree :=
  match kwargs with
  | [] => reconfigure sort_key_leb m g None (Some (sort_key m funcs))
  | _ => Other 6
  end.
(* layout.rearrange(t, key=key, **kwargs): attributes_first is the only other keyword *)
Definition call_rearrange (m : model) (t : tree) (funcs : list method) (kwargs : dict str bool)
  : outcome tree :=
  if forallb (fun kv : str * bool => str_eqb (fst kv) A_ATTRIBUTES_FIRST) kwargs then
    let af := match dget str_eqb A_ATTRIBUTES_FIRST kwargs with Some b => b | None => false end in
    Ok (rearrange sort_key_leb (Some (sort_key m funcs)) af t)
  else Other 6.

(* ---- _process_out ---- *)
Definition process_out (o : cli_opts)
  (reconf rearr : option (list method * dict str bool)) (g : graph) : outcome tree :=
  let m := o_model o in
  t <- match reconf with
       | Some (funcs, kwargs) =>
           t <- call_reconfigure m g funcs kwargs ;;
           _ <- interpret m t ;;                       (* g = layout.interpret(t, model) *)
           Ok t
       | None => configure m g None
       end ;;
  t <- match rearr with
       | Some (funcs, kwargs) => call_rearrange m t funcs kwargs
       | None => Ok t
       end ;;
  match o_make_variables o with
  | Some (p :: ps) => reset_variables_ov (o_ov o) (p :: ps) t
  | _ => Ok t                                          (* None or the empty format string *)
  end.

(* bool(format_options.get('indent', True)) *)
Definition triples_indent (indent : option Z) : bool :=
  match indent with Some z => negb (Z.eqb z 0) | None => false end.

(* the body of the loop of process() after the separator: (text, status) *)
Definition process_tree (o : cli_opts)
  (reconf rearr : option (list method * dict str bool)) (t : tree) : outcome (str * bool) :=
  let m := o_model o in
  g <- process_in o t ;;
  let '(code, g) := if o_check o then check m g else (false, g) in
  if o_triples o then Ok (format_triples (triples g) (triples_indent (o_indent o)), code)
  else
    t' <- process_out o reconf rearr g ;;
    Ok (format (o_indent o) (o_compact o) t', code).

(* ---- process(): [state] is the shared dict (true = nothing written yet), [out]
   what has been written to stdout so far ---- *)
Definition LF : N := 10%N.
Fixpoint process_loop (o : cli_opts) (reconf rearr : option (list method * dict str bool))
  (ts : list tree) (state : bool) (out : str) (exitcode : bool) : outcome (bool * str * bool) :=
  match ts with
  | [] => Ok (state, out, exitcode)
  | t :: ts' =>
      let out1 := if state then out else out ++ [LF] in        (* print(file=out) *)
      '(s, code) <- process_tree o reconf rearr t ;;
      process_loop o reconf rearr ts' false (out1 ++ s ++ [LF]) (exitcode || code)
  end.

(* [parsed]: the trees codec.iterparse(f) yields, then how the generator ends
   (normally, or with the DecodeError raised when the next tree is asked for) *)
Definition parsed := (list tree * outcome unit)%type.
Definition process_parsed (o : cli_opts) (reconf rearr : option (list method * dict str bool))
  (p : parsed) (state : bool) (out : str) : outcome (bool * str * bool) :=
  let '(ts, fin) := p in
  r <- process_loop o reconf rearr ts state out false ;;
  _ <- fin ;;
  Ok r.
Definition process (o : cli_opts) (reconf rearr : option (list method * dict str bool))
  (f : str) (state : bool) (out : str) : outcome (bool * str * bool) :=
  process_parsed o reconf rearr (iterparse_str f) state out.

(* ---- main(): (stdout, exit status is 1).  [run_parsed] is main() with every
   input already split into trees; [run] reads the texts. ---- *)
Fixpoint main_files (o : cli_opts) (reconf rearr : option (list method * dict str bool))
  (files : list parsed) (state : bool) (out : str) (exitcode : bool) : outcome (str * bool) :=
  match files with
  | [] => Ok (out, exitcode)
  | f :: fs =>
      '(state', out', code) <- process_parsed o reconf rearr f state out ;;
      main_files o reconf rearr fs state' out' (exitcode || code)
  end.

Definition run_parsed (o : cli_opts) (files : list parsed) (stdin : parsed) : outcome (str * bool) :=
  rearr <- sort_option (o_rearrange o) REARRANGE_KEYS ;;
  reconf <- sort_option (o_reconfigure o) RECONFIGURE_KEYS ;;
  match files with
  | _ :: _ => main_files o reconf rearr files true [] false      (* state = {} shared by all FILEs *)
  | [] =>
      '(_, out, code) <- process_parsed o reconf rearr stdin true [] ;;    (* state=None *)
      Ok (out, code)
  end.

Definition run (o : cli_opts) (files : list str) (stdin : str) : outcome (str * bool) :=
  run_parsed o (map iterparse_str files) (iterparse_str stdin).
