(** Mirror of penman/tree.py: nodes(), is_atomic (structural here). *)
From PM Require Export Base.Types.

(* Tree.nodes(): flat list of nodes whose variable is not None, depth first *)
Fixpoint nodes_of (n : node) : list node :=
  match n with
  | Node v bs =>
      let fix go (bs : list branch) : list node :=
        match bs with
        | [] => []
        | (_, TAtom _) :: bs' => go bs'
        | (_, TNode n') :: bs' => nodes_of n' ++ go bs'
        end in
      match v with ANone => go bs | _ => n :: go bs end
  end.
Definition tree_vars (n : node) : list atom := map node_var (nodes_of n).
