(** Mirror of penman/transform.py: reify_edges, dereify_edges (with
    _dereify_agenda), reify_attributes, indicate_branches and the marker
    helpers _reified_markers / _edge_markers / _attr_markers.

    Executable definitions only.  The tree of /repo this mirrors contains the
    repairs F4 (Model.dereify prefers exact rows), F9 (epidata.get), F12
    (top=g.top), F17 (dereified source must be a variable), F25 (a
    self-loop is never treated as inverted by reify_edges), F28 (new
    variables avoid every existing target, not only the variables) and F29
    (indicate_branches checks that the target is a variable).

    Python sets used for membership only ([vars], [variables], [fixed]) are
    lists; dicts ([new_epidata], [inst], [other], [agenda]) are PyDict
    association lists so that key ORDER is the Python order. *)
From PM Require Export Impl.Graph Impl.Model Impl.Surface Impl.Diagnostics.

(* ---------------------------------------------------------------------- *)
(* _reified_markers: (push, pops, role_epis, other_epis).  [push] is the LAST
   Push of the list (the loop overwrites), the other three keep list order.
   mode: RoleAlignment 1, Alignment 2, layout markers 0. *)
Definition is_role_epi (e : epi) : bool := N.eqb (epi_mode e) 1.
Definition is_other_epi (e : epi) : bool :=
  negb (is_push e) && negb (is_pop e) && negb (is_role_epi e).
Definition reified_markers (l : list epi) : option epi * list epi * list epi * list epi :=
  (last_such is_push l, filter is_pop l, filter is_role_epi l, filter is_other_epi l).

Definition push_list (p : option epi) : list epi :=
  match p with Some e => [e] | None => [] end.

(* _edge_markers: role alignments become target alignments of the new node;
   everything else goes to the outgoing triple: others, then push, then pops *)
Definition role_to_node_epi (e : epi) : list epi :=
  match e with RAln i p => [Aln i p] | _ => [] end.
Definition edge_markers (l : list epi) : list epi * list epi :=
  let '(push, pops, role_epis, other_epis) := reified_markers l in
  (flat_map role_to_node_epi role_epis, other_epis ++ push_list push ++ pops).

(* _attr_markers: (role_epis, other_epis + pops); a Push is dropped *)
Definition attr_markers (l : list epi) : list epi * list epi :=
  let '(_, pops, role_epis, other_epis) := reified_markers l in
  (role_epis, other_epis ++ pops).

(* new_epidata.pop(triple) if triple in new_epidata else [] *)
Definition epi_pop (t : triple) (ed : dict triple (list epi)) : list epi * dict triple (list epi) :=
  match dget triple_eqb t ed with
  | Some l => (l, ddel triple_eqb t ed)
  | None => ([], ed)
  end.

(* ---------------------------------------------------------------------- *)
(* reify_edges.  [g] is the ORIGINAL graph (appears_inverted looks at it);
   [vars] grows by the new variables; result: triples and epidata.
   vars = g.variables(); vars.update(tgt for _, _, tgt in g.triples) *)
Definition used_names (g : graph) : list atom := variables g ++ map ttgt (triples g).
Fixpoint reify_edges_loop (m : model) (g : graph) (ts : list triple) (vars : list atom)
  (ed : dict triple (list epi)) : outcome (list triple * dict triple (list epi)) :=
  match ts with
  | [] => Ok ([], ed)
  | t :: ts' =>
      if is_role_reifiable m (trole t) then
        '(in0, node_triple, out0) <- reify m t vars ;;
        let swap := negb (atom_eqb (tsrc t) (ttgt t)) && appears_inverted g t in
        let in_triple := if swap then out0 else in0 in
        let out_triple := if swap then in0 else out0 in
        let var := tsrc node_triple in
        let ed1 := dset triple_eqb in_triple [Push var] ed in
        let '(old_epis, ed2) := epi_pop t ed1 in
        let '(node_epis, out_epis) := edge_markers old_epis in
        let ed3 := dset triple_eqb node_triple node_epis ed2 in
        let ed4 := dset triple_eqb out_triple out_epis ed3 in
        '(rest, edf) <- reify_edges_loop m g ts' (vars ++ [var]) ed4 ;;
        Ok (in_triple :: node_triple :: out_triple :: rest, edf)
      else
        '(rest, edf) <- reify_edges_loop m g ts' vars ed ;;
        Ok (t :: rest, edf)
  end.

Definition reify_edges (m : model) (g : graph) : outcome graph :=
  '(ts, ed) <- reify_edges_loop m g (triples g) (used_names g) (epidata g) ;;
  Ok (mk_graph ts (graph_top g) ed (gmeta g)).

(* ---------------------------------------------------------------------- *)
(* _dereify_agenda *)
Definition top_atom (g : graph) : atom :=
  match graph_top g with Some t => t | None => ANone end.

(* first loop: inst (dict var -> instance triple), other (dict var -> list),
   fixed (set, here a list; starts as [g.top]) *)
Definition agenda_scan := (dict atom triple * dict atom (list triple) * list atom)%type.
Definition agenda_scan_step (acc : agenda_scan) (t : triple) : agenda_scan :=
  let '(inst, other, fixed) := acc in
  if str_eqb (trole t) INSTANCE then (dset atom_eqb (tsrc t) t inst, other, fixed)
  else
    (inst,
     match dget atom_eqb (tsrc t) other with
     | None => dset atom_eqb (tsrc t) [t] other
     | Some l => dset atom_eqb (tsrc t) (l ++ [t]) other
     end,
     fixed ++ [ttgt t]).
Definition agenda_scan_all (g : graph) : agenda_scan :=
  fold_left agenda_scan_step (triples g) ([], [], [top_atom g]).

Definition is_not_raln (e : epi) : bool := negb (is_raln e).

Definition aln_to_role_epi (e : epi) : list epi :=
  match e with Aln i p => [RAln i p] | _ => [] end.

Definition agenda_entry := (triple * triple * list epi)%type.

(* body of the second loop for one (var, instance) item:
   Ok None = not collapsible (a failed check, ModelError, or the F17 guard) *)
Definition agenda_item (m : model) (g : graph) (other : dict atom (list triple)) (fixed : list atom)
  (var : atom) (instance : triple) : outcome (option agenda_entry) :=
  if mem atom_eqb var fixed then Ok None
  else
    match dget atom_eqb var other with
    | Some [o1; o2] =>
        if is_concept_dereifiable m (ttgt instance) then
          let swap := atom_eqb (pushed_value g o2) var in
          let first := if swap then o2 else o1 in
          let second := if swap then o1 else o2 in
          match dereify m instance first second with
          | ModelErr => Ok None
          | Ok dereified =>
              if negb (is_var g (tsrc dereified)) then Ok None
              else
                let role_epi :=
                  match dget triple_eqb instance (alignments g) with
                  | Some a => aln_to_role_epi a
                  | None => []
                  end in
                Ok (Some (first, dereified, role_epi ++ filter is_not_raln (epis_of g second)))
          | DecodeErr l o => DecodeErr l o
          | LayoutErr k => LayoutErr k
          | ConstErr => ConstErr
          | SurfaceErr => SurfaceErr
          | GraphErr => GraphErr
          | Other tag => Other tag
          | OutOfFuel => OutOfFuel
          end
        else Ok None
    | _ => Ok None
    end.

Fixpoint agenda_items (m : model) (g : graph) (other : dict atom (list triple)) (fixed : list atom)
  (inst : dict atom triple) : outcome (dict atom agenda_entry) :=
  match inst with
  | [] => Ok []
  | (var, instance) :: inst' =>
      e <- agenda_item m g other fixed var instance ;;
      rest <- agenda_items m g other fixed inst' ;;
      Ok (match e with Some x => (var, x) :: rest | None => rest end)
  end.

Definition dereify_agenda (m : model) (g : graph) : outcome (dict atom agenda_entry) :=
  let '(inst, other, fixed) := agenda_scan_all g in
  agenda_items m g other fixed inst.

(* dereify_edges main loop *)
Definition del_if_present (t : triple) (ed : dict triple (list epi)) : dict triple (list epi) :=
  if dmem triple_eqb t ed then ddel triple_eqb t ed else ed.

Fixpoint dereify_edges_loop (agenda : dict atom agenda_entry) (ts : list triple)
  (ed : dict triple (list epi)) : list triple * dict triple (list epi) :=
  match ts with
  | [] => ([], ed)
  | t :: ts' =>
      match dget atom_eqb (tsrc t) agenda with
      | Some (first, dereified, epis) =>
          if triple_eqb t first then
            let ed1 := dset triple_eqb dereified epis ed in
            let ed2 := del_if_present t ed1 in
            let '(rest, edf) := dereify_edges_loop agenda ts' ed2 in
            (dereified :: rest, edf)
          else
            dereify_edges_loop agenda ts' (del_if_present t ed)
      | None =>
          let '(rest, edf) := dereify_edges_loop agenda ts' ed in
          (t :: rest, edf)
      end
  end.

Definition dereify_edges (m : model) (g : graph) : outcome graph :=
  agenda <- dereify_agenda m g ;;
  let '(ts, ed) := dereify_edges_loop agenda (triples g) (epidata g) in
  Ok (mk_graph ts (graph_top g) ed (gmeta g)).

(* ---------------------------------------------------------------------- *)
(* reify_attributes.  [variables] (the attribute test) is fixed, [used] (the
   freshness test) starts as variables + all targets and grows.  The counter
   [i] is shared by all attributes:
     var = '_' ; while var in used: var = f'_{i}'; i += 1
   [attr_fresh_loop] is the while loop entered with a candidate [var]; fuel. *)
Fixpoint attr_fresh_loop (f : nat) (vars : list atom) (var : str) (i : N) : option (str * N) :=
  if mem atom_eqb (AStr var) vars then
    match f with
    | O => None
    | S f' => attr_fresh_loop f' vars (USCORE ++ N_to_str i) (i + 1)%N
    end
  else Some (var, i).
Definition attr_fresh (vars : list atom) (i : N) : option (str * N) :=
  attr_fresh_loop (S (length vars)) vars USCORE i.

Fixpoint reify_attributes_loop (variables : list atom) (ts : list triple) (vars : list atom) (i : N)
  (ed : dict triple (list epi)) : outcome (list triple * dict triple (list epi)) :=
  match ts with
  | [] => Ok ([], ed)
  | t :: ts' =>
      if negb (str_eqb (trole t) INSTANCE) && negb (mem atom_eqb (ttgt t) variables) then
        match attr_fresh vars i with
        | None => OutOfFuel
        | Some (v, i') =>
            let var := AStr v in
            let role_triple := (tsrc t, trole t, var) in
            let node_triple := (var, INSTANCE, ttgt t) in
            let '(old_epis, ed1) := epi_pop t ed in
            let '(role_epis, node_epis) := attr_markers old_epis in
            let ed2 := dset triple_eqb role_triple (role_epis ++ [Push var]) ed1 in
            let ed3 := dset triple_eqb node_triple (node_epis ++ [Pop]) ed2 in
            '(rest, edf) <- reify_attributes_loop variables ts' (vars ++ [var]) i' ed3 ;;
            Ok (role_triple :: node_triple :: rest, edf)
        end
      else
        '(rest, edf) <- reify_attributes_loop variables ts' vars i ed ;;
        Ok (t :: rest, edf)
  end.

Definition reify_attributes (g : graph) : outcome graph :=
  '(ts, ed) <- reify_attributes_loop (variables g) (triples g) (used_names g) 2%N (epidata g) ;;
  Ok (mk_graph ts (graph_top g) ed (gmeta g)).

(* ---------------------------------------------------------------------- *)
(* indicate_branches (with the F29 repair: the branch is indicated from the
   target's node only when the target is a variable).
   [assert isinstance(t[2], str)] is the only way to fail: Other 4 =
   AssertionError; it needs a variable that is not a str. *)
Definition is_astr (a : atom) : bool := match a with AStr _ => true | _ => false end.

Fixpoint indicate_loop (m : model) (g : graph) (ts : list triple) : outcome (list triple) :=
  match ts with
  | [] => Ok []
  | t :: ts' =>
      match get_pushed_variable g t with
      | Some v =>
          if atom_eqb v (ttgt t) then
            rest <- indicate_loop m g ts' ;;
            Ok ((tsrc t, top_role m, ttgt t) :: t :: rest)
          else if atom_eqb v (tsrc t) && is_var g (ttgt t) then
            if is_astr (ttgt t) then
              rest <- indicate_loop m g ts' ;;
              Ok ((ttgt t, top_role m, tsrc t) :: t :: rest)
            else Other 4
          else
            rest <- indicate_loop m g ts' ;;
            Ok (t :: rest)
      | None =>
          rest <- indicate_loop m g ts' ;;
          Ok (t :: rest)
      end
  end.

Definition indicate_branches (m : model) (g : graph) : outcome graph :=
  ts <- indicate_loop m g (triples g) ;;
  Ok (mk_graph ts (graph_top g) (epidata g) (gmeta g)).
