(** Insertion-ordered dictionaries (Python 3.7+ [dict]) as association lists
    with update-in-place semantics, so iteration ORDER is observable exactly
    where Python's is. *)
From PM Require Export Base.PyStr.

Section Dict.
  Context {K V : Type} (keq : K -> K -> bool).

  Definition dict := list (K * V).

  Fixpoint dget (k : K) (d : dict) : option V :=
    match d with
    | [] => None
    | (k', v) :: d' => if keq k k' then Some v else dget k d'
    end.

  Definition dmem (k : K) (d : dict) : bool :=
    match dget k d with Some _ => true | None => false end.

  (* d[k] = v : existing key keeps its position, new key is appended *)
  Fixpoint dset (k : K) (v : V) (d : dict) : dict :=
    match d with
    | [] => [(k, v)]
    | (k', v') :: d' => if keq k k' then (k', v) :: d' else (k', v') :: dset k v d'
    end.

  Fixpoint ddel (k : K) (d : dict) : dict :=
    match d with
    | [] => []
    | (k', v') :: d' => if keq k k' then d' else (k', v') :: ddel k d'
    end.

  Definition dkeys (d : dict) : list K := map fst d.

  (* dict(pairs) / d.update(pairs): later pairs overwrite in place *)
  Definition dupdate (d : dict) (pairs : list (K * V)) : dict :=
    fold_left (fun acc kv => dset (fst kv) (snd kv) acc) pairs d.
  Definition dict_of_pairs (pairs : list (K * V)) : dict := dupdate [] pairs.
End Dict.

Arguments dict : clear implicits.

(* membership / de-duplication helpers for Python sets used for membership *)
Section Mem.
  Context {A : Type} (aeq : A -> A -> bool).
  Definition mem (a : A) (l : list A) : bool := existsb (aeq a) l.
  (* order-preserving dedup, first occurrence wins *)
  Fixpoint dedup_acc (l acc : list A) : list A :=
    match l with
    | [] => rev acc
    | x :: l' => if mem x acc then dedup_acc l' acc else dedup_acc l' (x :: acc)
    end.
  Definition dedup (l : list A) : list A := dedup_acc l [].
  Fixpoint list_eqb (a b : list A) : bool :=
    match a, b with
    | [], [] => true
    | x :: a', y :: b' => aeq x y && list_eqb a' b'
    | _, _ => false
    end.
End Mem.

Definition option_eqb {A} (aeq : A -> A -> bool) (x y : option A) : bool :=
  match x, y with
  | None, None => true
  | Some a, Some b => aeq a b
  | _, _ => false
  end.
