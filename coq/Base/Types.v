(** Shared data types of the penman model (DESIGN.md Appendix A). *)
From Coq Require Export ZArith.
From PM Require Export Base.PyStr Base.PyDict.

(** Atoms: [None], a [str], or a number.  A number is represented by its
    [str()] text plus "is it falsy (== 0)"; that is all any branch of the
    Python code looks at ([not target], [f'{target!s}']).  Two numbers are
    compared by text (so the generators never put [0] and [0.0] in one graph). *)
Inductive atom := ANone | AStr (s : str) | ANum (txt : str) (zero : bool).

Definition atom_eqb (a b : atom) : bool :=
  match a, b with
  | ANone, ANone => true
  | AStr x, AStr y => str_eqb x y
  | ANum x _, ANum y _ => str_eqb x y
  | _, _ => false
  end.

(* Python truthiness of an atom: [not a] *)
Definition falsy (a : atom) : bool :=
  match a with ANone => true | AStr [] => true | AStr _ => false | ANum _ z => z end.

(* str(a) as used by f'{a!s}' *)
Definition NONE_TXT : str := [78;111;110;101]%N.   (* "None" *)
Definition atom_str (a : atom) : str :=
  match a with ANone => NONE_TXT | AStr s => s | ANum t _ => t end.

(** Trees: [Node var branches]; a branch target is atomic or a nested node. *)
Inductive target :=
| TAtom (a : atom)
| TNode (n : node)
with node :=
| Node (var : atom) (branches : list (str * target)).

Definition branch := (str * target)%type.
Definition node_var (n : node) : atom := match n with Node v _ => v end.
Definition node_branches (n : node) : list branch := match n with Node _ b => b end.

Record tree := mkTree { troot : node; tmeta : dict str str }.

(** Tokens *)
Inductive tokty :=
  COMMENT | STRING | LPAREN | RPAREN | SLASH | ROLE | SYMBOL | ALIGNMENT | UNEXPECTED.
Definition tokty_eqb (a b : tokty) : bool :=
  match a, b with
  | COMMENT, COMMENT | STRING, STRING | LPAREN, LPAREN | RPAREN, RPAREN
  | SLASH, SLASH | ROLE, ROLE | SYMBOL, SYMBOL | ALIGNMENT, ALIGNMENT
  | UNEXPECTED, UNEXPECTED => true
  | _, _ => false
  end.
Record token := mkToken { tty : tokty; ttext : str; tline : N; toff : N }.

(** Epigraphical markers.  [Aln]: mode 2 (target alignment); [RAln]: mode 1
    (role alignment).  [prefix] is [None] or e.g. "e" / "e." *)
Inductive epi :=
| Push (v : atom)
| Pop
| Aln (idx : list N) (pre : option str)
| RAln (idx : list N) (pre : option str).

Definition epi_eqb (a b : epi) : bool :=
  match a, b with
  | Push x, Push y => atom_eqb x y
  | Pop, Pop => true
  | Aln i p, Aln j q => list_eqb N.eqb i j && option_eqb str_eqb p q
  | RAln i p, RAln j q => list_eqb N.eqb i j && option_eqb str_eqb p q
  | _, _ => false
  end.
Definition is_push (e : epi) : bool := match e with Push _ => true | _ => false end.
Definition is_pop (e : epi) : bool := match e with Pop => true | _ => false end.
Definition is_layout (e : epi) : bool := is_push e || is_pop e.

(** Triples and graphs.  The source is an [atom]: inverting a triple can put
    [None] or a constant there. *)
Definition triple := (atom * str * atom)%type.
Definition tsrc (t : triple) : atom := fst (fst t).
Definition trole (t : triple) : str := snd (fst t).
Definition ttgt (t : triple) : atom := snd t.
Definition triple_eqb (x y : triple) : bool :=
  atom_eqb (tsrc x) (tsrc y) && str_eqb (trole x) (trole y) && atom_eqb (ttgt x) (ttgt y).

Record graph := mkGraph {
  triples : list triple;
  gtop : option atom;                    (* the [_top] slot: explicit top or None *)
  epidata : dict triple (list epi);
  gmeta : dict str str
}.

(** Outcomes: which exception, if any, a call ends with. *)
Inductive outcome (A : Type) :=
| Ok (a : A)
| DecodeErr (line off : N)
| LayoutErr (k : N)   (* 1 possibly disconnected, 2 unknown configuration error,
                         3 incomplete configuration, 4 top is not a variable *)
| ConstErr
| ModelErr
| SurfaceErr
| GraphErr
| Other (tag : N)     (* 1 StopIteration 2 KeyError 3 IndexError 4 AssertionError
                         5 ValueError 6 TypeError 7 AttributeError *)
| OutOfFuel.
Arguments Ok {A}. Arguments DecodeErr {A}. Arguments LayoutErr {A}.
Arguments ConstErr {A}. Arguments ModelErr {A}. Arguments SurfaceErr {A}.
Arguments GraphErr {A}. Arguments Other {A}. Arguments OutOfFuel {A}.

Definition bind {A B} (x : outcome A) (f : A -> outcome B) : outcome B :=
  match x with
  | Ok a => f a
  | DecodeErr l o => DecodeErr l o
  | LayoutErr k => LayoutErr k
  | ConstErr => ConstErr
  | ModelErr => ModelErr
  | SurfaceErr => SurfaceErr
  | GraphErr => GraphErr
  | Other t => Other t
  | OutOfFuel => OutOfFuel
  end.
Notation "x <- e1 ;; e2" := (bind e1 (fun x => e2))
  (at level 100, e1 at next level, right associativity).
Notation "' p <- e1 ;; e2" := (bind e1 (fun p => e2))
  (at level 100, p pattern, e1 at next level, right associativity).

(** Anchor forcing extraction of all numeric datatypes the OCaml glue converts. *)
Definition conv_anchor : N * Z * nat * positive := (0%N, Z0, O, xH).
