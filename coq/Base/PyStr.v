(** Python [str] as a list of code points, with the handful of [str] methods
    the penman sources use.  Executable, no proofs here (see Proofs/). *)
From Coq Require Export List NArith Bool.
Export ListNotations.

Definition str := list N.

Definition eqc (a b : N) : bool := N.eqb a b.
Definition isin (c : N) (l : list N) : bool := existsb (eqc c) l.

Fixpoint str_eqb (a b : str) : bool :=
  match a, b with
  | [], [] => true
  | x :: a', y :: b' => N.eqb x y && str_eqb a' b'
  | _, _ => false
  end.

(* lexicographic comparison of code points = Python's str ordering *)
Fixpoint str_ltb (a b : str) : bool :=
  match a, b with
  | _, [] => false
  | [], _ :: _ => true
  | x :: a', y :: b' => if N.ltb x y then true else if N.eqb x y then str_ltb a' b' else false
  end.
Definition str_leb (a b : str) : bool := negb (str_ltb b a).

Fixpoint startswith (s p : str) : bool :=
  match p, s with
  | [], _ => true
  | c :: p', d :: s' => eqc c d && startswith s' p'
  | _ :: _, [] => false
  end.
Definition endswith (s p : str) : bool := startswith (rev s) (rev p).

(* s[:-n] for n <= len s ; s[n:] *)
Definition drop_last (n : nat) (s : str) : str := firstn (length s - n) s.
Definition drop_first (n : nat) (s : str) : str := skipn n s.

(* span p s = (longest prefix satisfying p, rest) *)
Fixpoint span (p : N -> bool) (s : str) : str * str :=
  match s with
  | c :: s' => if p c then let '(a, b) := span p s' in (c :: a, b) else ([], s)
  | [] => ([], [])
  end.

(* str.partition(sep) for a non-empty sep: (head, found, tail) *)
Fixpoint partition_at (sep : str) (s : str) : str * bool * str :=
  match s with
  | [] => ([], false, [])
  | c :: s' =>
      if startswith s sep then ([], true, skipn (length sep) s)
      else let '(a, f, b) := partition_at sep s' in
           if f then (c :: a, true, b) else (c :: a, false, [])
  end.
(* Python: 'abc'.partition('~') = ('abc','','') when absent *)
Definition partition (sep s : str) : str * bool * str := partition_at sep s.

(* str.rpartition(sep): (head, found, tail); when absent ('', '', s) *)
Definition rpartition (sep s : str) : str * bool * str :=
  let '(a, f, b) := partition_at (rev sep) (rev s) in
  if f then (rev b, true, rev a) else ([], false, s).

Definition contains_char (c : N) (s : str) : bool := isin c s.

(* s.lstrip(c) for a single character *)
Fixpoint lstrip_char (c : N) (s : str) : str :=
  match s with
  | d :: s' => if eqc c d then lstrip_char c s' else s
  | [] => []
  end.

(* str.isspace() code points (CPython 3.12 / Unicode 15): validated against
   CPython over all 1,114,112 code points by the harness on every run. *)
Definition py_isspace (c : N) : bool :=
  (N.leb 9 c && N.leb c 13) || (N.leb 28 c && N.leb c 32) || eqc c 133 || eqc c 160
  || eqc c 5760 || (N.leb 8192 c && N.leb c 8202) || eqc c 8232 || eqc c 8233
  || eqc c 8239 || eqc c 8287 || eqc c 12288.

Fixpoint lstrip_ws (s : str) : str :=
  match s with c :: s' => if py_isspace c then lstrip_ws s' else s | [] => [] end.
Definition rstrip_ws (s : str) : str := rev (lstrip_ws (rev s)).

(* rindex of a character: position of last occurrence *)
Fixpoint rindex_aux (c : N) (s : str) (i : nat) (last : option nat) : option nat :=
  match s with
  | [] => last
  | d :: s' => rindex_aux c s' (S i) (if eqc c d then Some i else last)
  end.
Definition rindex (c : N) (s : str) : option nat := rindex_aux c s 0 None.

(* decimal rendering of a natural number: str(n) *)
Definition digit_char (d : N) : N := (48 + d)%N.
Fixpoint N_to_str_fuel (f : nat) (n : N) (acc : str) : str :=
  match f with
  | O => acc
  | S f' =>
      let q := N.div n 10 in
      let r := N.modulo n 10 in
      let acc' := digit_char r :: acc in
      if N.eqb q 0 then acc' else N_to_str_fuel f' q acc'
  end.
Definition N_to_str (n : N) : str := N_to_str_fuel (S (N.to_nat (N.log2 n))) n [].

Definition is_digit (c : N) : bool := N.leb 48 c && N.leb c 57.
Definition is_ascii_lower (c : N) : bool := N.leb 97 c && N.leb c 122.
Definition is_ascii_upper (c : N) : bool := N.leb 65 c && N.leb c 90.
Definition is_ascii_alpha (c : N) : bool := is_ascii_lower c || is_ascii_upper c.

(* int(s) for a string of ASCII digits (leading zeros allowed) *)
Definition digits_to_N (s : str) : N :=
  fold_left (fun acc c => (acc * 10 + (c - 48))%N) s 0%N.

Fixpoint join (sep : str) (l : list str) : str :=
  match l with
  | [] => []
  | [x] => x
  | x :: l' => x ++ sep ++ join sep l'
  end.

(* s.split(c) on a single character (always at least one piece) *)
Fixpoint split_char (c : N) (s : str) : list str :=
  match s with
  | [] => [[]]
  | d :: s' =>
      if eqc c d then [] :: split_char c s'
      else match split_char c s' with
           | p :: ps => (d :: p) :: ps
           | [] => [[d]]
           end
  end.

Definition spaces (n : nat) : str := repeat 32%N n.

(* handy literals *)
Definition OF : str := [45;111;102]%N.                         (* "-of" *)
Definition COLON : N := 58%N.
Definition TILDE : N := 126%N.
Definition QUOTE : N := 34%N.
Definition INSTANCE : str := [58;105;110;115;116;97;110;99;101]%N.  (* ":instance" *)
Definition SLASHS : str := [47]%N.                              (* "/" *)
Definition TOPROLE : str := [58;84;79;80]%N.                    (* ":TOP" *)
Definition TOPVAR : str := [116;111;112]%N.                     (* "top" *)
