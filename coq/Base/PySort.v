(** Python's [sorted(l, key=f)] as THE stable sort for the key order.

    [sorted_by leb key l] is a stable insertion sort ([leb a b] reads "not b < a").
    CPython's Timsort is not modelled; the recorded assumption is that it is a
    stable sort for a total preorder on the keys.  [stable_sort_unique] shows that
    any two lists that are sorted by key and keep the relative order of the
    elements of every key class are equal, so that assumption pins down the same
    list as this function. *)
From Coq Require Import List Bool Sorting.Permutation Sorting.Sorted.
Import ListNotations.

Section Sort.
  Context {A K : Type}.
  Variable leb : K -> K -> bool.
  Variable key : A -> K.

  (* x is inserted BEFORE the first element whose key is not smaller *)
  Fixpoint insert_by (x : A) (l : list A) : list A :=
    match l with
    | [] => [x]
    | y :: l' => if leb (key x) (key y) then x :: y :: l' else y :: insert_by x l'
    end.

  Fixpoint sorted_by (l : list A) : list A :=
    match l with
    | [] => []
    | x :: l' => insert_by x (sorted_by l')
    end.

  (* key equivalence and the sub-list of one key class *)
  Definition keqv (a b : K) : bool := leb a b && leb b a.
  Definition kclass (k : K) (l : list A) : list A := filter (fun a => keqv k (key a)) l.
  Definition key_le (a b : A) : Prop := leb (key a) (key b) = true.

  Definition total : Prop := forall a b, leb a b = true \/ leb b a = true.
  Definition transitive : Prop := forall a b c, leb a b = true -> leb b c = true -> leb a c = true.

  (* ---- permutation ---- *)
  Lemma insert_by_perm : forall x l, Permutation (insert_by x l) (x :: l).
  Proof.
    intros x l. induction l as [|y l IH]; simpl; [apply Permutation_refl|].
    destruct (leb (key x) (key y)); [apply Permutation_refl|].
    apply perm_trans with (y :: x :: l); [apply perm_skip; exact IH | apply perm_swap].
  Qed.

  Lemma sorted_by_perm : forall l, Permutation (sorted_by l) l.
  Proof.
    induction l as [|x l IH]; simpl; [apply perm_nil|].
    apply perm_trans with (x :: sorted_by l); [apply insert_by_perm | apply perm_skip; exact IH].
  Qed.

  Lemma sorted_by_length : forall l, length (sorted_by l) = length l.
  Proof. intros l. apply Permutation_length, sorted_by_perm. Qed.

  Lemma sorted_by_in : forall l a, In a (sorted_by l) <-> In a l.
  Proof.
    intros l a. split; apply Permutation_in;
      [apply sorted_by_perm | apply Permutation_sym, sorted_by_perm].
  Qed.

  (* ---- sortedness ---- *)
  Lemma insert_by_in : forall x l a, In a (insert_by x l) -> a = x \/ In a l.
  Proof.
    intros x l a H. apply (Permutation_in _ (insert_by_perm x l)) in H.
    destruct H as [H|H]; [left; symmetry; exact H | right; exact H].
  Qed.

  Lemma insert_by_sorted : total -> transitive -> forall x l,
    StronglySorted key_le l -> StronglySorted key_le (insert_by x l).
  Proof.
    intros Tot Tr x l S. induction S as [|y l S IH F]; simpl.
    - constructor; [constructor | constructor].
    - destruct (leb (key x) (key y)) eqn:E.
      + constructor; [constructor; assumption|].
        constructor; [exact E|].
        apply Forall_forall. intros a Ha. unfold key_le.
        apply Tr with (key y); [exact E|].
        apply (proj1 (Forall_forall _ _) F a Ha).
      + constructor; [exact IH|].
        apply Forall_forall. intros a Ha. apply insert_by_in in Ha.
        destruct Ha as [Ha|Ha].
        * subst a. unfold key_le. destruct (Tot (key x) (key y)) as [H|H]; [congruence | exact H].
        * apply (proj1 (Forall_forall _ _) F a Ha).
  Qed.

  Lemma sorted_by_sorted : total -> transitive -> forall l, StronglySorted key_le (sorted_by l).
  Proof.
    intros Tot Tr l. induction l as [|x l IH]; simpl; [constructor|].
    apply insert_by_sorted; assumption.
  Qed.

  (* ---- stability ---- *)
  Lemma keqv_trans_l : transitive -> forall k a b,
    keqv k a = true -> leb a b = false -> keqv k b = false.
  Proof.
    intros Tr k a b E L. unfold keqv in *. apply andb_true_iff in E. destruct E as [E1 E2].
    destruct (leb k b) eqn:KB; [|reflexivity]. simpl.
    destruct (leb b k) eqn:BK; [|reflexivity].
    (* a <= k <= b contradicts leb a b = false *)
    rewrite (Tr a k b E2 KB) in L. discriminate.
  Qed.

  Lemma insert_by_class : transitive -> forall k x l,
    kclass k (insert_by x l) = kclass k (x :: l).
  Proof.
    intros Tr k x l. induction l as [|y l IH]; [reflexivity|].
    simpl insert_by. destruct (leb (key x) (key y)) eqn:E; [reflexivity|].
    unfold kclass in *. simpl in *. rewrite IH.
    destruct (keqv k (key x)) eqn:Kx; [|reflexivity].
    rewrite (keqv_trans_l Tr k (key x) (key y) Kx E). reflexivity.
  Qed.

  (* the elements of each key class keep their relative order *)
  Lemma sorted_by_stable : transitive -> forall k l, kclass k (sorted_by l) = kclass k l.
  Proof.
    intros Tr k l. induction l as [|x l IH]; [reflexivity|].
    simpl sorted_by. rewrite insert_by_class by exact Tr.
    unfold kclass in *. simpl. rewrite IH. reflexivity.
  Qed.

  (* ---- uniqueness of the stable sort ---- *)
  Lemma kclass_head_in : forall x l, total -> In x (kclass (key x) (x :: l)).
  Proof.
    intros x l Tot. unfold kclass. simpl.
    assert (R : keqv (key x) (key x) = true).
    { unfold keqv. destruct (Tot (key x) (key x)) as [H|H]; rewrite H; reflexivity. }
    rewrite R. left. reflexivity.
  Qed.

  Lemma sorted_head_le : total -> forall y l a,
    StronglySorted key_le (y :: l) -> In a (y :: l) -> leb (key y) (key a) = true.
  Proof.
    intros Tot y l a S H. inversion S as [|? ? S' F]; subst.
    destruct H as [H|H].
    - subst a. destruct (Tot (key y) (key y)) as [E|E]; exact E.
    - apply (proj1 (Forall_forall _ _) F a H).
  Qed.

  Theorem stable_sort_unique : total -> forall l1 l2,
    StronglySorted key_le l1 -> StronglySorted key_le l2 ->
    (forall k, kclass k l1 = kclass k l2) -> l1 = l2.
  Proof.
    intros Tot l1. induction l1 as [|x l1 IH]; intros l2 S1 S2 C.
    - destruct l2 as [|y l2]; [reflexivity|].
      pose proof (kclass_head_in y l2 Tot) as H. rewrite <- C in H. destruct H.
    - destruct l2 as [|y l2].
      + pose proof (kclass_head_in x l1 Tot) as H. rewrite C in H. destruct H.
      + assert (Hx : In x (y :: l2)).
        { pose proof (kclass_head_in x l1 Tot) as H. rewrite C in H.
          unfold kclass in H. apply filter_In in H. tauto. }
        assert (Hy : In y (x :: l1)).
        { pose proof (kclass_head_in y l2 Tot) as H. rewrite <- C in H.
          unfold kclass in H. apply filter_In in H. tauto. }
        pose proof (sorted_head_le Tot y l2 x S2 Hx) as Lyx.
        pose proof (sorted_head_le Tot x l1 y S1 Hy) as Lxy.
        assert (E : x = y).
        { pose proof (C (key x)) as Cx. unfold kclass in Cx. simpl in Cx.
          assert (R1 : keqv (key x) (key x) = true).
          { unfold keqv. destruct (Tot (key x) (key x)) as [H|H]; rewrite H; reflexivity. }
          assert (R2 : keqv (key x) (key y) = true).
          { unfold keqv. rewrite Lxy, Lyx. reflexivity. }
          rewrite R1, R2 in Cx. inversion Cx. reflexivity. }
        subst y. f_equal. apply IH.
        * inversion S1; assumption.
        * inversion S2; assumption.
        * intros k. pose proof (C k) as Ck. unfold kclass in *. simpl in Ck.
          destruct (keqv k (key x)); [inversion Ck; reflexivity | exact Ck].
  Qed.

  (* any stable, sorted rearrangement of [l] IS [sorted_by l] *)
  Corollary sorted_by_unique : total -> transitive -> forall l l',
    StronglySorted key_le l' -> (forall k, kclass k l' = kclass k l) -> l' = sorted_by l.
  Proof.
    intros Tot Tr l l' S C. apply stable_sort_unique; [exact Tot | exact S | |].
    - apply sorted_by_sorted; assumption.
    - intros k. rewrite C. symmetry. apply sorted_by_stable. exact Tr.
  Qed.

  (* a list that is already sorted is left alone *)
  Lemma sorted_by_id : total -> transitive -> forall l,
    StronglySorted key_le l -> sorted_by l = l.
  Proof.
    intros Tot Tr l S. symmetry. apply sorted_by_unique; try assumption. reflexivity.
  Qed.
End Sort.

(* a constant key never reorders: Python's key=None / original_order *)
Lemma sorted_by_const : forall {A K} (leb : K -> K -> bool) (c : K) (l : list A),
  leb c c = true -> sorted_by leb (fun _ => c) l = l.
Proof.
  intros A K leb c l R. induction l as [|x l IH]; [reflexivity|].
  simpl. rewrite IH. destruct l; simpl; [reflexivity|]. rewrite R. reflexivity.
Qed.

(* sorting the decorated list = decorating the sorted list (DSU) *)
Lemma sorted_by_map : forall {A B K} (leb : K -> K -> bool) (key : B -> K) (f : A -> B) (l : list A),
  map f (sorted_by leb (fun a => key (f a)) l) = sorted_by leb key (map f l).
Proof.
  intros A B K leb key f l. induction l as [|x l IH]; [reflexivity|].
  simpl. rewrite <- IH. generalize (sorted_by leb (fun a => key (f a)) l). intros s.
  induction s as [|y s IHs]; [reflexivity|].
  simpl. destruct (leb (key (f x)) (key (f y))); simpl; [reflexivity|]. rewrite IHs. reflexivity.
Qed.

(** [sorted(l, key=f)] for a key function with side effects (random_order): the
    keys are computed once per element, in list order, BEFORE any comparison
    (CPython's list.sort decorates first); [S] is the state the key threads. *)
Section SortSt.
  Context {A K S : Type}.
  Variable leb : K -> K -> bool.
  Variable key : S -> A -> S * K.

  Fixpoint draw_keys (s : S) (l : list A) : S * list (K * A) :=
    match l with
    | [] => (s, [])
    | a :: l' =>
        let '(s1, k) := key s a in
        let '(s2, r) := draw_keys s1 l' in (s2, (k, a) :: r)
    end.

  Definition sorted_st (s : S) (l : list A) : S * list A :=
    let '(s', d) := draw_keys s l in (s', map snd (sorted_by leb fst d)).

  Lemma draw_keys_snd : forall l s, map snd (snd (draw_keys s l)) = l.
  Proof.
    induction l as [|a l IH]; intros s; [reflexivity|].
    simpl. destruct (key s a) as [s1 k]. specialize (IH s1).
    destruct (draw_keys s1 l) as [s2 r]. simpl in *. rewrite IH. reflexivity.
  Qed.

  Lemma sorted_st_perm : forall s l, Permutation (snd (sorted_st s l)) l.
  Proof.
    intros s l. unfold sorted_st. pose proof (draw_keys_snd l s) as D.
    destruct (draw_keys s l) as [s' d]. simpl in *.
    apply perm_trans with (map snd d); [|rewrite D; apply Permutation_refl].
    apply Permutation_map. apply sorted_by_perm.
  Qed.
End SortSt.

(* a key without side effects: the ordinary [sorted_by] *)
Lemma draw_keys_pure : forall {A K S} (k : A -> K) (s : S) (l : list A),
  draw_keys (fun s a => (s, k a)) s l = (s, map (fun a => (k a, a)) l).
Proof.
  intros A K S k s l. induction l as [|a l IH]; [reflexivity|].
  simpl. rewrite IH. reflexivity.
Qed.

Lemma sorted_st_pure : forall {A K S} (leb : K -> K -> bool) (k : A -> K) (s : S) (l : list A),
  sorted_st leb (fun s a => (s, k a)) s l = (s, sorted_by leb k l).
Proof.
  intros A K S leb k s l. unfold sorted_st. rewrite draw_keys_pure. f_equal.
  rewrite <- (sorted_by_map leb fst (fun a => (k a, a)) l). simpl.
  rewrite map_map. simpl. apply map_id.
Qed.
